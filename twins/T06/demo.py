#!/venv/bin/python
"""Differential check for the T06 refactoring (routing-header code, property C06).

Usage:  /venv/bin/python demo.py <path-to-a-checkout-with-the-change>

The checkout's HEAD is exported to a temporary directory (the pristine tree);
the checkout's working tree is the refactored tree.  Several API descriptions
that exercise `create_metadata` (explicit google.api.routing rules and implicit
routing from the HTTP path) are generated with BOTH trees, each in its own
subprocess, and every output file is compared byte for byte.  Inputs on which
the generator is expected to fail are compared by exception type and message.

Exit status 0 and a one-line summary when everything is identical, 1 otherwise.
"""

import json
import os
import shutil
import subprocess
import sys
import tempfile


# --------------------------------------------------------------------------
# Descriptor construction (parent process only; uses the installed protobuf
# and googleapis-common-protos, never the `gapic` package).
# --------------------------------------------------------------------------


def _build_cases():
    from google.api import annotations_pb2, client_pb2, routing_pb2
    from google.longrunning import operations_pb2
    from google.protobuf import descriptor_pb2 as dpb

    F = dpb.FieldDescriptorProto

    def dep_closure(*modules):
        """FileDescriptorProtos of the given pb2 modules and all their imports."""
        seen = {}

        def visit(fd):
            if fd.name in seen:
                return
            for dep in fd.dependencies:
                visit(dep)
            seen[fd.name] = dpb.FileDescriptorProto.FromString(fd.serialized_pb)

        for module in modules:
            visit(module.DESCRIPTOR)
        return list(seen.values())

    def field(name, number, type_=F.TYPE_STRING, type_name=None, label=F.LABEL_OPTIONAL,
              oneof_index=None):
        f = F(name=name, number=number, type=type_, label=label, json_name=name)
        if type_name:
            f.type_name = type_name
        if oneof_index is not None:
            f.oneof_index = oneof_index
        return f

    def message(name, fields, nested=(), oneofs=(), map_entry=False):
        m = dpb.DescriptorProto(name=name, field=fields, nested_type=list(nested))
        for o in oneofs:
            m.oneof_decl.add(name=o)
        if map_entry:
            m.options.map_entry = True
        return m

    def method(name, input_type, output_type, *, http=None, body=None, verb="get",
               additional=(), routing=None, signature=None, lro=None,
               client_streaming=False, server_streaming=False):
        m = dpb.MethodDescriptorProto(
            name=name, input_type=input_type, output_type=output_type,
            client_streaming=client_streaming, server_streaming=server_streaming,
        )
        if http is not None:
            rule = m.options.Extensions[annotations_pb2.http]
            if verb == "custom":
                rule.custom.kind = "fetch"
                rule.custom.path = http
            else:
                setattr(rule, verb, http)
            if body:
                rule.body = body
            for add_verb, add_path, add_body in additional:
                extra = rule.additional_bindings.add()
                setattr(extra, add_verb, add_path)
                if add_body:
                    extra.body = add_body
        if routing is not None:
            rule = m.options.Extensions[routing_pb2.routing]
            rule.SetInParent()
            for fld, tmpl in routing:
                rule.routing_parameters.add(field=fld, path_template=tmpl)
        if signature is not None:
            m.options.Extensions[client_pb2.method_signature].append(signature)
        if lro is not None:
            info = m.options.Extensions[operations_pb2.operation_info]
            info.response_type, info.metadata_type = lro
        return m

    def service(name, methods, host="routing.example.com"):
        s = dpb.ServiceDescriptorProto(name=name, method=methods)
        s.options.Extensions[client_pb2.default_host] = host
        return s

    def file_(name, package, messages, services, deps, enums=()):
        return dpb.FileDescriptorProto(
            name=name, package=package, syntax="proto3",
            message_type=messages, service=services, enum_type=list(enums),
            dependency=[d.name for d in deps],
        )

    common = dep_closure(annotations_pb2, client_pb2, routing_pb2, operations_pb2)
    common_names = [
        "google/api/annotations.proto", "google/api/client.proto",
        "google/api/routing.proto", "google/longrunning/operations.proto",
    ]

    class _Dep:  # tiny shim so file_() can read `.name`
        def __init__(self, name):
            self.name = name

    deps = [_Dep(n) for n in common_names]

    def request_messages(pkg):
        """Request/response messages shared by the cases."""
        p = "." + pkg
        sub = message("Sub", [
            field("name", 1),
            field("from", 2),               # reserved word, nested
            field("class", 3),              # reserved word, nested
            field("deeper", 4, F.TYPE_MESSAGE, p + ".Deeper"),
        ])
        deeper = message("Deeper", [field("id", 1), field("import", 2)])
        labels_entry = message(
            "LabelsEntry", [field("key", 1), field("value", 2)], map_entry=True)
        request = message("Request", [
            field("name", 1),
            field("parent", 2),
            field("table_name", 3),
            field("app_profile_id", 4),
            field("class", 5),              # reserved word, top level
            field("sub", 6, F.TYPE_MESSAGE, p + ".Sub"),
            field("tags", 7, label=F.LABEL_REPEATED),
            field("labels", 8, F.TYPE_MESSAGE, p + ".Request.LabelsEntry",
                  label=F.LABEL_REPEATED),
            field("by_id", 9, oneof_index=0),
            field("by_alias", 10, oneof_index=0),
            field("page_size", 11, F.TYPE_INT32),
            field("page_token", 12),
            field("kind", 13, F.TYPE_ENUM, p + ".Kind"),
            field("object", 14),
            field("license", 15),
        ], nested=[labels_entry], oneofs=["selector"])
        response = message("Response", [field("name", 1), field("class", 2)])
        list_response = message("ListResponse", [
            field("items", 1, F.TYPE_MESSAGE, p + ".Response", label=F.LABEL_REPEATED),
            field("next_page_token", 2),
        ])
        meta = message("OpMetadata", [field("progress", 1, F.TYPE_INT32)])
        kind = dpb.EnumDescriptorProto(name="Kind")
        kind.value.add(name="KIND_UNSPECIFIED", number=0)
        kind.value.add(name="KIND_ONE", number=1)
        return [request, sub, deeper, response, list_response, meta], [kind]

    cases = []

    # ---- case 1: explicit routing, every template shape, default transports
    pkg = "google.routing.v1"
    P = "." + pkg
    msgs, enums = request_messages(pkg)
    explicit_methods = [
        method("NoTemplate", P + ".Request", P + ".Response",
               http="/v1/{name=items/*}",
               routing=[("app_profile_id", "")]),
        method("SingleStar", P + ".Request", P + ".Response",
               http="/v1/{name=items/*}:single",
               routing=[("app_profile_id", "{routing_id=*}")]),
        method("DoubleStar", P + ".Request", P + ".Response",
               http="/v1/{name=items/*}:double",
               routing=[("app_profile_id", "{routing_id=**}")]),
        method("Literals", P + ".Request", P + ".Response",
               http="/v1/{name=items/*}:literals",
               routing=[
                   ("table_name", "{project_id=projects/*}/instances/*/**"),
                   ("table_name", "projects/*/{instance_id=instances/*}/**"),
                   ("table_name", "projects/*/instances/*/{table_id=tables/*}"),
                   ("table_name", "{table_name=regions/*/zones/*/**}"),
               ]),
        method("SharedKey", P + ".Request", P + ".Response",
               http="/v1/{name=items/*}:shared", verb="post", body="*",
               routing=[
                   ("table_name", "{routing_id=projects/*}/**"),
                   ("app_profile_id", "{routing_id=**}"),
                   ("name", "{routing_id=items/*}"),
                   ("parent", ""),
                   ("parent", "{parent=shelves/*}"),
               ]),
        method("Nested", P + ".Request", P + ".Response",
               http="/v1/{sub.name=items/*}:nested",
               routing=[
                   ("sub.name", ""),
                   ("sub.name", "{sub_name=items/*}"),
                   ("sub.deeper.id", "{deep=**}"),
               ]),
        method("Reserved", P + ".Request", P + ".Response",
               http="/v1/{name=items/*}:reserved",
               routing=[
                   ("class", ""),
                   ("class", "{class=classes/*}"),
                   ("sub.from", ""),
                   ("sub.class", "{klass=**}"),
                   ("sub.deeper.import", "{import=imports/*}/**"),
                   ("object", ""),
                   ("license", "{license=*}"),
               ]),
        method("NoHttp", P + ".Request", P + ".Response",
               routing=[("name", "{name=**}")]),
        method("ServerStream", P + ".Request", P + ".Response",
               http="/v1/{name=items/*}:stream", server_streaming=True,
               routing=[("name", "{item=items/*}")]),
        method("ClientStream", P + ".Request", P + ".Response",
               client_streaming=True,
               routing=[("name", "{item=items/*}"), ("class", "")]),
        method("Bidi", P + ".Request", P + ".Response",
               client_streaming=True, server_streaming=True,
               routing=[("sub.from", "")]),
        # Annotation present but without parameters, on a client-streaming
        # method (the loop over the parameters is not rendered for those).
        method("EmptyRuleStream", P + ".Request", P + ".Response",
               client_streaming=True, routing=[]),
        method("Flattened", P + ".Request", P + ".Response",
               http="/v1/{name=items/*}:flat", signature="name,class,tags,labels",
               routing=[("name", "{name=items/*}")]),
    ]
    fd = file_("google/routing/v1/routing.proto", pkg, msgs,
               [service("ExplicitRouting", explicit_methods)], deps, enums)
    cases.append(dict(name="explicit-default", package=pkg, opts="",
                      files=common + [fd]))
    cases.append(dict(name="explicit-no-snippets", package=pkg,
                      opts="autogen-snippets=false", files=common + [fd]))

    # ---- case 2: implicit routing (no google.api.routing), gRPC + REST, LRO, paging
    pkg = "google.shelf.v2"
    P = "." + pkg
    msgs, enums = request_messages(pkg)
    implicit_methods = [
        method("GetThing", P + ".Request", P + ".Response",
               http="/v2/{name=shelves/*/things/*}", signature="name"),
        method("GetBare", P + ".Request", P + ".Response",
               http="/v2/things/{name}"),
        method("GetDotted", P + ".Request", P + ".Response",
               http="/v2/{sub.name=shelves/*}/dotted"),
        method("GetDeep", P + ".Request", P + ".Response",
               http="/v2/{sub.deeper.id=deep/*}/x/{sub.deeper.import}"),
        method("GetReserved", P + ".Request", P + ".Response",
               http="/v2/{class=classes/*}/y/{sub.from}/z/{sub.class=c/*}"),
        method("GetMany", P + ".Request", P + ".Response",
               http="/v2/{parent=shelves/*}/things/{name}/tables/{table_name=**}"),
        method("GetSoftKeywords", P + ".Request", P + ".Response",
               http="/v2/{object=objects/*}/licenses/{license}"),
        method("NoVariables", P + ".Request", P + ".Response",
               http="/v2/things"),
        method("NoHttp", P + ".Request", P + ".Response"),
        method("PostBody", P + ".Request", P + ".Response",
               http="/v2/{parent=shelves/*}/things", verb="post", body="*",
               signature="parent,tags,labels"),
        method("PutSubBody", P + ".Request", P + ".Response",
               http="/v2/{sub.name=shelves/*}", verb="put", body="sub"),
        method("PatchThing", P + ".Request", P + ".Response",
               http="/v2/{sub.name=shelves/*/things/*}", verb="patch", body="sub"),
        method("DeleteThing", P + ".Request", P + ".Response",
               http="/v2/{name=shelves/*/things/*}", verb="delete"),
        method("Additional", P + ".Request", P + ".Response",
               http="/v2/{name=shelves/*}:add",
               additional=[("get", "/v2/{parent=projects/*}/{table_name=tables/*}:add", ""),
                           ("post", "/v2/{app_profile_id}:add", "*")]),
        method("ListThings", P + ".Request", P + ".ListResponse",
               http="/v2/{parent=shelves/*}/things:list", signature="parent"),
        method("LongThing", P + ".Request", ".google.longrunning.Operation",
               http="/v2/{name=shelves/*}:long", verb="post", body="*",
               lro=("Response", "OpMetadata")),
        method("ServerStream", P + ".Request", P + ".Response",
               http="/v2/{name=shelves/*}:stream", server_streaming=True),
        method("ClientStream", P + ".Request", P + ".Response",
               http="/v2/{name=shelves/*}:upload", verb="post", body="*",
               client_streaming=True),
        method("Bidi", P + ".Request", P + ".Response",
               client_streaming=True, server_streaming=True),
    ]
    fd_implicit = file_("google/shelf/v2/shelf.proto", pkg, msgs,
                        [service("Shelves", implicit_methods, host="shelf.example.com")],
                        deps, enums)
    cases.append(dict(name="implicit-default", package=pkg, opts="",
                      files=common + [fd_implicit]))
    cases.append(dict(name="implicit-grpc-only", package=pkg, opts="transport=grpc",
                      files=common + [fd_implicit]))

    # ---- case 3: REST only with numeric enums; custom verb; every method has a rule
    pkg = "example.rest.v1beta1"
    P = "." + pkg
    msgs, enums = request_messages(pkg)
    rest_methods = [
        method("GetThing", P + ".Request", P + ".Response",
               http="/v1beta1/{name=things/*}", signature="name"),
        method("FetchThing", P + ".Request", P + ".Response",
               http="/v1beta1/{sub.class=things/*}/fetch/{class}", verb="custom"),
        method("CreateThing", P + ".Request", P + ".Response",
               http="/v1beta1/{parent=shelves/*}/things", verb="post", body="sub"),
        method("RouteThing", P + ".Request", P + ".Response",
               http="/v1beta1/{name=things/*}:route", verb="post", body="*",
               routing=[("table_name", "{table=projects/*/tables/*}/**"),
                        ("sub.from", "{table=**}"),
                        ("class", "")]),
        method("ListThings", P + ".Request", P + ".ListResponse",
               http="/v1beta1/{parent=shelves/*}/things"),
        method("LongThing", P + ".Request", ".google.longrunning.Operation",
               http="/v1beta1/{name=things/*}:long", verb="post", body="*",
               lro=("Response", "OpMetadata"),
               routing=[("name", "{thing=things/*}")]),
        method("WatchThing", P + ".Request", P + ".Response",
               http="/v1beta1/{name=things/*}:watch", server_streaming=True),
    ]
    fd_rest = file_("example/rest/v1beta1/rest.proto", pkg, msgs,
                    [service("RestThings", rest_methods, host="rest.example.com")],
                    deps, enums)
    cases.append(dict(name="rest-numeric-enums", package=pkg,
                      opts="transport=rest,rest-numeric-enums", files=common + [fd_rest]))

    # ---- case 4: several services over two files, one of them in a sub-package
    pkg = "google.multi.v1"
    P = "." + pkg
    msgs, enums = request_messages(pkg)
    fd_types = file_("google/multi/v1/types.proto", pkg, msgs, [], deps, enums)
    svc_a = service("Alpha", [
        method("Explicit", P + ".Request", P + ".Response",
               http="/v1/{name=a/*}",
               routing=[("name", "{a_id=a/*}"), ("sub.deeper.id", "")]),
        method("Implicit", P + ".Request", P + ".Response",
               http="/v1/{sub.deeper.import=a/*}/b/{class}"),
        method("Plain", P + ".Request", P + ".Response"),
    ], host="alpha.example.com")
    svc_b = service("Beta", [
        method("Paged", P + ".Request", P + ".ListResponse",
               http="/v1/{parent=b/*}/things",
               routing=[("parent", "{b=b/*}"), ("parent", "")]),
        method("Upload", P + ".Request", P + ".Response",
               http="/v1/{name=b/*}:upload", verb="post", body="*",
               client_streaming=True),
    ], host="beta.example.com")
    fd_services = file_("google/multi/v1/services.proto", pkg, [], [svc_a, svc_b],
                        deps + [_Dep("google/multi/v1/types.proto")])
    sub_pkg = pkg + ".admin"
    SP = "." + sub_pkg
    sub_msgs = [
        message("AdminRequest", [
            field("name", 1), field("global", 2),
            field("inner", 3, F.TYPE_MESSAGE, P + ".Sub"),
        ]),
        message("AdminResponse", [field("ok", 1, F.TYPE_BOOL)]),
    ]
    svc_c = service("Gamma", [
        method("AdminExplicit", SP + ".AdminRequest", SP + ".AdminResponse",
               http="/v1/{name=admin/*}",
               routing=[("global", "{global=**}"), ("inner.from", "")]),
        method("AdminImplicit", SP + ".AdminRequest", SP + ".AdminResponse",
               http="/v1/{global=admin/*}/inner/{inner.from}"),
    ], host="gamma.example.com")
    fd_sub = file_("google/multi/v1/admin/admin.proto", sub_pkg, sub_msgs, [svc_c],
                   deps + [_Dep("google/multi/v1/types.proto")])
    # (snippet generation does not support services in sub-packages at HEAD)
    cases.append(dict(name="multi-service-subpackage", package=pkg,
                      opts="autogen-snippets=false",
                      files=common + [fd_types, fd_services, fd_sub]))

    # ---- case 4b: shapes that the generated *unit test* templates cannot
    # digest at HEAD (`{key}` without `=`), so only the `create_metadata`
    # macro is rendered, directly, for every method of the API.
    pkg = "google.macro.v1"
    P = "." + pkg
    msgs, enums = request_messages(pkg)
    fd_macro = file_("google/macro/v1/macro.proto", pkg, msgs, [service("MacroOnly", [
        method("BareKey", P + ".Request", P + ".Response",
               http="/v1/{name=items/*}:bare",
               routing=[("table_name", "{table_name}")]),
        method("BareReserved", P + ".Request", P + ".Response",
               routing=[("class", "{class}"), ("sub.from", "{from}"),
                        ("sub.deeper.import", "a/{import}/b")]),
        method("BareThenStar", P + ".Request", P + ".Response",
               routing=[("name", "{name}"), ("name", "{name=**}"), ("name", "")]),
        method("MultiSegment", P + ".Request", P + ".Response",
               routing=[("name", "{name=a/*/b/**}"), ("parent", "x/{parent=y/*/z}/w/**")]),
        method("BareClientStream", P + ".Request", P + ".Response",
               client_streaming=True, routing=[("class", "{class}")]),
        method("ImplicitOnly", P + ".Request", P + ".Response",
               http="/v1/{class}/{sub.from=x/*}/{sub.deeper.import}"),
        method("ImplicitClientStream", P + ".Request", P + ".Response",
               http="/v1/{class}", client_streaming=True),
        method("Nothing", P + ".Request", P + ".Response"),
    ])], deps, enums)
    cases.append(dict(name="macro-only-bare-keys", package=pkg, opts="",
                      files=common + [fd_macro], macro_only=True))

    # ---- case 5: inputs the generator rejects; both trees must fail alike
    pkg = "google.broken.v1"
    P = "." + pkg
    msgs, enums = request_messages(pkg)
    fd_bad = file_("google/broken/v1/broken.proto", pkg, msgs, [service("Broken", [
        method("TwoNamed", P + ".Request", P + ".Response",
               routing=[("name", "{a=*}/{b=*}")]),
    ])], deps, enums)
    cases.append(dict(name="error-two-named-segments", package=pkg, opts="",
                      files=common + [fd_bad]))
    msgs, enums = request_messages(pkg)
    fd_bad2 = file_("google/broken/v1/broken.proto", pkg, msgs, [service("Broken", [
        method("EmptyRule", P + ".Request", P + ".Response", routing=[]),
    ])], deps, enums)
    cases.append(dict(name="error-empty-rule-unary", package=pkg, opts="",
                      files=common + [fd_bad2]))

    return cases


# --------------------------------------------------------------------------
# Worker: runs in a subprocess with exactly one copy of `gapic` importable.
# --------------------------------------------------------------------------


def _worker(tree, cases_path, out_path):
    sys.path[:] = [p for p in sys.path if os.path.abspath(p or ".") != os.getcwd()]
    sys.path.insert(0, tree)

    import pypandoc  # pandoc itself is not installed: identical stub for both runs

    def _convert_text(source, to=None, format=None, extra_args=(), **kwargs):
        return "[[pandoc:%s->%s:%s]]\n%s" % (format, to, ",".join(extra_args), source)

    pypandoc.convert_text = _convert_text

    import gapic.schema.wrappers
    import gapic.generator
    for module in (gapic.schema.wrappers, gapic.generator):
        location = os.path.realpath(module.__file__)
        assert location.startswith(os.path.realpath(tree) + os.sep), location

    from google.protobuf import descriptor_pb2
    from gapic.generator import Generator
    from gapic.schema.api import API
    from gapic.utils import Options

    with open(cases_path) as handle:
        cases = json.load(handle)

    results = {}
    for case in cases:
        with open(case["fds"], "rb") as handle:
            fds = descriptor_pb2.FileDescriptorSet.FromString(handle.read())
        try:
            opts = Options.build(case["opts"])
            api = API.build(list(fds.file), package=case["package"], opts=opts)
            if case["macro_only"]:
                env = Generator(opts)._env
                macros = env.get_template(
                    "%namespace/%name_%version/%sub/services/%service/_shared_macros.j2"
                ).module
                files = {}
                for svc in api.services.values():
                    for meth in svc.methods.values():
                        files["macro/%s.%s" % (svc.name, meth.name)] = str(
                            macros.create_metadata(meth))
                        files["schema/%s.%s" % (svc.name, meth.name)] = repr((
                            [(h.raw, h.disambiguated) for h in meth.field_headers],
                            meth.explicit_routing,
                            meth.routing_rule and [
                                (rp.field, rp.path_template, rp.disambiguated_field,
                                 rp.key, rp.to_regex().pattern)
                                for rp in meth.routing_rule.routing_parameters],
                        ))
                results[case["name"]] = {"files": files}
                continue
            response = Generator(opts).get_response(api, opts)
            files = {}
            for f in response.file:
                assert f.name not in files, f.name
                files[f.name] = f.content
            results[case["name"]] = {"files": files}
        except Exception as exc:  # compared between the two trees
            if os.environ.get("DEMO_TRACE"):
                import traceback
                traceback.print_exc()
            results[case["name"]] = {"error": "%s: %s" % (type(exc).__name__, exc)}
    with open(out_path, "w") as handle:
        json.dump(results, handle)


# --------------------------------------------------------------------------
# Parent
# --------------------------------------------------------------------------


def main(argv):
    if len(argv) == 5 and argv[1] == "--worker":
        _worker(argv[2], argv[3], argv[4])
        return 0
    if len(argv) != 2:
        print(__doc__)
        return 2
    checkout = os.path.abspath(argv[1])
    tmp = tempfile.mkdtemp(prefix="twin-T06-demo-")
    try:
        base = os.path.join(tmp, "base")
        os.mkdir(base)
        archive = subprocess.Popen(["git", "-C", checkout, "archive", "HEAD"],
                                   stdout=subprocess.PIPE)
        subprocess.check_call(["tar", "-x", "-C", base], stdin=archive.stdout)
        archive.stdout.close()
        if archive.wait() != 0:
            raise RuntimeError("git archive failed")

        from google.protobuf import descriptor_pb2

        cases = _build_cases()
        manifest = []
        for case in cases:
            path = os.path.join(tmp, case["name"] + ".fds")
            with open(path, "wb") as handle:
                handle.write(descriptor_pb2.FileDescriptorSet(file=case["files"])
                             .SerializeToString(deterministic=True))
            manifest.append(dict(name=case["name"], package=case["package"],
                                 opts=case["opts"], fds=path,
                                 macro_only=case.get("macro_only", False)))
        cases_path = os.path.join(tmp, "cases.json")
        with open(cases_path, "w") as handle:
            json.dump(manifest, handle)

        env = dict(os.environ, PYTHONHASHSEED="0", PYTHONDONTWRITEBYTECODE="1")
        env.pop("PYTHONPATH", None)
        outputs = {}
        procs = {}
        for label, tree in (("base", base), ("changed", checkout)):
            out_path = os.path.join(tmp, label + ".json")
            procs[label] = (subprocess.Popen(
                [sys.executable, os.path.abspath(__file__), "--worker", tree,
                 cases_path, out_path], cwd=tmp, env=env), out_path)
        for label, (proc, out_path) in procs.items():
            if proc.wait() != 0:
                print("worker for %s tree failed with status %d" % (label, proc.returncode))
                return 1
            with open(out_path) as handle:
                outputs[label] = json.load(handle)

        problems = []
        n_files = n_errors = n_routed = 0
        for case in manifest:
            a, b = outputs["base"][case["name"]], outputs["changed"][case["name"]]
            expect_error = case["name"].startswith("error-")
            if ("error" in a) != expect_error:
                problems.append("%s: base tree %s" % (
                    case["name"], a.get("error", "unexpectedly succeeded")))
            if "error" in a or "error" in b:
                if a.get("error") != b.get("error"):
                    problems.append("%s: outcome differs: base=%r changed=%r" % (
                        case["name"], a.get("error", "ok"), b.get("error", "ok")))
                else:
                    n_errors += 1
                continue
            fa, fb = a["files"], b["files"]
            for name in sorted(set(fa) | set(fb)):
                if name not in fa:
                    problems.append("%s: %s only in changed tree" % (case["name"], name))
                elif name not in fb:
                    problems.append("%s: %s only in base tree" % (case["name"], name))
                elif fa[name].encode("utf-8") != fb[name].encode("utf-8"):
                    problems.append("%s: %s differs" % (case["name"], name))
            if list(fa) != list(fb):
                if sorted(fa) == sorted(fb):
                    problems.append("%s: file order differs" % case["name"])
            n_files += len(fa)
            # Sanity: the compared output really contains the code under test.
            n_routed += sum(c.count("routing_header.to_grpc_metadata") for c in fa.values())
        if n_routed < 50:
            problems.append("only %d routing-header sites generated; inputs too weak" % n_routed)

        if problems:
            print("DIFFERENT: %d problem(s)" % len(problems))
            for p in problems:
                print("  " + p)
            return 1
        print("IDENTICAL: %d cases, %d files byte-identical, %d expected failures identical, "
              "%d routing-header sites covered" % (len(manifest), n_files, n_errors, n_routed))
        return 0
    finally:
        shutil.rmtree(tmp, ignore_errors=True)


if __name__ == "__main__":
    sys.exit(main(sys.argv))
