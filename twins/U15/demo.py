#!/usr/bin/env python3
"""Equivalence demo for the U15 refactoring (property C15).

Usage:  /venv/bin/python demo.py <path-to-a-checkout-with-the-change>

* exports the checkout's HEAD (pristine tree) with ``git archive``;
* builds several API descriptions (FileDescriptorProtos built in Python);
* runs the generator on every case with BOTH trees, each in its own
  subprocess (so the two copies of ``gapic`` never mix);
* compares the produced file names and contents byte for byte.

Exit code 0 and a one-line summary when all is identical, 1 otherwise.
"""
import json
import os
import pickle
import shutil
import subprocess
import sys
import tempfile


# --------------------------------------------------------------------------
# Worker: runs in a subprocess, one per tree.
# --------------------------------------------------------------------------
def worker(tree: str, cases_path: str, out_path: str) -> int:
    tree = os.path.realpath(tree)

    # The venv has an editable install of another checkout: get rid of every
    # import finder / path entry which could provide `gapic`, and put the tree
    # under test first.
    sys.meta_path[:] = [
        f
        for f in sys.meta_path
        if "__editable__" not in (getattr(f, "__module__", "") or "")
        and "__editable__" not in getattr(f, "__name__", "")
        and "__editable__" not in type(f).__module__
    ]
    sys.path_hooks[:] = [
        h for h in sys.path_hooks if "__editable__" not in (getattr(h, "__module__", "") or "")
    ]
    sys.path_importer_cache.clear()
    here = os.path.dirname(os.path.realpath(__file__))

    def provides_gapic(p: str) -> bool:
        p = p or os.getcwd()
        return os.path.isdir(os.path.join(p, "gapic")) or "__editable__" in p

    sys.path[:] = [tree] + [
        p
        for p in sys.path
        if os.path.realpath(p or os.getcwd()) not in (tree, here) and not provides_gapic(p)
    ]
    for name in list(sys.modules):
        if name == "gapic" or name.startswith("gapic."):
            del sys.modules[name]

    # pandoc is not available: stub pypandoc identically for both runs.
    import pypandoc  # type: ignore

    def convert_text(source, to, format=None, extra_args=(), **kwargs):
        return source

    pypandoc.convert_text = convert_text

    from google.protobuf import descriptor_pb2

    from gapic.generator import Generator
    from gapic.schema.api import API
    from gapic.utils import Options

    with open(cases_path, "rb") as f:
        cases = pickle.load(f)

    results = {}
    for case in cases:
        fds = [descriptor_pb2.FileDescriptorProto.FromString(b) for b in case["fds"]]
        opts = Options.build(case["opts"])
        for tdir in opts.templates:
            assert os.path.realpath(tdir).startswith(tree + os.sep), (tdir, tree)
        api = API.build(fds, package=case["package"], opts=opts)
        response = Generator(opts).get_response(api, opts)
        files = {}
        for out in response.file:
            assert out.name not in files, "duplicate output file " + out.name
            files[out.name] = out.content.encode("utf-8")
        results[case["name"]] = files

    loaded = 0
    for name, mod in sorted(sys.modules.items()):
        if name == "gapic" or name.startswith("gapic."):
            origin = getattr(mod, "__file__", None)
            if origin is None:
                origin = list(getattr(mod, "__path__", [""]))[0]
            assert os.path.realpath(origin).startswith(tree + os.sep), (name, origin, tree)
            loaded += 1
    assert loaded > 10, loaded

    with open(out_path, "wb") as f:
        pickle.dump(results, f)
    return 0


# --------------------------------------------------------------------------
# Descriptor construction helpers (parent process; no `gapic` import here).
# --------------------------------------------------------------------------
def build_cases(tmpdir: str):
    from google.api import annotations_pb2, client_pb2, field_behavior_pb2
    from google.api import resource_pb2
    from google.longrunning import operations_pb2
    from google.protobuf import descriptor_pb2 as d
    from google.protobuf import empty_pb2, field_mask_pb2, timestamp_pb2

    T = d.FieldDescriptorProto

    def dep_closure(*modules):
        """FileDescriptorProtos of the given modules and all their imports,
        dependencies first."""
        seen, out = set(), []

        def visit(fdesc):
            if fdesc.name in seen:
                return
            seen.add(fdesc.name)
            for dep in fdesc.dependencies:
                visit(dep)
            out.append(d.FileDescriptorProto.FromString(fdesc.serialized_pb))

        for m in modules:
            visit(m.DESCRIPTOR)
        return out

    common = dep_closure(
        annotations_pb2,
        client_pb2,
        field_behavior_pb2,
        resource_pb2,
        operations_pb2,
        empty_pb2,
        field_mask_pb2,
        timestamp_pb2,
    )
    common_names = [f.name for f in common]

    def field(name, number, type=T.TYPE_STRING, *, type_name=None, repeated=False,
              required=False, oneof=None, optional=False, behaviors=()):
        f = T(name=name, number=number, type=type, json_name=name,
              label=T.LABEL_REPEATED if repeated else T.LABEL_OPTIONAL)
        if type_name:
            f.type_name = type_name
        if oneof is not None:
            f.oneof_index = oneof
        if optional:
            f.proto3_optional = True
        ext = f.options.Extensions[field_behavior_pb2.field_behavior]
        if required:
            ext.append(field_behavior_pb2.FieldBehavior.Value("REQUIRED"))
        for b in behaviors:
            ext.append(field_behavior_pb2.FieldBehavior.Value(b))
        return f

    def message(name, fields=(), *, nested=(), enums=(), oneofs=(), resource=None):
        m = d.DescriptorProto(name=name)
        m.field.extend(fields)
        m.nested_type.extend(nested)
        m.enum_type.extend(enums)
        for o in oneofs:
            m.oneof_decl.add(name=o)
        if resource:
            r = m.options.Extensions[resource_pb2.resource]
            r.type = resource[0]
            r.pattern.extend(resource[1:])
        return m

    def map_entry(name, value_type=T.TYPE_STRING, value_type_name=None):
        m = d.DescriptorProto(name=name)
        m.options.map_entry = True
        m.field.add(name="key", number=1, type=T.TYPE_STRING, label=T.LABEL_OPTIONAL, json_name="key")
        v = m.field.add(name="value", number=2, type=value_type, label=T.LABEL_OPTIONAL, json_name="value")
        if value_type_name:
            v.type_name = value_type_name
        return m

    def enum(name, *values):
        e = d.EnumDescriptorProto(name=name)
        for i, v in enumerate(values):
            e.value.add(name=v, number=i)
        return e

    def method(name, inp, out, *, cs=False, ss=False, http=None, more_http=(),
               signatures=(), lro=None):
        m = d.MethodDescriptorProto(name=name, input_type=inp, output_type=out,
                                    client_streaming=cs, server_streaming=ss)
        if http:
            rule = m.options.Extensions[annotations_pb2.http]
            verb, uri = http[0], http[1]
            setattr(rule, verb, uri)
            if len(http) > 2:
                rule.body = http[2]
            for extra in more_http:
                b = rule.additional_bindings.add()
                setattr(b, extra[0], extra[1])
                if len(extra) > 2:
                    b.body = extra[2]
        for s in signatures:
            m.options.Extensions[client_pb2.method_signature].append(s)
        if lro:
            info = m.options.Extensions[operations_pb2.operation_info]
            info.response_type, info.metadata_type = lro
        return m

    def service(name, methods, host, scopes="https://www.googleapis.com/auth/cloud-platform"):
        s = d.ServiceDescriptorProto(name=name)
        s.method.extend(methods)
        s.options.Extensions[client_pb2.default_host] = host
        if scopes:
            s.options.Extensions[client_pb2.oauth_scopes] = scopes
        return s

    def proto_file(name, package, *, messages=(), services=(), enums=(), deps=()):
        f = d.FileDescriptorProto(name=name, package=package, syntax="proto3")
        f.dependency.extend(list(common_names) + list(deps))
        f.message_type.extend(messages)
        f.service.extend(services)
        f.enum_type.extend(enums)
        return f

    def ser(*fds):
        return [x.SerializeToString() for x in list(common) + list(fds)]

    EMPTY = ".google.protobuf.Empty"
    OP = ".google.longrunning.Operation"
    cases = []

    # ---------------------------------------------------------------- A
    # One service: required fields interleaved with optional ones,
    # reserved-word fields, map / repeated / oneof / proto3-optional fields,
    # keyword-named RPCs, paging, LRO, flattening, grpc+rest.
    P = "google.example.library.v1"
    Q = "." + P + "."
    book = message(
        "Book",
        [
            field("name", 1),
            field("class", 2),
            field("from", 3, T.TYPE_INT32),
            field("labels", 4, T.TYPE_MESSAGE, type_name=Q + "Book.LabelsEntry", repeated=True),
            field("tags", 5, repeated=True),
            field("isbn", 6, oneof=0),
            field("issn", 7, T.TYPE_INT64, oneof=0),
            field("subtitle", 8, oneof=1, optional=True),
            field("genre", 9, T.TYPE_ENUM, type_name=Q + "Genre"),
            field("create_time", 10, T.TYPE_MESSAGE, type_name=".google.protobuf.Timestamp",
                  behaviors=("OUTPUT_ONLY",)),
        ],
        nested=[map_entry("LabelsEntry")],
        oneofs=["identifier", "_subtitle"],
        resource=("library.example.com/Book", "shelves/{shelf}/books/{book}"),
    )
    lib_msgs = [
        book,
        message("CreateBookRequest", [
            field("book_id", 1),
            field("parent", 2, required=True),
            field("validate_only", 3, T.TYPE_BOOL),
            field("book", 4, T.TYPE_MESSAGE, type_name=Q + "Book", required=True),
            field("in", 5),
            field("import", 6, required=True),
        ]),
        message("GetBookRequest", [field("name", 1, required=True)]),
        message("ListBooksRequest", [
            field("page_size", 1, T.TYPE_INT32),
            field("page_token", 2),
            field("parent", 3, required=True),
            field("filter", 4),
        ]),
        message("ListBooksResponse", [
            field("books", 1, T.TYPE_MESSAGE, type_name=Q + "Book", repeated=True),
            field("next_page_token", 2),
        ]),
        message("UpdateBookRequest", [
            field("update_mask", 1, T.TYPE_MESSAGE, type_name=".google.protobuf.FieldMask"),
            field("book", 2, T.TYPE_MESSAGE, type_name=Q + "Book", required=True),
        ]),
        message("DeleteBookRequest", [field("name", 1, required=True), field("force", 2, T.TYPE_BOOL)]),
        message("ImportRequest", [
            field("source", 1),
            field("parent", 2, required=True),
            field("options", 3, T.TYPE_MESSAGE, type_name=Q + "ImportRequest.OptionsEntry", repeated=True),
        ], nested=[map_entry("OptionsEntry", T.TYPE_MESSAGE, Q + "Book")]),
        message("ImportResponse", [field("count", 1, T.TYPE_INT32)]),
        message("ImportMetadata", [field("progress", 1, T.TYPE_INT32)]),
        message("ReturnRequest", [field("name", 1), field("class", 2, required=True)]),
        message("PassRequest"),
    ]
    lib_svc = service("Library", [
        method("CreateBook", Q + "CreateBookRequest", Q + "Book",
               http=("post", "/v1/{parent=shelves/*}/books", "book"),
               signatures=("parent,book,book_id",)),
        method("GetBook", Q + "GetBookRequest", Q + "Book",
               http=("get", "/v1/{name=shelves/*/books/*}"), signatures=("name",)),
        method("ListBooks", Q + "ListBooksRequest", Q + "ListBooksResponse",
               http=("get", "/v1/{parent=shelves/*}/books"), signatures=("parent",)),
        method("UpdateBook", Q + "UpdateBookRequest", Q + "Book",
               http=("patch", "/v1/{book.name=shelves/*/books/*}", "book"),
               signatures=("book,update_mask",)),
        method("DeleteBook", Q + "DeleteBookRequest", EMPTY,
               http=("delete", "/v1/{name=shelves/*/books/*}"), signatures=("name",)),
        method("Import", Q + "ImportRequest", OP,
               http=("post", "/v1/{parent=shelves/*}/books:import", "*"),
               lro=("ImportResponse", "ImportMetadata")),
        method("Return", Q + "ReturnRequest", Q + "Book",
               http=("post", "/v1/{name=shelves/*/books/*}:return", "*"),
               more_http=[("post", "/v1/{name=loans/*}:return", "*")]),
        method("Pass", Q + "PassRequest", EMPTY, http=("post", "/v1/pass", "*")),
    ], "library.example.com")
    lib_fd = proto_file("google/example/library/v1/library.proto", P, messages=lib_msgs,
                        services=[lib_svc], enums=[enum("Genre", "GENRE_UNSPECIFIED", "FICTION", "ESSAY")])
    cases.append(dict(name="A-library-grpc+rest", package=P, fds=ser(lib_fd),
                      opts="metadata,transport=grpc+rest"))
    # Same API: no metadata flag (file must be absent in both), default transport.
    cases.append(dict(name="F-library-nometadata", package=P, fds=ser(lib_fd),
                      opts="autogen-snippets=false"))

    # ---------------------------------------------------------------- B
    # Several services over two files and a sub-package, streaming, an RPC name
    # shared by two services (different requests), grpc only, IAM methods.
    P = "google.example.multi.v2"
    Q = "." + P + "."
    S = Q + "sub."
    multi_a = proto_file(
        "google/example/multi/v2/alpha.proto", P,
        messages=[
            message("Item", [field("name", 1), field("weight", 2, T.TYPE_DOUBLE)]),
            message("AlphaGetRequest", [field("view", 1), field("name", 2, required=True)]),
            message("BetaGetRequest", [field("name", 1, required=True), field("etag", 2),
                                       field("parent", 3, required=True)]),
            message("ChatMessage", [field("text", 1), field("lambda", 2), field("not", 3, required=True)]),
            message("WatchRequest", [field("names", 1, repeated=True, required=True), field("since", 2)]),
            message("UploadRequest", [field("chunk", 1, T.TYPE_BYTES)]),
            message("UploadSummary", [field("size", 1, T.TYPE_INT64)]),
        ],
        services=[
            service("Beta", [
                method("Watch", Q + "WatchRequest", Q + "Item", ss=True),
                method("Get", Q + "BetaGetRequest", Q + "Item", signatures=("parent,name",)),
            ], "beta.example.com"),
            service("Alpha", [
                method("Upload", Q + "UploadRequest", Q + "UploadSummary", cs=True),
                method("Get", Q + "AlphaGetRequest", Q + "Item", signatures=("name", "name,view")),
                method("Chat", Q + "ChatMessage", Q + "ChatMessage", cs=True, ss=True),
            ], "alpha.example.com", scopes=""),
        ],
    )
    multi_b = proto_file(
        "google/example/multi/v2/sub/gamma.proto", P + ".sub",
        deps=["google/example/multi/v2/alpha.proto"],
        messages=[
            message("GammaRequest", [
                field("item", 1, T.TYPE_MESSAGE, type_name=Q + "Item"),
                field("is", 2, T.TYPE_BOOL, required=True),
                field("count", 3, T.TYPE_UINT32, optional=True, oneof=0),
            ], oneofs=["_count"]),
            message("GammaResponse", [field("items", 1, T.TYPE_MESSAGE, type_name=Q + "Item", repeated=True)]),
        ],
        services=[
            service("Gamma", [
                method("Transform", S + "GammaRequest", S + "GammaResponse", signatures=("item",)),
                method("Yield", S + "GammaRequest", Q + "Item"),
            ], "gamma.example.com"),
        ],
    )
    cases.append(dict(name="B-multi-grpc-iam", package=P, fds=ser(multi_a, multi_b),
                      opts="metadata,transport=grpc,add-iam-methods,autogen-snippets=false"))
    cases.append(dict(name="H-multi-oldnaming-rest", package=P, fds=ser(multi_a, multi_b),
                      opts="metadata,old-naming,transport=grpc+rest"))

    # ---------------------------------------------------------------- C
    # REST only, numeric enums, no `google` namespace, an empty request,
    # enum and nested-message fields, every field required / no field required.
    P = "example.rest.v1"
    Q = "." + P + "."
    rest_fd = proto_file(
        "example/rest/v1/rest.proto", P,
        enums=[enum("Color", "COLOR_UNSPECIFIED", "RED", "GREEN")],
        messages=[
            message("Widget", [
                field("name", 1),
                field("color", 2, T.TYPE_ENUM, type_name=Q + "Color"),
                field("shape", 3, T.TYPE_ENUM, type_name=Q + "Widget.Shape"),
                field("part", 4, T.TYPE_MESSAGE, type_name=Q + "Widget.Part"),
            ], nested=[message("Part", [field("serial", 1), field("global", 2)])],
                enums=[enum("Shape", "SHAPE_UNSPECIFIED", "ROUND")]),
            message("PingRequest"),
            message("PaintRequest", [
                field("color", 1, T.TYPE_ENUM, type_name=Q + "Color", required=True),
                field("widget", 2, T.TYPE_MESSAGE, type_name=Q + "Widget", required=True),
                field("name", 3, required=True),
            ]),
            message("SearchRequest", [
                field("query", 1),
                field("colors", 2, T.TYPE_ENUM, type_name=Q + "Color", repeated=True),
                field("page_token", 3),
                field("page_size", 4, T.TYPE_INT32),
            ]),
            message("SearchResponse", [
                field("next_page_token", 1),
                field("widgets", 2, T.TYPE_MESSAGE, type_name=Q + "Widget", repeated=True),
            ]),
        ],
        services=[
            service("WidgetService", [
                method("Ping", Q + "PingRequest", EMPTY, http=("get", "/v1/ping")),
                method("Paint", Q + "PaintRequest", Q + "Widget",
                       http=("put", "/v1/{name=widgets/*}:paint", "widget"),
                       signatures=("name,color",)),
                method("Search", Q + "SearchRequest", Q + "SearchResponse",
                       http=("get", "/v1/widgets:search")),
                method("Exec", Q + "Widget", Q + "Widget",
                       http=("post", "/v1/{part.serial=parts/*}:exec", "*")),
            ], "rest.example.com"),
        ],
    )
    cases.append(dict(name="C-rest-only-numeric-enums", package=P, fds=ser(rest_fd),
                      opts="metadata,transport=rest,rest-numeric-enums"))

    # ---------------------------------------------------------------- D / E
    # Selective GAPIC generation: omitted RPCs generated as internal (D:
    # underscore-prefixed methods, `Base...Client` classes) or dropped (E).
    P = "google.example.selective.v1"
    Q = "." + P + "."
    sel_fd = proto_file(
        "google/example/selective/v1/vault.proto", P,
        messages=[
            message("Secret", [field("name", 1), field("payload", 2, T.TYPE_BYTES)]),
            message("GetSecretRequest", [field("name", 1, required=True)]),
            message("RotateRequest", [field("reason", 1), field("name", 2, required=True),
                                      field("with", 3, required=True)]),
            message("DelRequest", [field("name", 1), field("try", 2)]),
            message("AuditRequest", [field("since", 1), field("until", 2)]),
            message("AuditRecord", [field("line", 1)]),
        ],
        services=[
            service("Vault", [
                method("GetSecret", Q + "GetSecretRequest", Q + "Secret",
                       http=("get", "/v1/{name=secrets/*}"), signatures=("name",)),
                method("Rotate", Q + "RotateRequest", Q + "Secret",
                       http=("post", "/v1/{name=secrets/*}:rotate", "*")),
                method("Del", Q + "DelRequest", EMPTY,
                       http=("delete", "/v1/{name=secrets/*}")),
            ], "vault.example.com"),
            service("Auditor", [
                method("Audit", Q + "AuditRequest", Q + "AuditRecord", ss=True,
                       http=("get", "/v1/audit")),
                method("Assert", Q + "AuditRequest", Q + "AuditRecord",
                       http=("post", "/v1/audit:assert", "*")),
            ], "vault.example.com"),
        ],
    )

    def service_yaml(fname, internal):
        cfg = {
            "type": "google.api.Service",
            "config_version": 3,
            "name": "vault.example.com",
            "publishing": {
                "library_settings": [{
                    "version": P,
                    "python_settings": {"common": {"selective_gapic_generation": {
                        "methods": [P + ".Vault.GetSecret", P + ".Auditor.Audit", P + ".Auditor.Assert"],
                        "generate_omitted_as_internal": internal,
                    }}},
                }],
            },
        }
        path = os.path.join(tmpdir, fname)
        with open(path, "w") as f:
            json.dump(cfg, f)  # JSON is YAML
        return path

    cases.append(dict(
        name="D-selective-internal", package=P, fds=ser(sel_fd),
        opts="metadata,transport=grpc+rest,service-yaml=%s,warehouse-package-name=vault-client,"
             "python-gapic-namespace=acme,python-gapic-name=vaulting" % service_yaml("internal.yaml", True)))
    cases.append(dict(
        name="E-selective-omitted", package=P, fds=ser(sel_fd),
        opts="metadata,transport=rest+grpc,service-yaml=%s" % service_yaml("omitted.yaml", False)))

    # ---------------------------------------------------------------- G
    # No service at all: empty metadata and an empty METHOD_TO_PARAMS table.
    P = "google.example.bare.v1beta1"
    bare_fd = proto_file(
        "google/example/bare/v1beta1/types.proto", P,
        enums=[enum("Kind", "KIND_UNSPECIFIED", "A")],
        messages=[message("Thing", [field("name", 1), field("kind", 2, T.TYPE_ENUM, type_name="." + P + ".Kind")])],
    )
    cases.append(dict(name="G-no-services", package=P, fds=ser(bare_fd),
                      opts="metadata,transport=grpc+rest,add-iam-methods"))
    return cases


# --------------------------------------------------------------------------
def main(argv) -> int:
    if len(argv) >= 2 and argv[1] == "--worker":
        return worker(argv[2], argv[3], argv[4])
    if len(argv) != 2:
        print(__doc__)
        return 2

    checkout = os.path.realpath(argv[1])
    tmpdir = tempfile.mkdtemp(prefix="twin-demo-U15-")
    try:
        base = os.path.join(tmpdir, "base")
        os.mkdir(base)
        archive = subprocess.Popen(["git", "-C", checkout, "archive", "HEAD"], stdout=subprocess.PIPE)
        subprocess.check_call(["tar", "-x", "-C", base], stdin=archive.stdout)
        archive.stdout.close()
        if archive.wait() != 0:
            raise RuntimeError("git archive failed")

        cases = build_cases(tmpdir)
        cases_path = os.path.join(tmpdir, "cases.pkl")
        with open(cases_path, "wb") as f:
            pickle.dump(cases, f)

        env = dict(os.environ, PYTHONHASHSEED="0", PYTHONDONTWRITEBYTECODE="1")
        env.pop("PYTHONPATH", None)
        procs = {}
        for label, tree in (("base", base), ("changed", checkout)):
            out_path = os.path.join(tmpdir, label + ".pkl")
            procs[label] = (
                subprocess.Popen(
                    [sys.executable, os.path.realpath(__file__), "--worker", tree, cases_path, out_path],
                    cwd=tmpdir, env=env,
                ),
                out_path,
            )
        outputs = {}
        for label, (proc, out_path) in procs.items():
            if proc.wait() != 0:
                print("worker for the %s tree failed (exit %d)" % (label, proc.returncode))
                return 1
            with open(out_path, "rb") as f:
                outputs[label] = pickle.load(f)

        problems = []
        n_files = 0
        for case in cases:
            name = case["name"]
            a, b = outputs["base"][name], outputs["changed"][name]
            n_files += len(a)
            for fn in sorted(set(a) | set(b)):
                if fn not in a:
                    problems.append("%s: only with the change: %s" % (name, fn))
                elif fn not in b:
                    problems.append("%s: only in pristine HEAD: %s" % (name, fn))
                elif a[fn] != b[fn]:
                    problems.append("%s: contents differ: %s" % (name, fn))
            # Sanity: the artefacts of the property are really exercised.
            meta = [fn for fn in a if fn.endswith("gapic_metadata.json")]
            fixup = [fn for fn in a if "scripts/fixup_" in fn]
            if ("metadata" in case["opts"].split(",")) != bool(meta):
                problems.append("%s: unexpected presence/absence of gapic_metadata.json" % name)
            if len(fixup) != 1:
                problems.append("%s: expected exactly one fix-up script, got %r" % (name, fixup))
            if not a:
                problems.append("%s: no output at all" % name)

        if problems:
            print("DIFFERENCES (%d):" % len(problems))
            for p in problems:
                print("  " + p)
            return 1
        print("OK: %d cases, %d files each way, all names and contents identical" % (len(cases), n_files))
        return 0
    finally:
        shutil.rmtree(tmpdir, ignore_errors=True)


if __name__ == "__main__":
    sys.exit(main(sys.argv))
