#!/usr/bin/env python
"""Equivalence demo for the V10 refactoring (property C10, deterministic generation).

Usage:  /venv/bin/python demo.py <path-to-a-checkout-with-the-change>

The driver
  * exports the checkout's HEAD (``git archive HEAD | tar -x``) into a temp dir
    -> the "base" tree; the checkout's working tree is the "new" tree,
  * builds eight API descriptions as CodeGeneratorRequests (FileDescriptorProtos
    made in Python; protoc is not needed),
  * feeds every request to ``gapic.cli.generate`` (the real plugin entry
    point, so ``generate.py`` -> ``API.build`` -> ``Generator.get_response``)
    with both trees, each in its own subprocess, under two PYTHONHASHSEED
    values (the same seed for the two trees being compared), and
  * compares the serialized CodeGeneratorResponse, the ordered list of file
    names and every file's bytes.

Exit status 0 and a one-line summary when everything is identical, 1 (with the
list of differing files) otherwise.
"""

import os
import pickle
import shutil
import subprocess
import sys
import tempfile

HASH_SEEDS = ("0", "31337")


# ---------------------------------------------------------------------------
# Worker: runs inside a subprocess, with exactly one tree importable.
# ---------------------------------------------------------------------------
def worker(tree: str, in_path: str, out_path: str) -> int:
    tree = os.path.realpath(tree)

    # The venv has an editable install of another checkout: drop its meta path
    # finder / path hook / placeholder path entry and every path entry other
    # than the standard library and site-packages, then put the tree first.
    def _is_editable(obj) -> bool:
        names = (
            str(getattr(obj, "__module__", "")),
            str(getattr(type(obj), "__module__", "")),
            str(getattr(obj, "__qualname__", "")),
            str(getattr(type(obj), "__qualname__", "")),
        )
        return any("__editable__" in n or "_Editable" in n for n in names)

    sys.meta_path[:] = [f for f in sys.meta_path if not _is_editable(f)]
    sys.path_hooks[:] = [h for h in sys.path_hooks if not _is_editable(h)]

    import sysconfig

    allowed_roots = {
        os.path.realpath(p)
        for p in (
            sysconfig.get_paths().get("stdlib"),
            sysconfig.get_paths().get("platstdlib"),
            sysconfig.get_paths().get("purelib"),
            sysconfig.get_paths().get("platlib"),
        )
        if p
    }
    kept = []
    for entry in sys.path:
        if not entry or "__editable__" in entry or entry.endswith(".__path_hook__"):
            continue
        real = os.path.realpath(entry)
        if real == tree:
            continue
        if not any(real == r or real.startswith(r + os.sep) for r in allowed_roots):
            # not stdlib / site-packages (zip of the stdlib is harmless too)
            if not real.endswith(".zip"):
                continue
        kept.append(entry)
    sys.path[:] = [tree] + kept
    sys.path_importer_cache.clear()
    for name in [
        m
        for m in sys.modules
        if m == "gapic" or m.startswith("gapic.") or m.startswith("__editable__")
    ]:
        del sys.modules[name]

    # pandoc is not installed: stub the conversion identically for both runs.
    import pypandoc  # type: ignore

    def fake_convert_text(text, to=None, format=None, extra_args=(), **kwargs):
        return "[[rst:" + " ".join(str(a) for a in extra_args) + "]]\n" + str(text)

    pypandoc.convert_text = fake_convert_text

    import warnings

    warnings.simplefilter("ignore")

    from google.protobuf.compiler import plugin_pb2

    import gapic
    from gapic.cli import generate as cli_generate
    from gapic.utils import Options

    with open(in_path, "rb") as f:
        cases = pickle.load(f)

    results = {}
    workdir = os.path.dirname(out_path)
    for case in cases:
        # The templates used must be the ones of the tree under test.
        opts = Options.build(case["parameter"])
        for tpl_dir in opts.templates:
            assert os.path.realpath(tpl_dir).startswith(tree + os.sep), (tpl_dir, tree)

        req_path = os.path.join(workdir, "req.bin")
        res_path = os.path.join(workdir, "res.bin")
        with open(req_path, "wb") as f:
            f.write(case["request"])
        # Run the real plugin entry point (click command) in-process.
        cli_generate.generate.main(
            args=["--request", req_path, "--output", res_path],
            standalone_mode=False,
        )
        with open(res_path, "rb") as f:
            raw = f.read()
        res = plugin_pb2.CodeGeneratorResponse.FromString(raw)
        assert not res.error, res.error
        results[case["name"]] = {
            "raw": raw,
            "order": [f.name for f in res.file],
            "files": {f.name: f.content for f in res.file},
        }
        assert len(results[case["name"]]["files"]) == len(res.file), "duplicate names"

    # Every gapic module, and the templates, must come from the tree under test.
    loaded = 0
    for name, mod in list(sys.modules.items()):
        if name == "gapic" or name.startswith("gapic."):
            origin = getattr(mod, "__file__", None)
            if origin is None:
                paths = [os.path.realpath(p) for p in getattr(mod, "__path__", [])]
                assert paths and all(p.startswith(tree + os.sep) for p in paths), (
                    name,
                    paths,
                )
            else:
                assert os.path.realpath(origin).startswith(tree + os.sep), (
                    name,
                    origin,
                )
            loaded += 1
    assert loaded > 10, loaded
    assert [os.path.realpath(p) for p in gapic.__path__] == [
        os.path.join(tree, "gapic")
    ], list(gapic.__path__)
    assert not any(_is_editable(f) for f in sys.meta_path)

    with open(out_path, "wb") as f:
        pickle.dump(results, f)
    return 0


# ---------------------------------------------------------------------------
# Driver helpers: build FileDescriptorProtos / CodeGeneratorRequests in Python.
# ---------------------------------------------------------------------------
def _closure(*pb2_modules):
    """FileDescriptorProtos of the given generated modules and of all their
    transitive dependencies, dependencies first."""
    from google.protobuf import descriptor_pb2

    seen = {}

    def visit(fd):
        if fd.name in seen:
            return
        for dep in fd.dependencies:
            visit(dep)
        proto = descriptor_pb2.FileDescriptorProto()
        fd.CopyToProto(proto)
        seen[fd.name] = proto

    for mod in pb2_modules:
        visit(mod.DESCRIPTOR)
    return list(seen.values())


def _build_cases(scratch: str):
    from google.api import annotations_pb2, client_pb2, field_behavior_pb2
    from google.api import resource_pb2
    from google.longrunning import operations_pb2
    from google.protobuf import descriptor_pb2 as d
    from google.protobuf import duration_pb2, empty_pb2, field_mask_pb2
    from google.protobuf import timestamp_pb2
    from google.protobuf.compiler import plugin_pb2

    F = d.FieldDescriptorProto
    SCALARS = {
        "string": F.TYPE_STRING,
        "int32": F.TYPE_INT32,
        "int64": F.TYPE_INT64,
        "bool": F.TYPE_BOOL,
        "double": F.TYPE_DOUBLE,
        "bytes": F.TYPE_BYTES,
    }

    def field(name, number, typ, *, repeated=False, enum=False, oneof=None,
              optional=False, required=False, reference=None, child_reference=None):
        fd = F(name=name, number=number)
        fd.label = F.LABEL_REPEATED if repeated else F.LABEL_OPTIONAL
        if typ in SCALARS:
            fd.type = SCALARS[typ]
        else:
            fd.type = F.TYPE_ENUM if enum else F.TYPE_MESSAGE
            fd.type_name = typ
        if oneof is not None:
            fd.oneof_index = oneof
        if optional:
            fd.proto3_optional = True
        if required:
            fd.options.Extensions[field_behavior_pb2.field_behavior].append(
                field_behavior_pb2.REQUIRED
            )
        if reference:
            fd.options.Extensions[resource_pb2.resource_reference].type = reference
        if child_reference:
            fd.options.Extensions[resource_pb2.resource_reference].child_type = (
                child_reference
            )
        return fd

    def message(name, fields, *, oneofs=(), nested=(), enums=(), resource=None):
        m = d.DescriptorProto(name=name)
        m.field.extend(fields)
        for o in oneofs:
            m.oneof_decl.add(name=o)
        for f in m.field:  # proto3 optional -> synthetic oneofs after the real ones
            if f.proto3_optional:
                f.oneof_index = len(m.oneof_decl)
                m.oneof_decl.add(name="_" + f.name)
        m.nested_type.extend(nested)
        m.enum_type.extend(enums)
        if resource:
            r = m.options.Extensions[resource_pb2.resource]
            r.type = resource[0]
            r.pattern.extend(resource[1:])
        return m

    def map_entry(name, key_type, value_type, value_is_enum=False):
        m = d.DescriptorProto(name=name)
        m.field.append(field("key", 1, key_type))
        m.field.append(field("value", 2, value_type, enum=value_is_enum))
        m.options.map_entry = True
        return m

    def enum(name, *values):
        e = d.EnumDescriptorProto(name=name)
        for i, v in enumerate(values):
            e.value.add(name=v, number=i)
        return e

    def method(name, inp, out, *, http=None, body=None, extra_http=(), signatures=(),
               client_streaming=False, server_streaming=False, lro=None):
        m = d.MethodDescriptorProto(
            name=name, input_type=inp, output_type=out,
            client_streaming=client_streaming, server_streaming=server_streaming,
        )
        if http:
            rule = m.options.Extensions[annotations_pb2.http]
            setattr(rule, http[0], http[1])
            if body:
                rule.body = body
            for verb, path, extra_body in extra_http:
                add = rule.additional_bindings.add()
                setattr(add, verb, path)
                if extra_body:
                    add.body = extra_body
        for sig in signatures:
            m.options.Extensions[client_pb2.method_signature].append(sig)
        if lro:
            info = m.options.Extensions[operations_pb2.operation_info]
            info.response_type, info.metadata_type = lro
        return m

    def service(name, methods, *, host="example.googleapis.com", scopes=()):
        s = d.ServiceDescriptorProto(name=name)
        s.method.extend(methods)
        if host:
            s.options.Extensions[client_pb2.default_host] = host
        if scopes:
            s.options.Extensions[client_pb2.oauth_scopes] = ",".join(scopes)
        return s

    def file(name, package, *, deps=(), messages=(), enums=(), services=()):
        fd = d.FileDescriptorProto(name=name, package=package, syntax="proto3")
        fd.dependency.extend(deps)
        fd.message_type.extend(messages)
        fd.enum_type.extend(enums)
        fd.service.extend(services)
        return fd

    common = _closure(
        annotations_pb2, client_pb2, field_behavior_pb2, resource_pb2, operations_pb2,
        duration_pb2, empty_pb2, field_mask_pb2, timestamp_pb2,
    )
    std_deps = [
        "google/api/annotations.proto",
        "google/api/client.proto",
        "google/api/field_behavior.proto",
        "google/api/resource.proto",
        "google/longrunning/operations.proto",
        "google/protobuf/duration.proto",
        "google/protobuf/empty.proto",
        "google/protobuf/field_mask.proto",
        "google/protobuf/timestamp.proto",
    ]
    EMPTY = ".google.protobuf.Empty"
    OPERATION = ".google.longrunning.Operation"

    cases = []

    def add_case(name, parameter, fds, *, to_generate=None):
        req = plugin_pb2.CodeGeneratorRequest()
        req.parameter = parameter
        for fd in common + list(fds):
            req.proto_file.add().CopyFrom(fd)
        req.file_to_generate.extend(
            to_generate if to_generate is not None else [fd.name for fd in fds]
        )
        cases.append(
            {
                "name": name,
                "parameter": parameter,
                "request": req.SerializeToString(deterministic=True),
            }
        )

    # ------------------------------------------------------------------ library
    # One service; resources (incl. two with the same type name), LRO, paging,
    # maps / repeated / oneof / proto3-optional / nested, reserved-word fields,
    # all four streaming shapes, a void method, a method without http rule.
    P = "google.example.library.v1"
    Q = "." + P
    book = message(
        "Book",
        [
            field("name", 1, "string"),
            field("author", 2, "string"),
            field("class", 3, "string"),  # reserved word
            field("from", 4, "int32"),  # reserved word
            field("genre", 5, Q + ".Genre", enum=True),
            field("labels", 6, Q + ".Book.LabelsEntry", repeated=True),
            field("chapters", 7, Q + ".Book.Chapter", repeated=True),
            field("isbn", 8, "string", oneof=0),
            field("shelf_mark", 9, "int64", oneof=0),
            field("rating", 10, "double", optional=True),
            field("published", 11, ".google.protobuf.Timestamp"),
            field("shelf", 12, "string", reference="library.example.com/Shelf"),
            field("condition", 13, Q + ".Book.Condition", enum=True),
            field("genre_counts", 14, Q + ".Book.GenreCountsEntry", repeated=True),
        ],
        oneofs=["identifier"],
        nested=[
            map_entry("LabelsEntry", "string", "string"),
            map_entry("GenreCountsEntry", "string", Q + ".Genre", value_is_enum=True),
            message(
                "Chapter",
                [
                    field("title", 1, "string"),
                    field("pages", 2, "int32"),
                    field("footnotes", 3, Q + ".Book.Chapter.Footnote", repeated=True),
                ],
                nested=[message("Footnote", [field("text", 1, "string")])],
            ),
        ],
        enums=[enum("Condition", "CONDITION_UNSPECIFIED", "NEW", "USED")],
        resource=(
            "library.example.com/Book",
            "shelves/{shelf}/books/{book}",
            "archives/{archive}/books/{book}",
        ),
    )
    shelf = message(
        "Shelf",
        [
            field("name", 1, "string"),
            field("theme", 2, "string"),
            field("featured", 3, Q + ".Book"),
        ],
        resource=("library.example.com/Shelf", "shelves/{shelf}"),
    )
    item_a = message(
        "StoreItem", [field("name", 1, "string")],
        resource=("store.example.com/Item", "stores/{store}/items/{item}"),
    )
    item_b = message(
        "DepotItem", [field("name", 1, "string")],
        resource=("depot.example.com/Item", "depots/{depot}/items/{item}"),
    )
    library_types = file(
        "google/example/library/v1/resources.proto", P, deps=std_deps,
        messages=[book, shelf, item_a, item_b],
        enums=[enum("Genre", "GENRE_UNSPECIFIED", "FICTION", "SCIENCE")],
    )
    library_svc = file(
        "google/example/library/v1/library.proto", P,
        deps=std_deps + ["google/example/library/v1/resources.proto"],
        messages=[
            message("GetBookRequest", [
                field("name", 1, "string", required=True,
                      reference="library.example.com/Book")]),
            message("ListBooksRequest", [
                field("parent", 1, "string", required=True,
                      child_reference="library.example.com/Book"),
                field("page_size", 2, "int32"),
                field("page_token", 3, "string"),
                field("filter", 4, "string", required=True),
            ]),
            message("ListBooksResponse", [
                field("books", 1, Q + ".Book", repeated=True),
                field("next_page_token", 2, "string"),
            ]),
            message("CreateBookRequest", [
                field("parent", 1, "string", required=True,
                      reference="library.example.com/Shelf"),
                field("book", 2, Q + ".Book", required=True),
                field("book_id", 3, "string"),
            ]),
            message("UpdateBookRequest", [
                field("book", 1, Q + ".Book", required=True),
                field("update_mask", 2, ".google.protobuf.FieldMask"),
            ]),
            message("DeleteBookRequest", [
                field("name", 1, "string", required=True,
                      reference="library.example.com/Book")]),
            message("MoveItemsRequest", [
                field("source", 1, "string", reference="store.example.com/Item"),
                field("destination", 2, "string", reference="depot.example.com/Item"),
                field("ttl", 3, ".google.protobuf.Duration"),
            ]),
            message("MoveItemsResponse", [field("moved", 1, "int32")]),
            message("MoveItemsMetadata", [field("progress", 1, "int32")]),
            message("StreamBooksRequest", [
                field("shelf", 1, "string", reference="library.example.com/Shelf")]),
            message("DiscussRequest", [field("text", 1, "string")]),
            message("DiscussResponse", [field("text", 1, "string")]),
        ],
        services=[
            service(
                "Library",
                [
                    method("GetBook", Q + ".GetBookRequest", Q + ".Book",
                           http=("get", "/v1/{name=shelves/*/books/*}"),
                           extra_http=[("get", "/v1/{name=archives/*/books/*}", None)],
                           signatures=["name"]),
                    method("ListBooks", Q + ".ListBooksRequest", Q + ".ListBooksResponse",
                           http=("get", "/v1/{parent=shelves/*}/books"),
                           signatures=["parent"]),
                    method("CreateBook", Q + ".CreateBookRequest", Q + ".Book",
                           http=("post", "/v1/{parent=shelves/*}/books"), body="book",
                           signatures=["parent,book,book_id", "parent,book"]),
                    method("UpdateBook", Q + ".UpdateBookRequest", Q + ".Book",
                           http=("patch", "/v1/{book.name=shelves/*/books/*}"), body="book",
                           signatures=["book,update_mask"]),
                    method("DeleteBook", Q + ".DeleteBookRequest", EMPTY,
                           http=("delete", "/v1/{name=shelves/*/books/*}"),
                           signatures=["name"]),
                    method("MoveItems", Q + ".MoveItemsRequest", OPERATION,
                           http=("post", "/v1/items:move"), body="*",
                           lro=("MoveItemsResponse", "MoveItemsMetadata")),
                    method("StreamBooks", Q + ".StreamBooksRequest", Q + ".Book",
                           http=("get", "/v1/{shelf=shelves/*}/books:stream"),
                           server_streaming=True),
                    method("UploadBooks", Q + ".Book", Q + ".ListBooksResponse",
                           http=("post", "/v1/books:upload"), body="*",
                           client_streaming=True),
                    method("Discuss", Q + ".DiscussRequest", Q + ".DiscussResponse",
                           client_streaming=True, server_streaming=True),
                    method("Ping", Q + ".DiscussRequest", Q + ".DiscussResponse"),
                ],
                host="library.example.com",
                scopes=["https://www.googleapis.com/auth/cloud-platform",
                        "https://www.googleapis.com/auth/books"],
            )
        ],
    )

    # service yaml with mixins + an extra http rule (for the REST interceptors
    # and the operations mixin), retry config with several retryable codes.
    svc_yaml = os.path.join(scratch, "library_v1.yaml")
    with open(svc_yaml, "w") as f:
        f.write(
            "type: google.api.Service\n"
            "config_version: 3\n"
            "name: library.example.com\n"
            "apis:\n"
            "- name: google.example.library.v1.Library\n"
            "- name: google.cloud.location.Locations\n"
            "- name: google.iam.v1.IAMPolicy\n"
            "- name: google.longrunning.Operations\n"
            "http:\n"
            "  rules:\n"
            "  - selector: google.cloud.location.Locations.GetLocation\n"
            "    get: '/v1/{name=projects/*/locations/*}'\n"
            "  - selector: google.cloud.location.Locations.ListLocations\n"
            "    get: '/v1/{name=projects/*}/locations'\n"
            "  - selector: google.iam.v1.IAMPolicy.GetIamPolicy\n"
            "    get: '/v1/{resource=shelves/*}:getIamPolicy'\n"
            "  - selector: google.iam.v1.IAMPolicy.SetIamPolicy\n"
            "    post: '/v1/{resource=shelves/*}:setIamPolicy'\n"
            "    body: '*'\n"
            "  - selector: google.iam.v1.IAMPolicy.TestIamPermissions\n"
            "    post: '/v1/{resource=shelves/*}:testIamPermissions'\n"
            "    body: '*'\n"
            "  - selector: google.longrunning.Operations.GetOperation\n"
            "    get: '/v1/{name=operations/*}'\n"
            "  - selector: google.longrunning.Operations.ListOperations\n"
            "    get: '/v1/{name=operations}'\n"
            "  - selector: google.longrunning.Operations.CancelOperation\n"
            "    post: '/v1/{name=operations/*}:cancel'\n"
            "    body: '*'\n"
            "  - selector: google.longrunning.Operations.DeleteOperation\n"
            "    delete: '/v1/{name=operations/*}'\n"
        )
    retry_json = os.path.join(scratch, "library_v1_retry.json")
    with open(retry_json, "w") as f:
        f.write(
            '{"methodConfig": [{"name": [{"service": "google.example.library.v1.Library"}],'
            ' "timeout": "60s", "retryPolicy": {"maxAttempts": 5, "initialBackoff": "0.1s",'
            ' "maxBackoff": "60s", "backoffMultiplier": 1.3, "retryableStatusCodes":'
            ' ["UNAVAILABLE", "DEADLINE_EXCEEDED", "ABORTED", "INTERNAL", "UNKNOWN"]}}]}'
        )

    add_case("library-default", "metadata", [library_types, library_svc])
    add_case(
        "library-mixins-rest+grpc",
        f"transport=grpc+rest,service-yaml={svc_yaml},retry-config={retry_json},"
        "rest-numeric-enums,metadata",
        [library_types, library_svc],
    )

    # ------------------------------------------------------------- sub-packages
    # Several services, some in sub-packages (two levels deep), equal method
    # names across services (sort + unique in the fixup script), enum-only and
    # message-only protos, cross-subpackage imports, a proto importing a type
    # of its own package from another file.
    M = "google.example.multi.v1"
    MQ = "." + M
    multi_common = file(
        "google/example/multi/v1/common.proto", M, deps=std_deps,
        messages=[
            message("Thing", [
                field("name", 1, "string"),
                field("kind", 2, MQ + ".Kind", enum=True),
                field("attrs", 3, MQ + ".Thing.AttrsEntry", repeated=True),
            ], nested=[map_entry("AttrsEntry", "string", "int64")],
               resource=("multi.example.com/Thing", "things/{thing}")),
            message("GetThingRequest", [field("name", 1, "string", required=True,
                                              reference="multi.example.com/Thing")]),
        ],
        enums=[enum("Kind", "KIND_UNSPECIFIED", "SMALL", "LARGE")],
        services=[
            service("Zeta", [
                method("GetThing", MQ + ".GetThingRequest", MQ + ".Thing",
                       http=("get", "/v1/{name=things/*}"), signatures=["name"]),
                method("Watch", MQ + ".GetThingRequest", MQ + ".Thing",
                       http=("get", "/v1/{name=things/*}:watch"), server_streaming=True),
            ], host="multi.example.com"),
            service("Alpha", [
                # same RPC name as Zeta.GetThing but another request type: the
                # fixup script keeps the first one (sort is stable, then unique)
                method("GetThing", MQ + ".Thing", MQ + ".Thing",
                       http=("get", "/v1/alpha/{name=things/*}"), signatures=["name"]),
                method("Purge", MQ + ".GetThingRequest", EMPTY,
                       http=("delete", "/v1/alpha/{name=things/*}")),
            ], host="multi.example.com"),
        ],
    )
    multi_enums_only = file(
        "google/example/multi/v1/enums.proto", M, deps=std_deps,
        enums=[enum("Colour", "COLOUR_UNSPECIFIED", "RED"), enum("Axis", "X", "Y")],
    )
    multi_beta = file(
        "google/example/multi/v1/beta/widgets.proto", M + ".beta",
        deps=std_deps + ["google/example/multi/v1/common.proto",
                         "google/example/multi/v1/enums.proto"],
        messages=[
            message("Widget", [
                field("name", 1, "string"),
                field("thing", 2, MQ + ".Thing"),
                field("colour", 3, MQ + ".Colour", enum=True),
                field("things", 4, MQ + ".Thing", repeated=True),
            ], resource=("multi.example.com/Widget", "widgets/{widget}")),
            message("ListWidgetsRequest", [
                field("parent", 1, "string"),
                field("page_size", 2, "int32"),
                field("page_token", 3, "string"),
            ]),
            message("ListWidgetsResponse", [
                field("widgets", 1, MQ + ".beta.Widget", repeated=True),
                field("next_page_token", 2, "string"),
            ]),
        ],
        services=[
            service("Widgets", [
                method("ListWidgets", MQ + ".beta.ListWidgetsRequest",
                       MQ + ".beta.ListWidgetsResponse",
                       http=("get", "/v1/widgets"), signatures=["parent"]),
                method("GetThing", MQ + ".GetThingRequest", MQ + ".Thing",
                       http=("get", "/v1/beta/{name=things/*}")),
            ], host="multi.example.com"),
        ],
    )
    multi_beta_deep = file(
        "google/example/multi/v1/beta/deep/gears.proto", M + ".beta.deep",
        deps=std_deps + ["google/example/multi/v1/beta/widgets.proto"],
        messages=[
            message("Gear", [field("teeth", 1, "int32"),
                             field("widget", 2, MQ + ".beta.Widget")]),
            message("TurnRequest", [field("gear", 1, MQ + ".beta.deep.Gear")]),
        ],
        services=[
            service("Gears", [
                method("Turn", MQ + ".beta.deep.TurnRequest", MQ + ".beta.deep.Gear",
                       http=("post", "/v1/gears:turn"), body="*"),
            ], host="multi.example.com"),
        ],
    )
    multi_alpha = file(
        "google/example/multi/v1/alpha/knobs.proto", M + ".alpha",
        deps=std_deps + ["google/example/multi/v1/common.proto"],
        messages=[message("Knob", [field("thing", 1, MQ + ".Thing"),
                                   field("level", 2, MQ + ".alpha.Level", enum=True)])],
        enums=[enum("Level", "LEVEL_UNSPECIFIED", "LOW", "HIGH")],
    )
    multi = [multi_common, multi_enums_only, multi_beta, multi_beta_deep, multi_alpha]
    # (autogen snippets are off: samplegen cannot handle services in sub-packages
    # in either tree - KeyError in generate_sample_specs.)
    add_case("multi-subpackages", "transport=grpc+rest,autogen-snippets=false,metadata", multi)
    # Only the sub-package protos are to be generated: the common prefix of
    # their packages ends with a dot, which generate.py strips.
    add_case("multi-subpackages-only", "transport=grpc,autogen-snippets=false,metadata",
             multi, to_generate=[multi_beta.name, multi_beta_deep.name, multi_alpha.name])
    add_case("multi-subpackages-rest-only", "transport=rest,autogen-snippets=false,metadata", multi)

    # ---------------------------------------------- no namespace, rest only
    # package "foo.v2": empty module namespace (the `versioned_package` alias in
    # %namespace/%name/__init__.py.j2 takes its other branch).
    N = "foo.v2"
    NQ = "." + N
    foo = file(
        "foo/v2/foo.proto", N, deps=std_deps,
        messages=[
            message("Foo", [field("name", 1, "string"),
                            field("state", 2, NQ + ".Foo.State", enum=True),
                            field("import", 3, "string")],
                    enums=[enum("State", "STATE_UNSPECIFIED", "ON", "OFF")]),
            message("GetFooRequest", [field("name", 1, "string", required=True),
                                      field("view", 2, "int32", required=True)]),
            message("Chunk", [field("data", 1, "bytes")]),
        ],
        enums=[enum("Mode", "MODE_UNSPECIFIED", "FAST")],
        services=[
            service("FooService", [
                method("GetFoo", NQ + ".GetFooRequest", NQ + ".Foo",
                       http=("get", "/v2/{name=foos/*}"), signatures=["name,view"]),
                method("PushChunks", NQ + ".Chunk", NQ + ".Foo", client_streaming=True),
                method("NoHttp", NQ + ".GetFooRequest", NQ + ".Foo"),
                method("DropFoo", NQ + ".GetFooRequest", EMPTY,
                       http=("delete", "/v2/{name=foos/*}")),
            ], host="foo.example.com"),
            service("BarService", [
                method("GetFoo", NQ + ".GetFooRequest", NQ + ".Foo",
                       http=("get", "/v2/bar/{name=foos/*}")),
            ], host=None),
        ],
    )
    add_case("no-namespace-rest-numeric-enums",
             "transport=rest,rest-numeric-enums,autogen-snippets=false", [foo])

    # ------------------------- unversioned package, grpc only, IAM, no services
    U = "acme.things"
    UQ = "." + U
    things = file(
        "acme/things/things.proto", U, deps=std_deps,
        messages=[
            message("Gadget", [field("id", 1, "string"),
                               field("parts", 2, UQ + ".Gadget", repeated=True)]),
            message("MakeGadgetRequest", [field("gadget", 1, UQ + ".Gadget")]),
        ],
        services=[
            service("Factory", [
                method("MakeGadget", UQ + ".MakeGadgetRequest", UQ + ".Gadget",
                       signatures=["gadget"]),
                method("StreamGadgets", UQ + ".MakeGadgetRequest", UQ + ".Gadget",
                       server_streaming=True),
            ], host="things.acme.example"),
        ],
    )
    add_case("unversioned-grpc-iam", "transport=grpc,add-iam-methods,old-naming,metadata", [things])

    # types only: no service at all (empty collections everywhere); the request
    # also carries a proto that is *not* to be generated.
    T = "google.example.typesonly.v1beta1"
    types_only = file(
        "google/example/typesonly/v1beta1/shapes.proto", T, deps=std_deps,
        messages=[message("Square", [field("side", 1, "double"),
                                     field("created", 2, ".google.protobuf.Timestamp")])],
        enums=[enum("Shape", "SHAPE_UNSPECIFIED", "SQUARE")],
    )
    add_case("types-only-no-services", "transport=grpc+rest",
             [things, types_only], to_generate=[types_only.name])

    return cases


# ---------------------------------------------------------------------------
# Driver
# ---------------------------------------------------------------------------
def _run_worker(tree: str, in_path: str, out_path: str, seed: str):
    env = dict(os.environ)
    env["PYTHONHASHSEED"] = seed
    env.pop("PYTHONPATH", None)
    env["PYTHONDONTWRITEBYTECODE"] = "1"
    return subprocess.Popen(
        [sys.executable, os.path.abspath(__file__), "--worker", tree, in_path, out_path],
        env=env,
        cwd=os.path.dirname(out_path),
        stdout=subprocess.PIPE,
        stderr=subprocess.STDOUT,
    )


def main(argv) -> int:
    if len(argv) >= 2 and argv[1] == "--worker":
        return worker(argv[2], argv[3], argv[4])
    if len(argv) != 2:
        print(__doc__)
        return 2

    checkout = os.path.realpath(argv[1])
    scratch = tempfile.mkdtemp(prefix="twin-demo-V10-")
    try:
        base = os.path.join(scratch, "base")
        os.mkdir(base)
        archive = subprocess.Popen(
            ["git", "-C", checkout, "archive", "HEAD"], stdout=subprocess.PIPE
        )
        subprocess.check_call(["tar", "-x", "-C", base], stdin=archive.stdout)
        archive.stdout.close()
        if archive.wait() != 0:
            print("git archive failed")
            return 1

        cases = _build_cases(scratch)
        in_path = os.path.join(scratch, "cases.pkl")
        with open(in_path, "wb") as f:
            pickle.dump(cases, f)

        # one subprocess per (tree, seed), all in parallel
        procs = {}
        for seed in HASH_SEEDS:
            for label, tree in (("base", base), ("new", checkout)):
                wd = os.path.join(scratch, f"run-{label}-{seed}")
                os.mkdir(wd)
                out_path = os.path.join(wd, "out.pkl")
                procs[(label, seed)] = (_run_worker(tree, in_path, out_path, seed), out_path)

        outputs = {}
        failed = False
        for key, (proc, out_path) in procs.items():
            log = proc.communicate()[0].decode("utf-8", "replace")
            if proc.returncode != 0:
                print(f"worker {key} failed (exit {proc.returncode}):\n{log}")
                failed = True
                continue
            with open(out_path, "rb") as f:
                outputs[key] = pickle.load(f)
        if failed:
            return 1

        differing = []
        n_files = 0
        for seed in HASH_SEEDS:
            old, new = outputs[("base", seed)], outputs[("new", seed)]
            assert list(old) == list(new) == [c["name"] for c in cases]
            for case_name in old:
                o, n = old[case_name], new[case_name]
                if o["order"] != n["order"]:
                    only_o = sorted(set(o["order"]) - set(n["order"]))
                    only_n = sorted(set(n["order"]) - set(o["order"]))
                    differing.append(
                        f"[seed {seed}] {case_name}: file list/order differs "
                        f"(only base: {only_o}; only new: {only_n})"
                    )
                for fname in sorted(set(o["files"]) & set(n["files"])):
                    n_files += 1
                    if o["files"][fname] != n["files"][fname]:
                        differing.append(f"[seed {seed}] {case_name}: {fname}")
                if o["raw"] != n["raw"] and not any(
                    d.startswith(f"[seed {seed}] {case_name}:") for d in differing
                ):
                    differing.append(
                        f"[seed {seed}] {case_name}: serialized response differs"
                    )
                if not o["files"]:
                    differing.append(f"[seed {seed}] {case_name}: no output at all")

        if differing:
            print(f"DIFFERENT: {len(differing)} difference(s)")
            for line in differing:
                print("  " + line)
            return 1
        print(
            f"IDENTICAL: {len(cases)} API descriptions x {len(HASH_SEEDS)} hash seeds, "
            f"{n_files} generated files compared byte for byte (base HEAD vs working tree)"
        )
        return 0
    finally:
        shutil.rmtree(scratch, ignore_errors=True)


if __name__ == "__main__":
    sys.exit(main(sys.argv))
