#!/venv/bin/python
"""Twin T02 demo: the refactored generator emits byte-identical output.

Usage: /venv/bin/python demo.py <path-to-a-checkout-with-the-change>

The checkout's HEAD is exported pristine (``git archive HEAD``) and the
generator is run from both trees, in separate subprocesses, on the same
serialized API descriptions. Every emitted file (name and content) is compared.
"""
import os
import pickle
import shutil
import subprocess
import sys
import tempfile

from google.protobuf import descriptor_pb2 as dpb

F = dpb.FieldDescriptorProto
OPT, REP = F.LABEL_OPTIONAL, F.LABEL_REPEATED

# --------------------------------------------------------------------------
# Descriptor-building helpers
# --------------------------------------------------------------------------

SCALARS = [
    ("double", F.TYPE_DOUBLE), ("float", F.TYPE_FLOAT), ("int64", F.TYPE_INT64),
    ("uint64", F.TYPE_UINT64), ("int32", F.TYPE_INT32), ("fixed64", F.TYPE_FIXED64),
    ("fixed32", F.TYPE_FIXED32), ("bool", F.TYPE_BOOL), ("string", F.TYPE_STRING),
    ("bytes", F.TYPE_BYTES), ("uint32", F.TYPE_UINT32), ("sfixed32", F.TYPE_SFIXED32),
    ("sfixed64", F.TYPE_SFIXED64), ("sint32", F.TYPE_SINT32), ("sint64", F.TYPE_SINT64),
]
MAP_KEYS = [
    ("int64", F.TYPE_INT64), ("uint64", F.TYPE_UINT64), ("int32", F.TYPE_INT32),
    ("fixed64", F.TYPE_FIXED64), ("fixed32", F.TYPE_FIXED32), ("bool", F.TYPE_BOOL),
    ("string", F.TYPE_STRING), ("uint32", F.TYPE_UINT32), ("sfixed32", F.TYPE_SFIXED32),
    ("sfixed64", F.TYPE_SFIXED64), ("sint32", F.TYPE_SINT32), ("sint64", F.TYPE_SINT64),
]


def camel(name):
    return "".join(p.capitalize() for p in name.split("_"))


def json_name(name):
    parts = name.split("_")
    return parts[0] + "".join(p.capitalize() for p in parts[1:])


def fld(name, number, type_, type_name=None, label=OPT, oneof=None, optional=False,
        options=None):
    f = F(name=name, number=number, type=type_, label=label, json_name=json_name(name))
    if type_name:
        f.type_name = type_name
    if oneof is not None:
        f.oneof_index = oneof
    if optional:
        f.proto3_optional = True
    if options is not None:
        f.options.CopyFrom(options)
    return f


def msg(name, fields=(), nested=(), enums=(), oneofs=(), map_entry=False):
    m = dpb.DescriptorProto(name=name)
    m.field.extend(fields)
    m.nested_type.extend(nested)
    m.enum_type.extend(enums)
    for o in oneofs:
        m.oneof_decl.add(name=o)
    if map_entry:
        m.options.map_entry = True
    return m


def enum(name, values, allow_alias=False, deprecated=False):
    e = dpb.EnumDescriptorProto(name=name)
    for n, v in values:
        e.value.add(name=n, number=v)
    if allow_alias:
        e.options.allow_alias = True
    if deprecated:
        e.options.deprecated = True
    return e


def add_map(parent, scope, name, number, key, value, value_type_name=None):
    """Add a map field (and its synthesized entry type) to ``parent``."""
    entry = msg(
        camel(name) + "Entry",
        fields=[fld("key", 1, key), fld("value", 2, value, value_type_name)],
        map_entry=True,
    )
    parent.nested_type.append(entry)
    parent.field.append(
        fld(name, number, F.TYPE_MESSAGE, f".{scope}.{entry.name}", label=REP)
    )


def comment(fd, path, text):
    loc = fd.source_code_info.location.add()
    loc.path.extend(path)
    loc.leading_comments = text


def synthetic_optional(m):
    """Give every proto3_optional field of ``m`` its synthetic oneof (as protoc does)."""
    for f in m.field:
        if f.proto3_optional:
            f.oneof_index = len(m.oneof_decl)
            m.oneof_decl.add(name="_" + f.name)


def dep(module):
    return dpb.FileDescriptorProto.FromString(module.DESCRIPTOR.serialized_pb)


def well_known():
    from google.api import annotations_pb2, client_pb2, field_behavior_pb2
    from google.api import http_pb2, launch_stage_pb2, resource_pb2
    from google.longrunning import operations_pb2
    from google.protobuf import any_pb2, descriptor_pb2, duration_pb2, empty_pb2
    from google.protobuf import field_mask_pb2, struct_pb2, timestamp_pb2
    from google.rpc import status_pb2
    return [dep(m) for m in (
        descriptor_pb2, any_pb2, duration_pb2, empty_pb2, field_mask_pb2, struct_pb2,
        timestamp_pb2, http_pb2, annotations_pb2, launch_stage_pb2, client_pb2,
        field_behavior_pb2, resource_pb2, status_pb2, operations_pb2,
    )]


def method(name, inp, out, http=None, sig=None, client_stream=False,
           server_stream=False, lro=None):
    from google.api import annotations_pb2, client_pb2
    from google.longrunning import operations_pb2
    m = dpb.MethodDescriptorProto(
        name=name, input_type=inp, output_type=out,
        client_streaming=client_stream, server_streaming=server_stream,
    )
    if http:
        verb, uri, body = http
        rule = m.options.Extensions[annotations_pb2.http]
        setattr(rule, verb, uri)
        if body:
            rule.body = body
    if sig:
        m.options.Extensions[client_pb2.method_signature].append(sig)
    if lro:
        info = m.options.Extensions[operations_pb2.operation_info]
        info.response_type, info.metadata_type = lro
    return m


def service(name, host, methods):
    from google.api import client_pb2
    s = dpb.ServiceDescriptorProto(name=name)
    s.method.extend(methods)
    s.options.Extensions[client_pb2.default_host] = host
    return s


# --------------------------------------------------------------------------
# Case 1: every scalar, maps over all key types, oneofs, optional, reserved
# words, nesting depth 4, recursion, forward and cross-file references, gRPC
# and REST, paging, LRO, streaming.
# --------------------------------------------------------------------------

def case_kitchen():
    pkg = "acme.kitchen.v1"

    # --- file 1: shared types (referenced from file 2; also refers forward).
    common = dpb.FileDescriptorProto(
        name="acme/kitchen/v1/common.proto", package=pkg, syntax="proto3",
        dependency=["google/protobuf/timestamp.proto", "google/protobuf/struct.proto"],
    )
    common.enum_type.append(enum("Heat", [("HEAT_UNSPECIFIED", 0), ("LOW", 1), ("HIGH", 2)]))
    common.enum_type.append(
        enum("Alias", [("ALIAS_UNSPECIFIED", 0), ("ONE", 1), ("UNO", 1)], allow_alias=True)
    )
    # Forward reference: Utensil refers to Drawer, declared after it.
    utensil = msg("Utensil", fields=[
        fld("name", 1, F.TYPE_STRING),
        fld("drawer", 2, F.TYPE_MESSAGE, f".{pkg}.Drawer"),
        fld("heat", 3, F.TYPE_ENUM, f".{pkg}.Heat"),
        fld("made", 4, F.TYPE_MESSAGE, ".google.protobuf.Timestamp"),
    ])
    drawer = msg("Drawer", fields=[
        fld("utensils", 1, F.TYPE_MESSAGE, f".{pkg}.Utensil", label=REP),
        fld("inner", 2, F.TYPE_MESSAGE, f".{pkg}.Drawer"),           # self-recursive
        fld("extra", 3, F.TYPE_MESSAGE, ".google.protobuf.Struct"),
    ])
    common.message_type.extend([utensil, drawer])
    comment(common, [4, 0], "A utensil.\nIt lives in a drawer.")
    comment(common, [4, 0, 2, 0], "The utensil name.")
    comment(common, [5, 0], "How hot.")
    comment(common, [5, 0, 2, 1], "Not very hot.")

    # --- file 2: the kitchen sink.
    sink_fd = dpb.FileDescriptorProto(
        name="acme/kitchen/v1/sink.proto", package=pkg, syntax="proto3",
        dependency=[
            "acme/kitchen/v1/common.proto", "google/api/annotations.proto",
            "google/api/client.proto", "google/longrunning/operations.proto",
            "google/protobuf/duration.proto", "google/protobuf/empty.proto",
        ],
    )
    sink = msg("Sink", oneofs=["choice", "lonely"])
    n = 1
    for nm, t in SCALARS:
        sink.field.append(fld(f"{nm}_value", n, t)); n += 1
    for nm, t in SCALARS:
        sink.field.append(fld(f"{nm}_list", n, t, label=REP)); n += 1
    for nm, t in SCALARS:
        sink.field.append(fld(f"{nm}_opt", n, t, optional=True)); n += 1
    # Reserved words as field names.
    for word in ("from", "class", "in", "import", "max", "format", "not_reserved", "type"):
        sink.field.append(fld(word, n, F.TYPE_STRING)); n += 1
    # Nested enum, nested messages to depth 4, references up/down/sideways.
    sink.enum_type.append(enum("Kind", [("KIND_UNSPECIFIED", 0), ("STEEL", 1), ("STONE", -2)]))
    l4 = msg("L4", fields=[
        fld("kind", 1, F.TYPE_ENUM, f".{pkg}.Sink.Kind"),
        fld("up", 3, F.TYPE_MESSAGE, f".{pkg}.Sink.L2.L3"),
        fld("me", 4, F.TYPE_MESSAGE, f".{pkg}.Sink.L2.L3.L4", label=REP),
    ])
    l3 = msg("L3", fields=[
        fld("l4", 1, F.TYPE_MESSAGE, f".{pkg}.Sink.L2.L3.L4"),
        fld("mode", 2, F.TYPE_ENUM, f".{pkg}.Sink.L2.L3.Mode", optional=True),
        fld("sibling", 3, F.TYPE_MESSAGE, f".{pkg}.Sink.Side"),
    ], nested=[l4], enums=[enum("Mode", [("MODE_UNSPECIFIED", 0), ("ON", 1)])])
    l2 = msg("L2", fields=[
        fld("l3", 1, F.TYPE_MESSAGE, f".{pkg}.Sink.L2.L3", label=REP),
        fld("deep", 2, F.TYPE_MESSAGE, f".{pkg}.Sink.L2.L3.L4"),
        fld("other", 3, F.TYPE_MESSAGE, f".{pkg}.Tap"),               # forward, top-level
    ], nested=[l3])
    side = msg("Side", fields=[
        fld("l2", 1, F.TYPE_MESSAGE, f".{pkg}.Sink.L2"),
        fld("heat", 2, F.TYPE_ENUM, f".{pkg}.Heat"),
    ])
    add_map(side, f"{pkg}.Sink.Side", "by_name", 3, F.TYPE_STRING, F.TYPE_MESSAGE,
            f".{pkg}.Sink.L2.L3")
    sink.nested_type.extend([l2, side])
    sink.field.extend([
        fld("l2", n, F.TYPE_MESSAGE, f".{pkg}.Sink.L2"),
        fld("l4", n + 1, F.TYPE_MESSAGE, f".{pkg}.Sink.L2.L3.L4", label=REP),
        fld("kind", n + 2, F.TYPE_ENUM, f".{pkg}.Sink.Kind"),
        fld("kinds", n + 3, F.TYPE_ENUM, f".{pkg}.Sink.Kind", label=REP),
        fld("self_ref", n + 4, F.TYPE_MESSAGE, f".{pkg}.Sink"),
        fld("tap", n + 5, F.TYPE_MESSAGE, f".{pkg}.Tap"),
        fld("utensil", n + 6, F.TYPE_MESSAGE, f".{pkg}.Utensil", label=REP),
        fld("heat", n + 7, F.TYPE_ENUM, f".{pkg}.Heat", optional=True),
        fld("ttl", n + 8, F.TYPE_MESSAGE, ".google.protobuf.Duration"),
        fld("alias", n + 9, F.TYPE_ENUM, f".{pkg}.Alias"),
    ])
    n += 10
    # Oneofs: one with several members of different kinds, one with a single member.
    sink.field.extend([
        fld("pick_text", n, F.TYPE_STRING, oneof=0),
        fld("pick_number", n + 1, F.TYPE_SINT64, oneof=0),
        fld("pick_tap", n + 2, F.TYPE_MESSAGE, f".{pkg}.Tap", oneof=0),
        fld("pick_kind", n + 3, F.TYPE_ENUM, f".{pkg}.Sink.Kind", oneof=0),
        fld("pick_nested", n + 4, F.TYPE_MESSAGE, f".{pkg}.Sink.L2.L3", oneof=0),
        fld("yield", n + 5, F.TYPE_BYTES, oneof=0),
        fld("only", n + 6, F.TYPE_BOOL, oneof=1),
    ])
    n += 7
    # Maps over every legal key type; values: scalar, bytes, enum, message (near/far).
    for i, (nm, t) in enumerate(MAP_KEYS):
        add_map(sink, f"{pkg}.Sink", f"map_{nm}", n, t, SCALARS[i][1]); n += 1
    add_map(sink, f"{pkg}.Sink", "map_enum", n, F.TYPE_STRING, F.TYPE_ENUM, f".{pkg}.Heat"); n += 1
    add_map(sink, f"{pkg}.Sink", "map_nested_enum", n, F.TYPE_INT32, F.TYPE_ENUM,
            f".{pkg}.Sink.Kind"); n += 1
    add_map(sink, f"{pkg}.Sink", "map_msg", n, F.TYPE_STRING, F.TYPE_MESSAGE, f".{pkg}.Tap"); n += 1
    add_map(sink, f"{pkg}.Sink", "map_nested", n, F.TYPE_UINT64, F.TYPE_MESSAGE,
            f".{pkg}.Sink.L2.L3.L4"); n += 1
    add_map(sink, f"{pkg}.Sink", "map_self", n, F.TYPE_BOOL, F.TYPE_MESSAGE, f".{pkg}.Sink"); n += 1
    add_map(sink, f"{pkg}.Sink", "map_far", n, F.TYPE_STRING, F.TYPE_MESSAGE,
            ".google.protobuf.Duration"); n += 1
    add_map(sink, f"{pkg}.Sink", "map_cross", n, F.TYPE_STRING, F.TYPE_MESSAGE,
            f".{pkg}.Drawer"); n += 1
    synthetic_optional(sink)
    synthetic_optional(l3)

    # Mutually recursive pair, declared after Sink (forward refs from Sink).
    tap = msg("Tap", fields=[
        fld("pipe", 1, F.TYPE_MESSAGE, f".{pkg}.Pipe"),
        fld("sink_kind", 2, F.TYPE_ENUM, f".{pkg}.Sink.Kind"),
    ])
    pipe = msg("Pipe", fields=[
        fld("taps", 1, F.TYPE_MESSAGE, f".{pkg}.Tap", label=REP),
        fld("pipe", 2, F.TYPE_MESSAGE, f".{pkg}.Pipe", optional=True),
    ])
    synthetic_optional(pipe)
    empty_msg = msg("Nothing")

    get_req = msg("GetSinkRequest", fields=[fld("name", 1, F.TYPE_STRING)])
    list_req = msg("ListSinksRequest", fields=[
        fld("parent", 1, F.TYPE_STRING), fld("page_size", 2, F.TYPE_INT32),
        fld("page_token", 3, F.TYPE_STRING),
    ])
    list_resp = msg("ListSinksResponse", fields=[
        fld("sinks", 1, F.TYPE_MESSAGE, f".{pkg}.Sink", label=REP),
        fld("next_page_token", 2, F.TYPE_STRING),
    ])
    meta = msg("FillMetadata", fields=[fld("percent", 1, F.TYPE_FLOAT)])
    # NB: keep the reference graph sparse. Field/MessageType.with_context walk
    # every simple path of the message graph, so back edges from deep messages
    # to ``Sink`` make API.build take (literally) hours, with or without the change.
    sink_fd.message_type.extend(
        [sink, tap, pipe, empty_msg, get_req, list_req, list_resp, meta]
    )
    sink_fd.enum_type.append(enum("Late", [("LATE_UNSPECIFIED", 0), ("VERY", 7)], deprecated=True))
    comment(sink_fd, [4, 0], "Everything and the kitchen sink.")
    comment(sink_fd, [4, 0, 2, 0], "A double.")
    comment(sink_fd, [4, 0, 3, 0], "Second level.")
    comment(sink_fd, [4, 0, 4, 0], "What it is made of.")

    sink_fd.service.append(service("Plumbing", "kitchen.example.com", [
        method("GetSink", f".{pkg}.GetSinkRequest", f".{pkg}.Sink",
               http=("get", "/v1/{name=sinks/*}", None), sig="name"),
        method("ListSinks", f".{pkg}.ListSinksRequest", f".{pkg}.ListSinksResponse",
               http=("get", "/v1/{parent=rooms/*}/sinks", None), sig="parent"),
        method("FillSink", f".{pkg}.GetSinkRequest", ".google.longrunning.Operation",
               http=("post", "/v1/{name=sinks/*}:fill", "*"),
               lro=(f"{pkg}.Sink", f"{pkg}.FillMetadata")),
        method("WatchSink", f".{pkg}.GetSinkRequest", f".{pkg}.Sink",
               http=("get", "/v1/{name=sinks/*}:watch", None), server_stream=True),
        method("Pour", f".{pkg}.Sink", f".{pkg}.Sink", client_stream=True, server_stream=True),
        method("Drain", f".{pkg}.GetSinkRequest", ".google.protobuf.Empty",
               http=("delete", "/v1/{name=sinks/*}", None)),
    ]))
    return well_known() + [common, sink_fd], pkg


# --------------------------------------------------------------------------
# Case 2: sub-packages (marshal= differs from package=), two services, a field
# called ``proto`` (forces the ``proto`` import alias), module-name collisions.
# --------------------------------------------------------------------------

def case_subpackages():
    pkg = "acme.store.v2"
    sub = "acme.store.v2.inventory"

    base = dpb.FileDescriptorProto(
        name="acme/store/v2/base.proto", package=pkg, syntax="proto3",
    )
    base.enum_type.append(enum("Currency", [("CURRENCY_UNSPECIFIED", 0), ("EUR", 978)]))
    money = msg("Money", fields=[
        fld("currency", 1, F.TYPE_ENUM, f".{pkg}.Currency"),
        fld("units", 2, F.TYPE_INT64),
        fld("proto", 3, F.TYPE_STRING),
    ])
    base.message_type.append(money)

    # A file of the sub-package: references the parent package and itself.
    item_fd = dpb.FileDescriptorProto(
        name="acme/store/v2/inventory/item.proto", package=sub, syntax="proto3",
        dependency=["acme/store/v2/base.proto", "google/api/client.proto",
                    "google/api/annotations.proto", "google/protobuf/field_mask.proto"],
    )
    item = msg("Item", oneofs=["price_kind"], fields=[
        fld("price", 1, F.TYPE_MESSAGE, f".{pkg}.Money", oneof=0),
        fld("free", 2, F.TYPE_BOOL, oneof=0),
        fld("currency", 3, F.TYPE_ENUM, f".{pkg}.Currency", label=REP),
        fld("parts", 4, F.TYPE_MESSAGE, f".{sub}.Item.Part", label=REP),
        fld("mask", 5, F.TYPE_MESSAGE, ".google.protobuf.FieldMask"),
        fld("item", 6, F.TYPE_MESSAGE, f".{sub}.Item"),
    ], nested=[msg("Part", fields=[
        fld("whole", 1, F.TYPE_MESSAGE, f".{sub}.Item"),
        fld("cost", 2, F.TYPE_MESSAGE, f".{pkg}.Money", optional=True),
        fld("state", 3, F.TYPE_ENUM, f".{sub}.Item.State"),
    ])], enums=[enum("State", [("STATE_UNSPECIFIED", 0), ("NEW", 1), ("USED", 2)])])
    synthetic_optional(item.nested_type[0])
    add_map(item, f"{sub}.Item", "prices", 7, F.TYPE_STRING, F.TYPE_MESSAGE, f".{pkg}.Money")
    add_map(item, f"{sub}.Item", "states", 8, F.TYPE_FIXED32, F.TYPE_ENUM, f".{sub}.Item.State")
    add_map(item, f"{sub}.Item", "part_by_id", 9, F.TYPE_SINT64, F.TYPE_MESSAGE,
            f".{sub}.Item.Part")
    item_fd.message_type.extend([
        item, msg("FindItemRequest", fields=[fld("item", 1, F.TYPE_MESSAGE, f".{sub}.Item")]),
    ])
    item_fd.service.append(service("Stock", "store.example.com", [
        method("FindItem", f".{sub}.FindItemRequest", f".{sub}.Item",
               http=("post", "/v2/items:find", "*"), sig="item"),
    ]))

    # A second file in the top package with the same module name as the
    # sub-package one ("item"): exercises module aliases in references.
    top_fd = dpb.FileDescriptorProto(
        name="acme/store/v2/item.proto", package=pkg, syntax="proto3",
        dependency=["acme/store/v2/base.proto", "acme/store/v2/inventory/item.proto",
                    "google/api/client.proto", "google/api/annotations.proto"],
    )
    top_fd.message_type.extend([
        msg("Order", fields=[
            fld("items", 1, F.TYPE_MESSAGE, f".{sub}.Item", label=REP),
            fld("total", 2, F.TYPE_MESSAGE, f".{pkg}.Money"),
            fld("part", 3, F.TYPE_MESSAGE, f".{sub}.Item.Part"),
            fld("item", 4, F.TYPE_STRING),
        ]),
        msg("PlaceOrderRequest", fields=[fld("order", 1, F.TYPE_MESSAGE, f".{pkg}.Order")]),
    ])
    top_fd.service.extend([
        service("Orders", "store.example.com", [
            method("PlaceOrder", f".{pkg}.PlaceOrderRequest", f".{pkg}.Order",
                   http=("post", "/v2/orders", "order"), sig="order"),
        ]),
        service("Refunds", "store.example.com", [
            method("Refund", f".{pkg}.Order", f".{pkg}.Money",
                   http=("post", "/v2/refunds", "*")),
        ]),
    ])
    return well_known() + [base, item_fd, top_fd], pkg


# --------------------------------------------------------------------------
# Case 3: types only (no services), empty messages/enums edge cases, a file
# with nothing in it, unannotated everything.
# --------------------------------------------------------------------------

def case_types_only():
    pkg = "acme.bare.v1beta1"
    empty_fd = dpb.FileDescriptorProto(
        name="acme/bare/v1beta1/nothing.proto", package=pkg, syntax="proto3",
    )
    enums_fd = dpb.FileDescriptorProto(
        name="acme/bare/v1beta1/only_enums.proto", package=pkg, syntax="proto3",
    )
    enums_fd.enum_type.extend([
        enum("Solo", [("SOLO_UNSPECIFIED", 0)]),
        enum("Wide", [("WIDE_UNSPECIFIED", 0), ("MIN", -2147483648), ("MAX", 2147483647)]),
    ])
    msgs_fd = dpb.FileDescriptorProto(
        name="acme/bare/v1beta1/shapes.proto", package=pkg, syntax="proto3",
        dependency=["acme/bare/v1beta1/only_enums.proto"],
    )
    holder = msg("Holder", nested=[
        msg("Empty"),
        msg("A", fields=[fld("b", 1, F.TYPE_MESSAGE, f".{pkg}.Holder.B"),
                         fld("e", 2, F.TYPE_MESSAGE, f".{pkg}.Holder.Empty")]),
        msg("B", fields=[fld("a", 1, F.TYPE_MESSAGE, f".{pkg}.Holder.A", label=REP),
                         fld("holder", 2, F.TYPE_MESSAGE, f".{pkg}.Holder"),
                         fld("wide", 3, F.TYPE_ENUM, f".{pkg}.Wide")]),
    ])
    # A top-level message whose name equals a nested message's parent elsewhere.
    a = msg("A", fields=[
        fld("inner", 1, F.TYPE_MESSAGE, f".{pkg}.Holder.A"),
        fld("solo", 2, F.TYPE_ENUM, f".{pkg}.Solo", label=REP),
        fld("next_page_token", 3, F.TYPE_STRING),
        fld("big_number", 536870911, F.TYPE_FIXED64),
    ])
    only_oneof = msg("Either", oneofs=["which"], fields=[
        fld("left", 1, F.TYPE_MESSAGE, f".{pkg}.A", oneof=0),
        fld("right", 2, F.TYPE_MESSAGE, f".{pkg}.Holder.B", oneof=0),
    ])
    msgs_fd.message_type.extend([holder, a, only_oneof])
    return [empty_fd, enums_fd, msgs_fd], pkg


# --------------------------------------------------------------------------
# Case 4: a dependency package rendered as proto-plus (proto-plus-deps), a
# non-proto-plus dependency with reserved-word fields, resources, required
# fields, extended-operation style status message.
# --------------------------------------------------------------------------

def case_deps():
    from google.api import field_behavior_pb2, resource_pb2
    dep_pkg = "acme.shared.v1"
    pkg = "acme.app.v1"

    shared = dpb.FileDescriptorProto(
        name="acme/shared/v1/shared.proto", package=dep_pkg, syntax="proto3",
    )
    shared.enum_type.append(enum("Level", [("LEVEL_UNSPECIFIED", 0), ("TOP", 1)]))
    shared.message_type.append(msg("Tag", fields=[
        fld("from", 1, F.TYPE_STRING), fld("level", 2, F.TYPE_ENUM, f".{dep_pkg}.Level"),
    ], nested=[msg("Note", fields=[fld("class", 1, F.TYPE_STRING)])]))

    required = dpb.FieldOptions()
    required.Extensions[field_behavior_pb2.field_behavior].append(
        field_behavior_pb2.FieldBehavior.Value("REQUIRED"))
    ref = dpb.FieldOptions()
    ref.Extensions[resource_pb2.resource_reference].type = "app.example.com/Thing"

    app = dpb.FileDescriptorProto(
        name="acme/app/v1/app.proto", package=pkg, syntax="proto3",
        dependency=["acme/shared/v1/shared.proto", "google/api/client.proto",
                    "google/api/annotations.proto", "google/api/resource.proto",
                    "google/api/field_behavior.proto", "google/rpc/status.proto",
                    "google/protobuf/any.proto"],
    )
    thing = msg("Thing", fields=[
        fld("name", 1, F.TYPE_STRING),
        fld("tag", 2, F.TYPE_MESSAGE, f".{dep_pkg}.Tag"),
        fld("notes", 3, F.TYPE_MESSAGE, f".{dep_pkg}.Tag.Note", label=REP),
        fld("level", 4, F.TYPE_ENUM, f".{dep_pkg}.Level", optional=True),
        fld("error", 5, F.TYPE_MESSAGE, ".google.rpc.Status"),
        fld("any", 6, F.TYPE_MESSAGE, ".google.protobuf.Any"),
        fld("status", 7, F.TYPE_ENUM, f".{pkg}.Thing.Status"),
    ], enums=[enum("Status", [("STATUS_UNSPECIFIED", 0), ("RUNNING", 1), ("DONE", 2)])])
    thing.options.Extensions[resource_pb2.resource].type = "app.example.com/Thing"
    thing.options.Extensions[resource_pb2.resource].pattern.append("things/{thing}")
    add_map(thing, f"{pkg}.Thing", "tags", 8, F.TYPE_STRING, F.TYPE_MESSAGE, f".{dep_pkg}.Tag")
    add_map(thing, f"{pkg}.Thing", "levels", 9, F.TYPE_INT64, F.TYPE_ENUM, f".{dep_pkg}.Level")
    add_map(thing, f"{pkg}.Thing", "errors", 10, F.TYPE_STRING, F.TYPE_MESSAGE,
            ".google.rpc.Status")
    synthetic_optional(thing)
    req = msg("UpdateThingRequest", fields=[
        fld("thing", 1, F.TYPE_MESSAGE, f".{pkg}.Thing", options=required),
        fld("parent", 2, F.TYPE_STRING, options=ref),
        fld("tag", 3, F.TYPE_MESSAGE, f".{dep_pkg}.Tag", options=required),
    ])
    app.message_type.extend([thing, req])
    app.service.append(service("Things", "app.example.com", [
        method("UpdateThing", f".{pkg}.UpdateThingRequest", f".{pkg}.Thing",
               http=("patch", "/v1/{thing.name=things/*}", "thing"), sig="thing,tag"),
    ]))
    return well_known() + [shared, app], pkg


def build_cases():
    kitchen, kitchen_pkg = case_kitchen()
    store, store_pkg = case_subpackages()
    bare, bare_pkg = case_types_only()
    deps, deps_pkg = case_deps()
    cases = [
        ("kitchen-default", kitchen, kitchen_pkg, ""),
        ("kitchen-rest-numeric", kitchen, kitchen_pkg,
         "transport=rest,rest-numeric-enums,autogen-snippets=false"),
        ("store-subpackages", store, store_pkg, "autogen-snippets=false"),
        ("store-old-naming-grpc", store, store_pkg, "old-naming,transport=grpc"),
        ("bare-types-only", bare, bare_pkg, "autogen-snippets=false"),
        ("deps-plain", deps, deps_pkg, "transport=grpc+rest"),
        ("deps-proto-plus", deps, deps_pkg,
         "proto-plus-deps=acme.shared.v1,autogen-snippets=false"),
    ]
    return [
        (name, [fd.SerializeToString() for fd in fds], pkg, opts)
        for name, fds, pkg, opts in cases
    ]


# --------------------------------------------------------------------------
# Worker (runs in a subprocess with exactly one copy of ``gapic`` importable)
# --------------------------------------------------------------------------

WORKER = r'''
import pickle, sys
tree, cases_path, out_path = sys.argv[1:4]
sys.path.insert(0, tree)

# pandoc is not installed here; stub the conversion identically for every run.
import pypandoc
pypandoc.convert_text = lambda text, to, format=None, extra_args=(), **kw: text

from google.protobuf import descriptor_pb2
import os
from gapic.generator import Generator, generator as generator_module
from gapic.schema import api as api_module, metadata, wrappers
from gapic.schema.api import API
from gapic.utils import Options
for mod in (generator_module, api_module, metadata, wrappers):
    assert os.path.realpath(mod.__file__).startswith(os.path.realpath(tree) + os.sep), (
        mod.__file__, tree)

results = {}
with open(cases_path, "rb") as fh:
    cases = pickle.load(fh)
for name, blobs, package, opt_string in cases:
    fds = [descriptor_pb2.FileDescriptorProto.FromString(b) for b in blobs]
    opts = Options.build(opt_string)
    api = API.build(fds, package=package, opts=opts)
    response = Generator(opts).get_response(api, opts)
    files = {}
    for f in response.file:
        assert f.name not in files, f.name
        files[f.name] = f.content
    results[name] = files
with open(out_path, "wb") as fh:
    pickle.dump(results, fh)
'''


def run_worker(tree, workdir, cases_path, label):
    out_path = os.path.join(workdir, f"out-{label}.pickle")
    script = os.path.join(workdir, "worker.py")
    env = dict(os.environ)
    env.pop("PYTHONPATH", None)
    env["PYTHONHASHSEED"] = "0"
    env["PYTHONDONTWRITEBYTECODE"] = "1"
    proc = subprocess.run(
        [sys.executable, script, tree, cases_path, out_path],
        cwd=workdir, env=env, capture_output=True, text=True, timeout=300,
    )
    if proc.returncode != 0:
        sys.stderr.write(proc.stdout + proc.stderr)
        raise SystemExit(f"generator run failed in the {label} tree")
    with open(out_path, "rb") as fh:
        return pickle.load(fh)


def main(argv):
    if len(argv) != 2:
        print(__doc__)
        return 2
    checkout = os.path.abspath(argv[1])
    workdir = tempfile.mkdtemp(prefix="twin-T02-demo-")
    try:
        pristine = os.path.join(workdir, "pristine")
        os.mkdir(pristine)
        archive = subprocess.Popen(
            ["git", "-C", checkout, "archive", "HEAD"], stdout=subprocess.PIPE)
        subprocess.run(["tar", "-x", "-C", pristine], stdin=archive.stdout, check=True)
        if archive.wait() != 0:
            raise SystemExit("git archive failed")

        with open(os.path.join(workdir, "worker.py"), "w") as fh:
            fh.write(WORKER)
        cases_path = os.path.join(workdir, "cases.pickle")
        with open(cases_path, "wb") as fh:
            pickle.dump(build_cases(), fh)

        before = run_worker(pristine, workdir, cases_path, "pristine")
        after = run_worker(checkout, workdir, cases_path, "changed")

        problems = []
        total = 0
        type_files = 0
        for case in sorted(set(before) | set(after)):
            b, a = before.get(case, {}), after.get(case, {})
            for name in sorted(set(b) | set(a)):
                total += 1
                if "/types/" in name:
                    type_files += 1
                if name not in a:
                    problems.append(f"{case}: {name}: missing with the change")
                elif name not in b:
                    problems.append(f"{case}: {name}: only with the change")
                elif a[name].encode("utf-8") != b[name].encode("utf-8"):
                    problems.append(f"{case}: {name}: content differs")
        if problems:
            print(f"DIFFERENT: {len(problems)} of {total} files differ")
            for p in problems:
                print("  " + p)
            return 1
        if not total or not type_files:
            print("no output produced; nothing was compared")
            return 1
        print(f"IDENTICAL: {len(before)} API/option cases, {total} files "
              f"({type_files} under types/) byte-for-byte equal")
        return 0
    finally:
        shutil.rmtree(workdir, ignore_errors=True)


if __name__ == "__main__":
    sys.exit(main(sys.argv))
