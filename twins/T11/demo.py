#!/venv/bin/python
"""Twin demo for T11 (property C11: emitted file set / package-derived naming).

Usage:  /venv/bin/python demo.py <path-to-a-checkout-with-the-change>

The script
  * exports the pristine HEAD of the checkout (`git archive HEAD | tar -x`),
  * builds several CodeGeneratorRequests in pure Python (no protoc),
  * feeds each of them through the real plugin entry point
    (gapic.cli.generate.generate -> Options.build -> API.build ->
    Generator.get_response) once with the pristine tree and once with the
    working tree of the checkout, each in its own subprocess,
  * additionally probes the refactored helpers directly (Options.build,
    Naming.build, utils.empty, Generator._get_filename) with edge-case inputs,
  * compares everything byte for byte.

Exit status 0 and a one-line summary when identical, 1 (with a list of the
differences) otherwise.
"""

import hashlib
import importlib
import json
import os
import shutil
import subprocess
import sys
import tempfile

from google.protobuf import descriptor_pb2 as d
from google.protobuf.compiler import plugin_pb2

F = d.FieldDescriptorProto

# --------------------------------------------------------------------------
# Descriptor building helpers
# --------------------------------------------------------------------------

_WELL_KNOWN = [
    "google.api.annotations_pb2",
    "google.api.client_pb2",
    "google.api.field_behavior_pb2",
    "google.api.resource_pb2",
    "google.api.http_pb2",
    "google.api.launch_stage_pb2",
    "google.protobuf.descriptor_pb2",
    "google.protobuf.empty_pb2",
    "google.protobuf.timestamp_pb2",
    "google.protobuf.duration_pb2",
    "google.protobuf.field_mask_pb2",
    "google.protobuf.any_pb2",
    "google.rpc.status_pb2",
    "google.longrunning.operations_pb2",
]


def well_known_files():
    """Return FileDescriptorProtos of the usual imports, dependencies first."""
    seen = {}

    def visit(file_desc):
        if file_desc.name in seen:
            return
        for dep in file_desc.dependencies:
            visit(dep)
        seen[file_desc.name] = d.FileDescriptorProto.FromString(
            file_desc.serialized_pb
        )

    for mod_name in _WELL_KNOWN:
        visit(importlib.import_module(mod_name).DESCRIPTOR)
    return list(seen.values())


def field(name, number, type_, type_name=None, repeated=False, **kw):
    f = F(
        name=name,
        number=number,
        type=type_,
        label=F.LABEL_REPEATED if repeated else F.LABEL_OPTIONAL,
        json_name=kw.pop("json_name", ""),
    )
    if type_name:
        f.type_name = type_name
    if "oneof_index" in kw:
        f.oneof_index = kw.pop("oneof_index")
    if kw.pop("proto3_optional", False):
        f.proto3_optional = True
    if kw.pop("required", False):
        from google.api import field_behavior_pb2

        f.options.Extensions[field_behavior_pb2.field_behavior].append(
            field_behavior_pb2.REQUIRED
        )
    ref = kw.pop("resource_ref", None)
    if ref:
        from google.api import resource_pb2

        f.options.Extensions[resource_pb2.resource_reference].type = ref
    assert not kw, kw
    return f


def message(name, fields=(), nested=(), oneofs=(), enums=(), resource=None, map_entry=False):
    m = d.DescriptorProto(name=name)
    m.field.extend(fields)
    m.nested_type.extend(nested)
    m.enum_type.extend(enums)
    for o in oneofs:
        m.oneof_decl.add(name=o)
    if map_entry:
        m.options.map_entry = True
    if resource:
        from google.api import resource_pb2

        res = m.options.Extensions[resource_pb2.resource]
        res.type = resource[0]
        res.pattern.extend(resource[1:])
    return m


def map_entry(name, value_type, value_type_name=None):
    return message(
        name,
        fields=[
            field("key", 1, F.TYPE_STRING),
            field("value", 2, value_type, value_type_name),
        ],
        map_entry=True,
    )


def enum(name, *values):
    e = d.EnumDescriptorProto(name=name)
    for i, v in enumerate(values):
        e.value.add(name=v, number=i)
    return e


def method(
    name,
    input_type,
    output_type,
    http=None,
    body=None,
    signature=None,
    lro=None,
    client_streaming=False,
    server_streaming=False,
):
    from google.api import annotations_pb2, client_pb2
    from google.longrunning import operations_pb2

    m = d.MethodDescriptorProto(
        name=name,
        input_type=input_type,
        output_type=output_type,
        client_streaming=client_streaming,
        server_streaming=server_streaming,
    )
    if http:
        verb, uri = http
        rule = m.options.Extensions[annotations_pb2.http]
        setattr(rule, verb, uri)
        if body:
            rule.body = body
    if signature is not None:
        m.options.Extensions[client_pb2.method_signature].append(signature)
    if lro:
        info = m.options.Extensions[operations_pb2.operation_info]
        info.response_type, info.metadata_type = lro
    return m


def service(name, methods, host=None, scopes=None):
    from google.api import client_pb2

    s = d.ServiceDescriptorProto(name=name)
    s.method.extend(methods)
    if host:
        s.options.Extensions[client_pb2.default_host] = host
    if scopes:
        s.options.Extensions[client_pb2.oauth_scopes] = scopes
    return s


def proto_file(name, package, deps=(), messages=(), enums=(), services=(), comments=None):
    f = d.FileDescriptorProto(name=name, package=package, syntax="proto3")
    f.dependency.extend(deps)
    f.message_type.extend(messages)
    f.enum_type.extend(enums)
    f.service.extend(services)
    for path, text in (comments or {}).items():
        f.source_code_info.location.add(path=list(path), leading_comments=text)
    return f


STD_DEPS = [
    "google/api/annotations.proto",
    "google/api/client.proto",
    "google/api/field_behavior.proto",
    "google/api/resource.proto",
    "google/protobuf/empty.proto",
    "google/protobuf/timestamp.proto",
    "google/protobuf/field_mask.proto",
    "google/longrunning/operations.proto",
]


def request(files, targets, parameter):
    req = plugin_pb2.CodeGeneratorRequest(parameter=parameter)
    req.file_to_generate.extend(targets)
    req.proto_file.extend(well_known_files())
    req.proto_file.extend(files)
    return req


# --------------------------------------------------------------------------
# The API descriptions
# --------------------------------------------------------------------------


def library_files(pkg, dirname, sub=None):
    """A two-file, two-service API with paging, LRO, streaming, resources."""
    p = "." + pkg
    types = proto_file(
        f"{dirname}/Library-Types.v1.proto",  # needs sanitising
        pkg,
        deps=STD_DEPS,
        messages=[
            message(
                "Book",
                fields=[
                    field("name", 1, F.TYPE_STRING),
                    field("title", 2, F.TYPE_STRING),
                    field("class", 3, F.TYPE_STRING),  # reserved word
                    field("from", 4, F.TYPE_INT32),  # reserved word
                    field("tags", 5, F.TYPE_STRING, repeated=True),
                    field("labels", 6, F.TYPE_MESSAGE, p + ".Book.LabelsEntry", repeated=True),
                    field("isbn", 7, F.TYPE_STRING, oneof_index=0),
                    field("shelf_mark", 8, F.TYPE_INT64, oneof_index=0),
                    field("rating", 9, F.TYPE_DOUBLE, oneof_index=1, proto3_optional=True),
                    field("genre", 10, F.TYPE_ENUM, p + ".Genre"),
                    field("created", 11, F.TYPE_MESSAGE, ".google.protobuf.Timestamp"),
                    field("origin", 12, F.TYPE_MESSAGE, ".acme.common.Origin"),
                ],
                nested=[map_entry("LabelsEntry", F.TYPE_STRING)],
                oneofs=["identifier", "_rating"],
                resource=(
                    "library.example.com/Book",
                    "shelves/{shelf}/books/{book}",
                    "archives/{archive}/books/{book}",
                ),
            ),
            message(
                "Shelf",
                fields=[
                    field("name", 1, F.TYPE_STRING),
                    field("theme", 2, F.TYPE_STRING),
                ],
                resource=("library.example.com/Shelf", "shelves/{shelf}"),
            ),
            message("OperationMetadata", fields=[field("progress", 1, F.TYPE_INT32)]),
        ],
        enums=[enum("Genre", "GENRE_UNSPECIFIED", "FICTION", "None")],
        comments={
            (4, 0): " A single *book* in the `library`.\n Has [links](http://x) too.\n",
            (4, 1): " A shelf.\n",
        },
    )
    svc = proto_file(
        f"{dirname}/library.proto",
        pkg,
        deps=STD_DEPS + [types.name],
        messages=[
            message(
                "GetBookRequest",
                fields=[
                    field(
                        "name", 1, F.TYPE_STRING, required=True,
                        resource_ref="library.example.com/Book",
                    )
                ],
            ),
            message(
                "ListBooksRequest",
                fields=[
                    field("parent", 1, F.TYPE_STRING, required=True,
                          resource_ref="library.example.com/Shelf"),
                    field("page_size", 2, F.TYPE_INT32),
                    field("page_token", 3, F.TYPE_STRING),
                ],
            ),
            message(
                "ListBooksResponse",
                fields=[
                    field("books", 1, F.TYPE_MESSAGE, p + ".Book", repeated=True),
                    field("next_page_token", 2, F.TYPE_STRING),
                ],
            ),
            message(
                "CreateBookRequest",
                fields=[
                    field("parent", 1, F.TYPE_STRING, required=True),
                    field("book", 2, F.TYPE_MESSAGE, p + ".Book", required=True),
                ],
            ),
            message(
                "UpdateBookRequest",
                fields=[
                    field("book", 1, F.TYPE_MESSAGE, p + ".Book"),
                    field("update_mask", 2, F.TYPE_MESSAGE, ".google.protobuf.FieldMask"),
                ],
            ),
            message("DeleteBookRequest", fields=[field("name", 1, F.TYPE_STRING)]),
            message("GetShelfRequest", fields=[field("name", 1, F.TYPE_STRING)]),
        ],
        services=[
            service(
                "LibraryService",
                [
                    method("GetBook", p + ".GetBookRequest", p + ".Book",
                           http=("get", "/v1/{name=shelves/*/books/*}"), signature="name"),
                    method("ListBooks", p + ".ListBooksRequest", p + ".ListBooksResponse",
                           http=("get", "/v1/{parent=shelves/*}/books"), signature="parent"),
                    method("CreateBook", p + ".CreateBookRequest", p + ".Book",
                           http=("post", "/v1/{parent=shelves/*}/books"), body="book",
                           signature="parent,book"),
                    method("UpdateBook", p + ".UpdateBookRequest",
                           ".google.longrunning.Operation",
                           http=("patch", "/v1/{book.name=shelves/*/books/*}"), body="book",
                           lro=("Book", "OperationMetadata")),
                    method("DeleteBook", p + ".DeleteBookRequest", ".google.protobuf.Empty",
                           http=("delete", "/v1/{name=shelves/*/books/*}")),
                    method("WatchBooks", p + ".ListBooksRequest", p + ".Book",
                           http=("get", "/v1/{parent=shelves/*}/books:watch"),
                           server_streaming=True),
                ],
                host="library.example.com",
                scopes="https://www.example.com/auth/library,https://www.example.com/auth/ro",
            ),
            service(
                "ShelfAdmin",
                [
                    method("GetShelf", p + ".GetShelfRequest", p + ".Shelf",
                           http=("get", "/v1/{name=shelves/*}"), signature="name"),
                ],
                host="library.example.com:443",
            ),
        ],
        comments={
            (6, 0): " Manages books.\n\n Use it *wisely*.\n",
            (6, 0, 2, 0): " Gets a `Book`.\n",
            (6, 0, 2, 1): " Lists books on a shelf.\n",
        },
    )
    # A dependency-only file: other package, must not yield any output.
    common = proto_file(
        "acme/common/origin.proto",
        "acme.common",
        messages=[message("Origin", fields=[field("country", 1, F.TYPE_STRING)])],
        enums=[enum("Era", "ERA_UNSPECIFIED", "MODERN")],
    )
    types.dependency.append(common.name)
    return common, types, svc


def case_library_grpc_rest():
    common, types, svc = library_files("google.cloud.library.v1", "google/cloud/library/v1")
    return request(
        [common, types, svc],
        [types.name, svc.name],
        "transport=grpc+rest,metadata,some-other-plugin-opt=1,"
        "python-gapic-bogus=zzz, standalone_flag ,=odd,",
    )


def case_unversioned_rest():
    pkg = "foo"
    p = ".foo"
    f = proto_file(
        "foo.proto",
        pkg,
        deps=STD_DEPS,
        messages=[
            message("Ping", fields=[
                field("text", 1, F.TYPE_STRING),
                field("kind", 2, F.TYPE_ENUM, p + ".Kind"),
            ]),
            message("Pong", fields=[
                field("text", 1, F.TYPE_STRING),
                field("kind", 2, F.TYPE_ENUM, p + ".Kind"),
            ]),
        ],
        enums=[enum("Kind", "KIND_UNSPECIFIED", "LOUD")],
        services=[
            service(
                "Echo",
                [
                    method("Send", p + ".Ping", p + ".Pong",
                           http=("post", "/v1/ping:send"), body="*"),
                    method("Peek", p + ".Ping", p + ".Pong", http=("get", "/v1/ping")),
                ],
                host="foo.example.com",
            )
        ],
    )
    return request(
        [f], [f.name], "transport=rest,rest-numeric-enums,autogen-snippets=false"
    )


def case_subpackages_beta():
    """Four namespace-ish segments, v1p1beta1, a sub-package, a service-less
    file, an empty file, bidi/client streaming, gRPC only, no http rules."""
    pkg = "acme.tools.widgets.example.v1p1beta1"
    p = "." + pkg
    base = "acme/tools/widgets/example/v1p1beta1"
    shapes = proto_file(
        f"{base}/shapes.proto",
        pkg,
        messages=[
            message(
                "Shape",
                fields=[
                    field("name", 1, F.TYPE_STRING),
                    field("sides", 2, F.TYPE_INT32, proto3_optional=True, oneof_index=0),
                    field("points", 3, F.TYPE_MESSAGE, p + ".Shape.Point", repeated=True),
                    field("attrs", 4, F.TYPE_MESSAGE, p + ".Shape.AttrsEntry", repeated=True),
                ],
                nested=[
                    message("Point", fields=[
                        field("x", 1, F.TYPE_FLOAT), field("y", 2, F.TYPE_FLOAT),
                    ]),
                    map_entry("AttrsEntry", F.TYPE_MESSAGE, p + ".Shape.Point"),
                ],
                oneofs=["_sides"],
                enums=[enum("Colour", "COLOUR_UNSPECIFIED", "RED")],
            ),
        ],
    )
    nothing = proto_file(f"{base}/nothing_here.proto", pkg)
    sub_types = proto_file(
        f"{base}/sub/import.proto",  # module name is a reserved word
        pkg + ".sub",
        deps=[shapes.name],
        messages=[
            message("Chunk", fields=[
                field("data", 1, F.TYPE_BYTES),
                field("shape", 2, F.TYPE_MESSAGE, p + ".Shape"),
            ]),
            message("Summary", fields=[field("count", 1, F.TYPE_INT64)]),
        ],
    )
    sub_svc = proto_file(
        f"{base}/sub/streamer.proto",
        pkg + ".sub",
        deps=STD_DEPS + [sub_types.name],
        services=[
            service(
                "Streamer",
                [
                    method("Upload", p + ".sub.Chunk", p + ".sub.Summary",
                           client_streaming=True),
                    method("Chat", p + ".sub.Chunk", p + ".sub.Chunk",
                           client_streaming=True, server_streaming=True),
                    method("Summarize", p + ".sub.Chunk", p + ".sub.Summary"),
                ],
                host="widgets.example.com",
            )
        ],
    )
    top_svc = proto_file(
        f"{base}/shape_service.proto",
        pkg,
        deps=STD_DEPS + [shapes.name],
        services=[
            service(
                "ShapeService",
                [method("Reshape", p + ".Shape", p + ".Shape", signature="name")],
                host="widgets.example.com",
            )
        ],
    )
    files = [shapes, nothing, sub_types, sub_svc, top_svc]
    # (Snippet generation cannot cope with services in sub-packages in the
    # pinned revision - KeyError in samplegen - hence autogen-snippets=false.)
    return request(files, [f.name for f in files], "autogen-snippets=false")


def case_overrides():
    """Name / namespace / warehouse overrides, repeated keys, lazy import."""
    common, types, svc = library_files("example.v1beta1", "example/v1beta1")
    return request(
        [common, types, svc],
        [svc.name, types.name],
        "python-gapic-name=my_cool api,python-gapic-namespace=acme.tools,"
        "python-gapic-namespace=Extra,warehouse-package-name=acme-cool-api,"
        "lazy-import,transport=grpc,transport=rest,autogen-snippets=T,"
        "proto-plus-deps=acme.common+other.pkg.v1,unknown",
    )


def case_single_namespace_types_only():
    """One namespace segment, plain v2, only messages and enums: no service."""
    pkg = "acme.records.v2"
    p = "." + pkg
    f = proto_file(
        "acme/records/v2/Records File.proto",
        pkg,
        messages=[
            message("Record", fields=[
                field("id", 1, F.TYPE_STRING),
                field("payload", 2, F.TYPE_MESSAGE, ".google.protobuf.Any"),
                field("state", 3, F.TYPE_ENUM, p + ".State"),
            ]),
        ],
        enums=[enum("State", "STATE_UNSPECIFIED", "ACTIVE")],
        deps=["google/protobuf/any.proto"],
    )
    return request([f], [f.name], "metadata,autogen-snippets=no")


def case_old_naming():
    common, types, svc = library_files("google.ads.library.v3", "google/ads/library/v3")
    return request([common, types, svc], [types.name, svc.name], "old-naming,transport=grpc")


CASES = [
    ("library_grpc_rest", case_library_grpc_rest),
    ("unversioned_rest", case_unversioned_rest),
    ("subpackages_beta", case_subpackages_beta),
    ("overrides", case_overrides),
    ("types_only", case_single_namespace_types_only),
    ("old_naming", case_old_naming),
]

# --------------------------------------------------------------------------
# The runner: executed in a subprocess, once per tree
# --------------------------------------------------------------------------

RUNNER = r'''
import json, os, sys, traceback, warnings
tree, workdir = sys.argv[1], sys.argv[2]
sys.path.insert(0, tree)
os.chdir(workdir)
warnings.simplefilter("ignore")

import pypandoc
def _convert_text(text, to, format=None, extra_args=()):
    return "<<rst:" + " ".join(extra_args) + ">>\n" + text
pypandoc.convert_text = _convert_text

import gapic
# `gapic` is a namespace package (and an editable install of another checkout
# may be visible to this interpreter): pin it to the tree under test.
gapic.__path__ = [os.path.join(tree, "gapic")]
from gapic.cli import generate as cli
from gapic.utils import Options
from gapic import utils
from gapic.schema import naming
from gapic.generator import generator
from google.protobuf import descriptor_pb2
from google.protobuf.compiler import plugin_pb2

def check_origin():
    root = os.path.realpath(tree) + os.sep
    for mod_name, mod in list(sys.modules.items()):
        if mod_name == "gapic" or mod_name.startswith("gapic."):
            origin = getattr(mod, "__file__", None)
            if origin is not None:
                assert os.path.realpath(origin).startswith(root), (mod_name, origin)
check_origin()

names = json.load(open(os.path.join(workdir, "cases.json")))
outdir = os.path.join(workdir, "out-" + sys.argv[3])
os.makedirs(outdir)
for name in names:
    req = os.path.join(workdir, name + ".req")
    res = os.path.join(outdir, name + ".res")
    try:
        cli.generate.main(["--request", req, "--output", res], standalone_mode=False)
    except BaseException as exc:
        with open(res, "wb") as fh:
            fh.write(("EXCEPTION " + type(exc).__name__ + ": " + str(exc)).encode())

# Direct probes of the helpers the refactoring touched.
probe = {}

def attempt(fn):
    try:
        return fn()
    except Exception as exc:
        return "EXC " + type(exc).__name__ + ": " + str(exc)

def opts_repr(s):
    with warnings.catch_warnings(record=True) as caught:
        warnings.simplefilter("always")
        o = Options.build(s)
        w = sorted(str(c.message) for c in caught)
    rep = {}
    for f in sorted(o.__dataclass_fields__):
        v = getattr(o, f)
        rep[f] = repr(sorted(v)) if isinstance(v, frozenset) else repr(v)
    rep["templates"] = [os.path.relpath(t, tree) for t in o.templates]
    return {"opts": rep, "warnings": w}

OPT_STRINGS = [
    "", ",", " , ,", "=", "=x", "a=b=c", "transport", "transport=", "transport=rest+grpc",
    "transport=grpc,transport=rest", " transport = rest ", "python-gapic-", "python-gapic-=v",
    "python-gapic-name=a_b c", "python-gapic-namespace=x.y,python-gapic-namespace=z",
    "python-gapic-transport=rest", "python-gapic-metadata", "metadata=false", "lazy-import=",
    "autogen-snippets", "autogen-snippets=True", "autogen-snippets=true", "autogen-snippets=T",
    "autogen-snippets=t", "autogen-snippets=TRUE", "autogen-snippets=tRue",
    "autogen-snippets=false,autogen-snippets=true", "autogen-snippets=", "old-naming",
    "python-gapic-old-naming,python-gapic-whatever=1,python-gapic-whatever", "rest-numeric-enums",
    "proto-plus-deps=a.b+c.d", "proto-plus-deps=", "warehouse-package-name=a,warehouse-package-name=b",
    "python-gapic-templates=DEFAULT", "python-gapic-templates=ads-templates,python-gapic-templates=DEFAULT",
    "add-iam-methods,python-gapic-add-iam-methods=x", "retry-config", "unknown=1,other",
    "python-gapic-name==", "name=x", "Transport=rest", "transport=rest=grpc",
]
probe["options"] = {s: attempt(lambda s=s: opts_repr(s)) for s in OPT_STRINGS}

EMPTY_INPUTS = [
    "", "\n", "   ", "\t\n  \n", "# c", "  # c\n#d\n", "x", " x", "#c\nx = 1\n", "\n\n# -*- coding -*-\n\n",
    "\r\n", "#\r\nimport x\r\n", "\x0c# c", "\x0cx", " ", " #", '"""doc"""', "  \v ", "#", "a#b", "\\",
]
probe["empty"] = {repr(s): attempt(lambda s=s: utils.empty(s)) for s in EMPTY_INPUTS}

def naming_repr(pkgs, optstr):
    fds = [descriptor_pb2.FileDescriptorProto(name="f%d.proto" % i, package=p) for i, p in enumerate(pkgs)]
    n = naming.Naming.build(*fds, opts=Options.build(optstr))
    return {
        "cls": type(n).__name__, "name": n.name, "namespace": list(n.namespace), "version": n.version,
        "product_name": n.product_name, "proto_package": n.proto_package,
        "module_name": n.module_name, "module_namespace": list(n.module_namespace),
        "versioned_module_name": n.versioned_module_name, "long_name": n.long_name,
        "namespace_packages": list(n.namespace_packages), "warehouse": n.warehouse_package_name,
        "proto_plus_deps": list(n.proto_plus_deps),
    }

PACKAGES = [
    ["foo"], ["foo.v1"], ["google.foo.v1"], ["google.cloud.foo.v1beta1"], ["a.b.c.foo.v1p1beta1"],
    ["a.b.foo.v1alpha"], ["a.b.foo.v12p3alpha7"], ["google.cloud.foo.v1", "google.cloud.foo.v1.sub"],
    ["google.cloud.foo.v1.a", "google.cloud.foo.v1.b"], ["google.cloud.foo", "google.cloud.foo.sub"],
    ["google.cloud.foo.v1", "google.cloud.foo.v2"], ["a.x", "b.x"], [""], ["v1"], ["foo.v1.bar"],
    ["foo.v1.bar.v2"], ["foo.v1x"], ["foo.version1"], ["foo.v1beta"], ["foo.v1p1"], ["foo.v1gamma"],
    ["Foo.V1"], ["foo_bar.baz_qux.v1"], ["google.v1.foo"], ["a.v1", "a.v1beta1"], ["x.v1.", ],
    ["foo.v1", "foo.v1"], ["foo..v1"], ["foo.v"], ["1foo.2bar.v3"],
]
NAMING_OPTS = ["", "old-naming", "python-gapic-name=over_ride,python-gapic-namespace=N.s", "warehouse-package-name=w-p"]
probe["naming"] = {
    json.dumps([p, o]): attempt(lambda p=p, o=o: naming_repr(p, o)) for p in PACKAGES for o in NAMING_OPTS
}

class _Obj:
    def __init__(self, **kw):
        self.__dict__.update(kw)

def filename(tmpl, ns, name, version, sub, ctx):
    n = naming.NewNaming(name=name, namespace=tuple(ns), version=version)
    schema = _Obj(naming=n, subpackage_view=tuple(sub))
    g = generator.Generator(Options.build(""))
    return g._get_filename(tmpl, api_schema=schema, context=ctx)

svc, prt = _Obj(module_name="my_service"), _Obj(module_name="my%proto_types")
TEMPLATES = [
    "%namespace/%name_%version/%sub/services/%service/client.py.j2",
    "%namespace/%name_%version/%sub/types/%proto.py.j2",
    "%namespace/%name/__init__.py.j2", "%namespace/%name_%version/%sub/__init__.py.j2",
    "setup.py.j2", "docs/%name_%version/%service.rst.j2", "tests/unit/gapic/%name_%version/%sub/test_%service.py.j2",
    "//a///b/%version//c.j2", "%service/%proto/%service.j2", "x.j2", ".j2", "%namespace.j2",
]
CONTEXTS = {"none": None, "empty": {}, "svc": {"service": svc}, "proto": {"proto": prt},
            "both": {"proto": prt, "service": svc}, "other": {"snippet_index": 1}}
SHAPES = [([], "Foo", "", []), (["Google", "Cloud"], "Foo Bar", "v1", []), (["A"], "X", "v1beta1", ["sub", "deep"]),
          (["Go Ogle", "c-d"], "n", "", ["s"])]
probe["filename"] = {
    json.dumps([t, k, list(map(list, [s[0], s[3]])), s[1], s[2]]):
        attempt(lambda t=t, k=k, s=s: filename(t, s[0], s[1], s[2], s[3], CONTEXTS[k]))
    for t in TEMPLATES for k in CONTEXTS for s in SHAPES
}

# Which shipped templates are skipped as "private"?  Observed through the
# public behaviour of get_response on a stub loader-independent path: emulate
# with the original expression when the helper is absent.
tmpl_names = ["a/_b.j2", "_b.j2", "a/__init__.py.j2", "__init__.py.j2", "_a/b.py.j2", "a/_/x", "a/", "", "/",
              "a/__init__.py", "a/___init__.py.j2", "_", "a/b/_c/_d.py.j2", "a\\_b.j2"]
def is_private(t):
    if hasattr(generator, "_is_private_template"):
        return generator._is_private_template(t)
    fn = t.split("/")[-1]
    return fn.startswith("_") and fn != "__init__.py.j2"
probe["private"] = {t: is_private(t) for t in tmpl_names}

check_origin()
with open(os.path.join(outdir, "probe.json"), "w") as fh:
    json.dump(probe, fh, sort_keys=True, indent=1)
'''

# --------------------------------------------------------------------------
# Driver
# --------------------------------------------------------------------------


def load_response(path):
    """Return ({name: content}, [names in order], supported_features) or an error string."""
    data = open(path, "rb").read()
    if data.startswith(b"EXCEPTION "):
        return data.decode()
    res = plugin_pb2.CodeGeneratorResponse.FromString(data)
    names = [f.name for f in res.file]
    return {
        "names": names,
        "files": {f.name: f.content for f in res.file},
        "features": res.supported_features,
        "error": res.error,
        "raw": hashlib.sha256(data).hexdigest(),
    }


def main(argv):
    if len(argv) != 2:
        print(__doc__)
        return 2
    checkout = os.path.abspath(argv[1])
    tmp = tempfile.mkdtemp(prefix="twin-T11-")
    try:
        base = os.path.join(tmp, "base")
        os.makedirs(base)
        archive = subprocess.Popen(
            ["git", "-C", checkout, "archive", "HEAD"], stdout=subprocess.PIPE
        )
        subprocess.check_call(["tar", "-x", "-C", base], stdin=archive.stdout)
        if archive.wait() != 0:
            raise RuntimeError("git archive failed")

        work = os.path.join(tmp, "work")
        os.makedirs(work)
        for name, build in CASES:
            with open(os.path.join(work, name + ".req"), "wb") as fh:
                fh.write(build().SerializeToString(deterministic=True))
        with open(os.path.join(work, "cases.json"), "w") as fh:
            json.dump([n for n, _ in CASES], fh)
        runner = os.path.join(work, "runner.py")
        with open(runner, "w") as fh:
            fh.write(RUNNER)

        env = dict(os.environ, PYTHONDONTWRITEBYTECODE="1", PYTHONHASHSEED="0")
        env.pop("PYTHONPATH", None)
        procs = {
            label: subprocess.Popen(
                [sys.executable, runner, tree, work, label],
                env=env, stdout=subprocess.PIPE, stderr=subprocess.STDOUT,
            )
            for label, tree in (("base", base), ("changed", checkout))
        }
        for label, proc in procs.items():
            out, _ = proc.communicate(timeout=600)
            if proc.returncode != 0:
                print(f"runner for the {label} tree failed:\n{out.decode()}")
                return 1

        problems = []
        total_files = 0
        generated_cases = 0
        for name, _ in CASES:
            a = load_response(os.path.join(work, "out-base", name + ".res"))
            b = load_response(os.path.join(work, "out-changed", name + ".res"))
            if isinstance(a, str) or isinstance(b, str):
                if a != b:
                    problems.append(f"{name}: outcome differs: {a!r} vs {b!r}")
                else:
                    problems.append(f"{name}: generator raised in both trees: {a}")
                continue
            if a["error"] or b["error"]:
                problems.append(f"{name}: response.error set: {a['error']!r} / {b['error']!r}")
            if not a["names"]:
                problems.append(f"{name}: no files generated")
            if len(set(a["names"])) != len(a["names"]):
                problems.append(f"{name}: duplicate file names in the base response")
            generated_cases += 1
            total_files += len(a["names"])
            if a["names"] != b["names"]:
                for n in sorted(set(a["names"]) - set(b["names"])):
                    problems.append(f"{name}: only in base: {n}")
                for n in sorted(set(b["names"]) - set(a["names"])):
                    problems.append(f"{name}: only in changed: {n}")
                if sorted(a["names"]) == sorted(b["names"]):
                    problems.append(f"{name}: same files, different order")
            for n in a["names"]:
                if n in b["files"] and a["files"][n] != b["files"][n]:
                    problems.append(f"{name}: content differs: {n}")
            if a["features"] != b["features"]:
                problems.append(f"{name}: supported_features differ")
            if a["raw"] != b["raw"] and not any(p.startswith(name + ":") for p in problems):
                problems.append(f"{name}: serialized responses differ")

        pa = json.load(open(os.path.join(work, "out-base", "probe.json")))
        pb = json.load(open(os.path.join(work, "out-changed", "probe.json")))
        n_probes = 0
        for section in sorted(set(pa) | set(pb)):
            sa, sb = pa.get(section, {}), pb.get(section, {})
            for key in sorted(set(sa) | set(sb)):
                n_probes += 1
                if sa.get(key) != sb.get(key):
                    problems.append(
                        f"probe {section}[{key}]: {sa.get(key)!r} vs {sb.get(key)!r}"
                    )

        if problems:
            print(f"DIFFERENT: {len(problems)} problem(s)")
            for p in problems:
                print("  " + p)
            return 1
        print(
            f"IDENTICAL: {generated_cases} APIs, {total_files} output files and "
            f"{n_probes} helper probes match byte for byte between HEAD and the working tree"
        )
        return 0
    finally:
        shutil.rmtree(tmp, ignore_errors=True)


if __name__ == "__main__":
    sys.exit(main(sys.argv))
