#!/usr/bin/env python
"""Equivalence demo for the W01 refactoring (property C01).

Usage:  /venv/bin/python demo.py <path-to-a-checkout-with-the-change>

* exports the checkout's HEAD (pristine tree) with `git archive`,
* builds several API descriptions in Python (no protoc),
* runs the generator on each of them with the pristine tree and with the
  checkout's working tree, each in its own subprocess,
* compares the two sets of output files byte for byte.

Exit 0 + one summary line when everything is identical, exit 1 otherwise.
"""

import os
import pickle
import shutil
import subprocess
import sys
import tempfile


# --------------------------------------------------------------------------
# Worker: runs inside a subprocess, with exactly one `gapic` tree visible.
# --------------------------------------------------------------------------
def _isolate(tree):
    """Make `tree` the only provider of the `gapic` package."""
    import importlib

    tree = os.path.realpath(tree)
    # Drop the editable-install finder of /repo and its path hook entry.
    sys.meta_path[:] = [
        f
        for f in sys.meta_path
        if "__editable__" not in (getattr(f, "__module__", "") or "")
        and "__editable__" not in getattr(f, "__name__", "")
    ]
    sys.path_hooks[:] = [
        h for h in sys.path_hooks if "__editable__" not in (getattr(h, "__module__", "") or "")
    ]
    cleaned = []
    for entry in sys.path:
        if "__editable__" in entry:
            continue
        real = os.path.realpath(entry or os.getcwd())
        if real != tree and os.path.isdir(os.path.join(real, "gapic")):
            continue
        if entry in ("", "."):
            continue
        cleaned.append(entry)
    sys.path[:] = [tree] + [e for e in cleaned if os.path.realpath(e) != tree]
    sys.path_importer_cache.clear()
    importlib.invalidate_caches()
    for name in list(sys.modules):
        if name == "gapic" or name.startswith("gapic."):
            del sys.modules[name]
    return tree


def _check_origin(tree):
    prefix = os.path.join(tree, "gapic") + os.sep
    for name, mod in list(sys.modules.items()):
        if not (name == "gapic" or name.startswith("gapic.")) or mod is None:
            continue
        origin = getattr(mod, "__file__", None)
        if origin:
            assert os.path.realpath(origin).startswith(prefix), (name, origin)
        else:
            paths = [os.path.realpath(p) for p in list(mod.__path__)]
            assert paths and all((p + os.sep).startswith(prefix) for p in paths), (
                name,
                paths,
            )


def worker(tree, cases_path, out_path):
    tree = _isolate(tree)

    import pypandoc  # type: ignore

    def _fake_convert_text(text, to, format=None, extra_args=(), **kw):
        # pandoc is not installed; identical deterministic stub for both runs.
        return text

    pypandoc.convert_text = _fake_convert_text

    from google.protobuf import descriptor_pb2
    from gapic.generator import generator
    from gapic.schema import api
    from gapic.utils import Options

    with open(cases_path, "rb") as fh:
        cases = pickle.load(fh)

    results = {}
    for case in cases:
        fds = descriptor_pb2.FileDescriptorSet.FromString(case["fds"])
        import warnings

        with warnings.catch_warnings(record=True) as caught:
            warnings.simplefilter("always")
            opts = Options.build(case["opts"])
        for tdir in opts.templates:
            if not case.get("foreign_templates"):
                assert os.path.realpath(tdir).startswith(
                    os.path.join(tree, "gapic") + os.sep
                ), tdir
        api_schema = api.API.build(list(fds.file), opts=opts, package=case["package"])
        res = generator.Generator(opts).get_response(api_schema, opts)
        files = {}
        for f in res.file:
            assert f.name not in files, f.name
            files[f.name] = f.content
        # Record option parsing too (templates hold tree-specific paths).
        view = {
            k: (sorted(v) if isinstance(v, (set, frozenset)) else v)
            for k, v in vars(opts).items()
            if k not in ("templates",)
        }
        view["templates_rel"] = [
            os.path.relpath(os.path.realpath(t), tree) for t in opts.templates
        ]
        view["warnings"] = sorted(str(w.message) for w in caught)
        files["<options>"] = repr(sorted(view.items(), key=lambda kv: kv[0]))
        results[case["name"]] = files

    _check_origin(tree)
    with open(out_path, "wb") as fh:
        pickle.dump(results, fh)


# --------------------------------------------------------------------------
# Descriptor building helpers (main process; no gapic import here).
# --------------------------------------------------------------------------
def _imports():
    from google.protobuf import descriptor_pb2 as d

    return d


T = None  # FieldDescriptorProto, filled in main()


def fld(name, number, ftype, type_name=None, repeated=False, oneof=None, optional=False, opts=None):
    d = _imports()
    f = d.FieldDescriptorProto(name=name, number=number, type=ftype)
    f.label = d.FieldDescriptorProto.LABEL_REPEATED if repeated else d.FieldDescriptorProto.LABEL_OPTIONAL
    if type_name:
        f.type_name = type_name
    if oneof is not None:
        f.oneof_index = oneof
    if optional:
        f.proto3_optional = True
    if opts:
        opts(f.options)
    f.json_name = "".join(
        w if i == 0 else w.capitalize() for i, w in enumerate(name.split("_"))
    )
    return f


def msg(name, fields=(), nested=(), enums=(), oneofs=(), map_entry=False, resource=None):
    d = _imports()
    m = d.DescriptorProto(name=name)
    m.field.extend(fields)
    m.nested_type.extend(nested)
    m.enum_type.extend(enums)
    for o in oneofs:
        m.oneof_decl.add(name=o)
    if map_entry:
        m.options.map_entry = True
    if resource:
        from google.api import resource_pb2

        r = m.options.Extensions[resource_pb2.resource]
        r.type = resource[0]
        r.pattern.extend(resource[1])
    return m


def map_entry(name, key_type, val_type, val_type_name=None):
    d = _imports()
    F = d.FieldDescriptorProto
    return msg(
        name,
        fields=[fld("key", 1, key_type), fld("value", 2, val_type, val_type_name)],
        map_entry=True,
    )


def enum(name, values):
    d = _imports()
    e = d.EnumDescriptorProto(name=name)
    for i, v in enumerate(values):
        e.value.add(name=v, number=i)
    return e


def rpc(name, inp, out, http=None, sig=(), cs=False, ss=False, lro=None, deprecated=False, body=None):
    d = _imports()
    from google.api import annotations_pb2, client_pb2
    from google.longrunning import operations_pb2

    m = d.MethodDescriptorProto(name=name, input_type=inp, output_type=out)
    m.client_streaming = cs
    m.server_streaming = ss
    if http:
        verb, path = http
        rule = m.options.Extensions[annotations_pb2.http]
        setattr(rule, verb, path)
        if body:
            rule.body = body
    for s in sig:
        m.options.Extensions[client_pb2.method_signature].append(s)
    if lro:
        info = m.options.Extensions[operations_pb2.operation_info]
        info.response_type, info.metadata_type = lro
    if deprecated:
        m.options.deprecated = True
    return m


def svc(name, methods, host=None, scopes=None, version=None):
    d = _imports()
    from google.api import client_pb2

    s = d.ServiceDescriptorProto(name=name)
    s.method.extend(methods)
    if host:
        s.options.Extensions[client_pb2.default_host] = host
    if scopes:
        s.options.Extensions[client_pb2.oauth_scopes] = scopes
    if version:
        s.options.Extensions[client_pb2.api_version] = version
    return s


def fdp(name, package, deps=(), messages=(), enums=(), services=(), comments=()):
    d = _imports()
    f = d.FileDescriptorProto(name=name, package=package, syntax="proto3")
    f.dependency.extend(deps)
    f.message_type.extend(messages)
    f.enum_type.extend(enums)
    f.service.extend(services)
    for path, text in comments:
        loc = f.source_code_info.location.add()
        loc.path.extend(path)
        loc.leading_comments = text
    return f


def well_known(*modules):
    """FileDescriptorProtos (with transitive deps) of compiled pb2 modules."""
    d = _imports()
    seen, out = set(), []

    def visit(fd):
        if fd.name in seen:
            return
        seen.add(fd.name)
        for dep in fd.dependencies:
            visit(dep)
        p = d.FileDescriptorProto()
        fd.CopyToProto(p)
        out.append(p)

    for m in modules:
        visit(m.DESCRIPTOR)
    return out


def fds_bytes(files):
    d = _imports()
    s = d.FileDescriptorSet()
    s.file.extend(files)
    return s.SerializeToString(deterministic=True)


# --------------------------------------------------------------------------
# The API descriptions.
# --------------------------------------------------------------------------
def build_cases(scratch):
    d = _imports()
    F = d.FieldDescriptorProto
    from google.api import annotations_pb2, client_pb2, field_behavior_pb2, resource_pb2
    from google.longrunning import operations_pb2
    from google.protobuf import (
        any_pb2,
        duration_pb2,
        empty_pb2,
        field_mask_pb2,
        struct_pb2,
        timestamp_pb2,
    )
    from google.iam.v1 import iam_policy_pb2, policy_pb2
    from google.cloud.location import locations_pb2

    common = well_known(
        annotations_pb2,
        client_pb2,
        field_behavior_pb2,
        resource_pb2,
        operations_pb2,
        any_pb2,
        duration_pb2,
        empty_pb2,
        field_mask_pb2,
        struct_pb2,
        timestamp_pb2,
        iam_policy_pb2,
        policy_pb2,
        locations_pb2,
    )
    common_names = [f.name for f in common]

    cases = []

    # ---- 1. library: LRO, paging (message / primitive / map), streaming,
    #         maps, oneofs, nested types, proto3 optional, resources.
    P = "google.cloud.library.v1"
    book = msg(
        "Book",
        fields=[
            fld("name", 1, F.TYPE_STRING),
            fld("title", 2, F.TYPE_STRING),
            fld("genre", 3, F.TYPE_ENUM, f".{P}.Book.Genre"),
            fld("labels", 4, F.TYPE_MESSAGE, f".{P}.Book.LabelsEntry", repeated=True),
            fld("isbn", 5, F.TYPE_STRING, oneof=0),
            fld("serial", 6, F.TYPE_INT64, oneof=0),
            fld("rating", 7, F.TYPE_DOUBLE, oneof=1, optional=True),
            fld("chapters", 8, F.TYPE_MESSAGE, f".{P}.Book.Chapter", repeated=True),
            fld("published", 9, F.TYPE_MESSAGE, ".google.protobuf.Timestamp"),
            fld("sequel", 10, F.TYPE_MESSAGE, f".{P}.Book"),
            fld("extra", 11, F.TYPE_MESSAGE, ".google.protobuf.Any"),
        ],
        nested=[
            map_entry("LabelsEntry", F.TYPE_STRING, F.TYPE_STRING),
            msg(
                "Chapter",
                fields=[
                    fld("title", 1, F.TYPE_STRING),
                    fld("pages", 2, F.TYPE_INT32),
                    fld("next", 3, F.TYPE_MESSAGE, f".{P}.Book.Chapter"),
                    fld("notes", 4, F.TYPE_MESSAGE, f".{P}.Book.Note", repeated=True),
                ],
            ),
            msg("Note", fields=[fld("text", 1, F.TYPE_STRING)]),
        ],
        enums=[enum("Genre", ["GENRE_UNSPECIFIED", "FICTION", "SCIENCE"])],
        oneofs=["identifier", "_rating"],
        resource=("library.googleapis.com/Book", ["shelves/{shelf}/books/{book}"]),
    )
    shelf = msg(
        "Shelf",
        fields=[fld("name", 1, F.TYPE_STRING), fld("theme", 2, F.TYPE_STRING)],
        resource=("library.googleapis.com/Shelf", ["shelves/{shelf}"]),
    )
    types_file = fdp(
        "google/cloud/library/v1/resources.proto",
        P,
        deps=["google/api/resource.proto", "google/protobuf/timestamp.proto", "google/protobuf/any.proto"],
        messages=[book, shelf],
        enums=[enum("Visibility", ["VISIBILITY_UNSPECIFIED", "PUBLIC", "PRIVATE"])],
        comments=[
            ([4, 0], " A single book in the library.\n Has a `name` and *labels*.\n"),
            ([4, 1], " A shelf.\n"),
        ],
    )
    req_msgs = [
        msg("GetBookRequest", fields=[fld("name", 1, F.TYPE_STRING)]),
        msg(
            "ListBooksRequest",
            fields=[
                fld("parent", 1, F.TYPE_STRING),
                fld("page_size", 2, F.TYPE_INT32),
                fld("page_token", 3, F.TYPE_STRING),
                fld("filter", 4, F.TYPE_STRING),
            ],
        ),
        msg(
            "ListBooksResponse",
            fields=[
                fld("books", 1, F.TYPE_MESSAGE, f".{P}.Book", repeated=True),
                fld("next_page_token", 2, F.TYPE_STRING),
            ],
        ),
        msg(
            "ListTagsRequest",
            fields=[
                fld("parent", 1, F.TYPE_STRING),
                fld("page_size", 2, F.TYPE_INT32),
                fld("page_token", 3, F.TYPE_STRING),
            ],
        ),
        msg(
            "ListTagsResponse",
            fields=[
                fld("tags", 1, F.TYPE_STRING, repeated=True),
                fld("next_page_token", 2, F.TYPE_STRING),
            ],
        ),
        msg(
            "ListShelfMapRequest",
            fields=[
                fld("parent", 1, F.TYPE_STRING),
                fld("page_size", 2, F.TYPE_INT32),
                fld("page_token", 3, F.TYPE_STRING),
            ],
        ),
        msg(
            "ListShelfMapResponse",
            fields=[
                fld("shelves", 1, F.TYPE_MESSAGE, f".{P}.ListShelfMapResponse.ShelvesEntry", repeated=True),
                fld("next_page_token", 2, F.TYPE_STRING),
            ],
            nested=[map_entry("ShelvesEntry", F.TYPE_STRING, F.TYPE_MESSAGE, f".{P}.Shelf")],
        ),
        msg(
            "CreateBookRequest",
            fields=[
                fld("parent", 1, F.TYPE_STRING),
                fld("book", 2, F.TYPE_MESSAGE, f".{P}.Book"),
                fld("update_mask", 3, F.TYPE_MESSAGE, ".google.protobuf.FieldMask"),
            ],
        ),
        msg("CreateBookMetadata", fields=[fld("progress", 1, F.TYPE_INT32)]),
        msg("DeleteBookRequest", fields=[fld("name", 1, F.TYPE_STRING)]),
        msg("StreamBooksRequest", fields=[fld("parent", 1, F.TYPE_STRING)]),
    ]
    library = svc(
        "Library",
        [
            rpc("GetBook", f".{P}.GetBookRequest", f".{P}.Book", http=("get", "/v1/{name=shelves/*/books/*}"), sig=["name"]),
            rpc("ListBooks", f".{P}.ListBooksRequest", f".{P}.ListBooksResponse", http=("get", "/v1/{parent=shelves/*}/books"), sig=["parent"]),
            rpc("ListTags", f".{P}.ListTagsRequest", f".{P}.ListTagsResponse", http=("get", "/v1/{parent=shelves/*}/tags")),
            rpc("ListShelfMap", f".{P}.ListShelfMapRequest", f".{P}.ListShelfMapResponse", http=("get", "/v1/{parent=shelves/*}/map")),
            rpc(
                "CreateBook",
                f".{P}.CreateBookRequest",
                ".google.longrunning.Operation",
                http=("post", "/v1/{parent=shelves/*}/books"),
                body="book",
                sig=["parent,book", ""],
                lro=("Book", "CreateBookMetadata"),
            ),
            rpc("DeleteBook", f".{P}.DeleteBookRequest", ".google.protobuf.Empty", http=("delete", "/v1/{name=shelves/*/books/*}"), deprecated=True),
            rpc("StreamBooks", f".{P}.StreamBooksRequest", f".{P}.Book", ss=True, http=("get", "/v1/{parent=shelves/*}/books:stream")),
            rpc("UploadBooks", f".{P}.Book", f".{P}.Shelf", cs=True),
            rpc("Chat", f".{P}.Book", f".{P}.Book", cs=True, ss=True),
        ],
        host="library.googleapis.com",
        scopes="https://www.googleapis.com/auth/cloud-platform,https://www.googleapis.com/auth/books",
        version="2024-01-01",
    )
    # A second service, without paging and without LRO.
    catalog = svc(
        "CatalogReader",
        [rpc("ReadShelf", f".{P}.GetBookRequest", f".{P}.Shelf", http=("get", "/v1/{name=shelves/*}"))],
        host="library.googleapis.com",
    )
    svc_file = fdp(
        "google/cloud/library/v1/library.proto",
        P,
        deps=[
            "google/api/annotations.proto",
            "google/api/client.proto",
            "google/longrunning/operations.proto",
            "google/protobuf/empty.proto",
            "google/protobuf/field_mask.proto",
            "google/cloud/library/v1/resources.proto",
        ],
        messages=req_msgs,
        services=[library, catalog],
        comments=[([6, 0], " The library service.\n"), ([6, 0, 2, 0], " Gets a book.\n")],
    )
    lib_fds = fds_bytes(common + [types_file, svc_file])
    cases.append(dict(name="library-default", fds=lib_fds, package=P, opts=""))
    cases.append(dict(name="library-grpc+rest", fds=lib_fds, package=P, opts="transport=grpc+rest,metadata,autogen-snippets=false"))
    cases.append(dict(name="library-rest-numeric", fds=lib_fds, package=P, opts="transport=rest,rest-numeric-enums,autogen-snippets=False"))

    # ---- 2. collisions, reserved module names, sub-packages, cross package.
    Q = "google.cloud.odd_things.v1"
    type_file = fdp(
        "google/cloud/odd_things/v1/type.proto",  # module `type` is reserved
        Q,
        messages=[
            msg(
                "Kind",
                fields=[fld("class", 1, F.TYPE_STRING), fld("from", 2, F.TYPE_INT32)],
                nested=[msg("Inner", fields=[fld("in", 1, F.TYPE_BOOL)])],
            )
        ],
        enums=[enum("Flavor", ["FLAVOR_UNSPECIFIED", "None", "True"])],
    )
    resources_file = fdp(
        "google/cloud/odd_things/v1/resources.proto",
        Q,
        deps=["google/cloud/odd_things/v1/type.proto"],
        messages=[
            msg(
                "Thing",
                fields=[
                    fld("name", 1, F.TYPE_STRING),
                    fld("kind", 2, F.TYPE_MESSAGE, f".{Q}.Kind"),
                    fld("inner", 3, F.TYPE_MESSAGE, f".{Q}.Kind.Inner"),
                    fld("flavor", 4, F.TYPE_ENUM, f".{Q}.Flavor"),
                ],
            )
        ],
    )
    sub_file = fdp(
        "google/cloud/odd_things/v1/deep/extras.proto",
        Q + ".deep",
        deps=["google/cloud/odd_things/v1/resources.proto", "google/api/client.proto", "google/api/annotations.proto"],
        messages=[
            msg(
                "Extra",
                fields=[
                    fld("thing", 1, F.TYPE_MESSAGE, f".{Q}.Thing"),
                    fld("resources", 2, F.TYPE_STRING, repeated=True),
                ],
            ),
            msg(
                "ListExtrasRequest",
                fields=[fld("page_size", 1, F.TYPE_INT32), fld("page_token", 2, F.TYPE_STRING)],
            ),
            msg(
                "ListExtrasResponse",
                fields=[
                    fld("extras", 1, F.TYPE_MESSAGE, f".{Q}.deep.Extra", repeated=True),
                    fld("next_page_token", 2, F.TYPE_STRING),
                ],
            ),
        ],
        services=[
            svc(
                "DeepService",
                [
                    rpc("GetExtra", f".{Q}.Thing", f".{Q}.deep.Extra", http=("post", "/v1/extras:get"), body="*"),
                    rpc("ListExtras", f".{Q}.deep.ListExtrasRequest", f".{Q}.deep.ListExtrasResponse", http=("get", "/v1/extras")),
                ],
                host="odd.example.com",
            )
        ],
    )
    # An external, non proto-plus package and an external proto-plus package.
    ext_pb2 = fdp(
        "acme/common/money.proto",
        "acme.common",
        messages=[msg("Money", fields=[fld("units", 1, F.TYPE_INT64)])],
    )
    ext_plus = fdp(
        "acme/shared/v2/resources.proto",
        "acme.shared.v2",
        messages=[msg("Label", fields=[fld("key", 1, F.TYPE_STRING)])],
    )
    odd_service = fdp(
        "google/cloud/odd_things/v1/service.proto",
        Q,
        deps=[
            "google/api/annotations.proto",
            "google/api/client.proto",
            "google/cloud/odd_things/v1/resources.proto",
            "google/cloud/odd_things/v1/type.proto",
            "acme/common/money.proto",
            "acme/shared/v2/resources.proto",
            "google/protobuf/duration.proto",
            "google/protobuf/struct.proto",
        ],
        messages=[
            msg(
                "UpdateThingRequest",
                fields=[
                    # `resources` and `type` collide with imported modules.
                    fld("resources", 1, F.TYPE_MESSAGE, f".{Q}.Thing", repeated=True),
                    fld("type", 2, F.TYPE_MESSAGE, f".{Q}.Kind"),
                    fld("money", 3, F.TYPE_MESSAGE, ".acme.common.Money"),
                    fld("label", 4, F.TYPE_MESSAGE, ".acme.shared.v2.Label"),
                    fld("duration", 5, F.TYPE_MESSAGE, ".google.protobuf.Duration"),
                    fld("struct", 6, F.TYPE_MESSAGE, ".google.protobuf.Struct"),
                    fld("request", 7, F.TYPE_STRING),
                ],
            ),
            msg(
                "ListThingsRequest",
                fields=[
                    fld("page_size", 1, F.TYPE_INT32),
                    fld("page_token", 2, F.TYPE_STRING),
                    fld("money", 3, F.TYPE_MESSAGE, ".acme.common.Money"),
                ],
            ),
            msg(
                "ListThingsResponse",
                fields=[
                    fld("resources", 1, F.TYPE_MESSAGE, f".{Q}.Thing", repeated=True),
                    fld("next_page_token", 2, F.TYPE_STRING),
                ],
            ),
            msg(
                "ListLabelsResponse",
                fields=[
                    fld("labels", 1, F.TYPE_MESSAGE, ".acme.shared.v2.Label", repeated=True),
                    fld("next_page_token", 2, F.TYPE_STRING),
                ],
            ),
        ],
        services=[
            svc(
                "OddService",
                [
                    rpc("UpdateThing", f".{Q}.UpdateThingRequest", f".{Q}.Thing", http=("patch", "/v1/things"), body="*", sig=["resources,type", "money,label"]),
                    rpc("ListThings", f".{Q}.ListThingsRequest", f".{Q}.ListThingsResponse", http=("get", "/v1/things")),
                    rpc("ListLabels", f".{Q}.ListThingsRequest", f".{Q}.ListLabelsResponse", http=("get", "/v1/labels")),
                    rpc("PriceThing", f".{Q}.Thing", ".acme.common.Money", http=("post", "/v1/things:price"), body="*"),
                    rpc("LabelThing", ".acme.shared.v2.Label", f".{Q}.Kind", http=("post", "/v1/things:label"), body="*"),
                ],
                host="odd.example.com",
            ),
            svc("Import", [rpc("Yield", f".{Q}.Kind", f".{Q}.Kind.Inner")]),
        ],
    )
    odd_fds = fds_bytes(common + [ext_pb2, ext_plus, type_file, resources_file, sub_file, odd_service])
    # Snippet generation cannot cope with services in proto sub-packages
    # (KeyError in both trees), so the snippet-enabled variant drops that service.
    sub_file_no_service = d.FileDescriptorProto()
    sub_file_no_service.CopyFrom(sub_file)
    del sub_file_no_service.service[:]
    odd_nosub_fds = fds_bytes(
        common + [ext_pb2, ext_plus, type_file, resources_file, sub_file_no_service, odd_service]
    )
    cases.append(dict(name="odd-default", fds=odd_fds, package=Q, opts="transport=grpc+rest,autogen-snippets=false"))
    cases.append(
        dict(
            name="odd-proto-plus-deps",
            fds=odd_nosub_fds,
            package=Q,
            opts="proto-plus-deps=acme.shared.v2+acme.nothing.v1,autogen-snippets=t,"
            "python-gapic-namespace=acme,python-gapic-name=oddities,warehouse-package-name=acme-oddities,"
            "python-gapic-bogus=1,lazy-import",
        )
    )
    cases.append(
        dict(
            name="odd-ads",
            fds=odd_fds,
            package=Q,
            opts="old-naming,python-gapic-templates=ads-templates,proto-plus-deps=acme.shared.v2",
        )
    )

    # ---- 3. mixins through a service yaml; no namespace; IAM option.
    R = "zoo.v1beta1"
    zoo = fdp(
        "zoo/v1beta1/zoo.proto",
        R,
        deps=["google/api/annotations.proto", "google/api/client.proto", "google/longrunning/operations.proto", "google/protobuf/empty.proto"],
        messages=[
            msg("Animal", fields=[fld("name", 1, F.TYPE_STRING), fld("legs", 2, F.TYPE_INT32, optional=True, oneof=0)], oneofs=["_legs"]),
            msg("FeedRequest", fields=[fld("animal", 1, F.TYPE_MESSAGE, f".{R}.Animal"), fld("food", 2, F.TYPE_STRING)]),
        ],
        services=[
            svc(
                "Keeper",
                [
                    rpc("Feed", f".{R}.FeedRequest", f".{R}.Animal", http=("post", "/v1beta1/animals:feed"), body="*", sig=["animal,food"]),
                    rpc("Release", f".{R}.Animal", ".google.protobuf.Empty", http=("post", "/v1beta1/animals:release"), body="*"),
                ],
                host="zoo.example.com",
            ),
            svc(
                "Breeder",
                [
                    rpc("Breed", f".{R}.Animal", ".google.longrunning.Operation", http=("post", "/v1beta1/animals:breed"), body="*", lro=("Animal", "google.protobuf.Empty")),
                ],
                host="zoo.example.com",
            ),
        ],
    )
    zoo_fds = fds_bytes(common + [zoo])
    yaml_path = os.path.join(scratch, "zoo_v1beta1.yaml")
    with open(yaml_path, "w") as fh:
        fh.write(
            "type: google.api.Service\n"
            "config_version: 3\n"
            "name: zoo.example.com\n"
            "title: Zoo API\n"
            "apis:\n"
            "- name: zoo.v1beta1.Keeper\n"
            "- name: google.cloud.location.Locations\n"
            "- name: google.iam.v1.IAMPolicy\n"
            "- name: google.longrunning.Operations\n"
            "http:\n"
            "  rules:\n"
            "  - selector: google.cloud.location.Locations.GetLocation\n"
            "    get: '/v1beta1/{name=projects/*/locations/*}'\n"
            "  - selector: google.cloud.location.Locations.ListLocations\n"
            "    get: '/v1beta1/{name=projects/*}/locations'\n"
            "  - selector: google.iam.v1.IAMPolicy.GetIamPolicy\n"
            "    get: '/v1beta1/{resource=animals/*}:getIamPolicy'\n"
            "  - selector: google.iam.v1.IAMPolicy.SetIamPolicy\n"
            "    post: '/v1beta1/{resource=animals/*}:setIamPolicy'\n"
            "    body: '*'\n"
            "  - selector: google.iam.v1.IAMPolicy.TestIamPermissions\n"
            "    post: '/v1beta1/{resource=animals/*}:testIamPermissions'\n"
            "    body: '*'\n"
            "  - selector: google.longrunning.Operations.GetOperation\n"
            "    get: '/v1beta1/{name=operations/*}'\n"
            "  - selector: google.longrunning.Operations.ListOperations\n"
            "    get: '/v1beta1/{name=operations}'\n"
            "  - selector: google.longrunning.Operations.CancelOperation\n"
            "    post: '/v1beta1/{name=operations/*}:cancel'\n"
            "    body: '*'\n"
            "  - selector: google.longrunning.Operations.DeleteOperation\n"
            "    delete: '/v1beta1/{name=operations/*}'\n"
        )
    cases.append(dict(name="zoo-plain", fds=zoo_fds, package=R, opts="autogen-snippets=false"))
    cases.append(dict(name="zoo-mixins", fds=zoo_fds, package=R, opts=f"service-yaml={yaml_path},transport=grpc+rest,autogen-snippets=TRUE"))
    cases.append(dict(name="zoo-mixins-rest", fds=zoo_fds, package=R, opts=f"service-yaml={yaml_path},transport=rest,autogen-snippets=no"))
    cases.append(dict(name="zoo-iam", fds=zoo_fds, package=R, opts="add-iam-methods,autogen-snippets=F,python-gapic-templates=DEFAULT,python-gapic-templates=templates/../templates"))

    # ---- 4. messages only (no services), plus a service without any RPC.
    S = "google.tiny.v3"
    tiny = fdp(
        "google/tiny/v3/tiny.proto",
        S,
        deps=["google/api/client.proto"],
        messages=[msg("Dot", fields=[fld("x", 1, F.TYPE_FLOAT), fld("any", 2, F.TYPE_BYTES)])],
        services=[svc("Idle", [], host="tiny.example.com")],
    )
    cases.append(dict(name="tiny", fds=fds_bytes(common + [tiny]), package=S, opts="transport=grpc+rest"))

    return cases


# --------------------------------------------------------------------------
def main(argv):
    if len(argv) >= 2 and argv[1] == "--worker":
        worker(argv[2], argv[3], argv[4])
        return 0
    if len(argv) != 2:
        print("usage: demo.py <checkout>", file=sys.stderr)
        return 2

    checkout = os.path.realpath(argv[1])
    scratch = tempfile.mkdtemp(prefix="twin-demo-W01-")
    try:
        pristine = os.path.join(scratch, "pristine")
        os.makedirs(pristine)
        archive = subprocess.Popen(["git", "-C", checkout, "archive", "HEAD"], stdout=subprocess.PIPE)
        subprocess.check_call(["tar", "-x", "-C", pristine], stdin=archive.stdout)
        archive.stdout.close()
        if archive.wait() != 0:
            raise RuntimeError("git archive failed")

        cases = build_cases(scratch)
        cases_path = os.path.join(scratch, "cases.pkl")
        with open(cases_path, "wb") as fh:
            pickle.dump(cases, fh)

        outputs = {}
        env = dict(os.environ, PYTHONHASHSEED="0", PYTHONDONTWRITEBYTECODE="1")
        env.pop("PYTHONPATH", None)
        for label, tree in (("pristine", pristine), ("changed", checkout)):
            out_path = os.path.join(scratch, f"out-{label}.pkl")
            subprocess.check_call(
                [sys.executable, os.path.abspath(__file__), "--worker", tree, cases_path, out_path],
                env=env,
                cwd=scratch,
            )
            with open(out_path, "rb") as fh:
                outputs[label] = pickle.load(fh)

        diffs, total = [], 0
        for case in cases:
            a = outputs["pristine"][case["name"]]
            b = outputs["changed"][case["name"]]
            assert len(a) > 5, (case["name"], len(a))
            for fname in sorted(set(a) | set(b)):
                total += 1
                if fname not in a:
                    diffs.append(f"{case['name']}: only in changed: {fname}")
                elif fname not in b:
                    diffs.append(f"{case['name']}: only in pristine: {fname}")
                elif a[fname] != b[fname]:
                    diffs.append(f"{case['name']}: differs: {fname}")
        if diffs:
            print("DIFFERENCES (%d):" % len(diffs))
            for line in diffs:
                print("  " + line)
            return 1
        print(f"OK: {len(cases)} API/option cases, {total} output files identical between pristine HEAD and the changed tree")
        return 0
    finally:
        shutil.rmtree(scratch, ignore_errors=True)


if __name__ == "__main__":
    sys.exit(main(sys.argv))
