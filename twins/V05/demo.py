#!/usr/bin/env python
"""Differential check for the V05 refactoring (property C05: flattened keyword
arguments are equivalent to an explicit request object).

    /venv/bin/python demo.py <checkout-with-the-change>

The checkout's HEAD is exported with ``git archive`` (the "head" tree) and
compared against the checkout's working tree (the "work" tree).  Several API
descriptions are built as FileDescriptorProtos in Python, serialised to a
file, and rendered by the generator of each tree in its own subprocess.  All
generated files (names and contents), the same files rendered with the
``fix_whitespace`` post-processing disabled, and a textual dump of the
refactored schema helpers must be byte-identical.

Exit status 0 and a one-line summary when identical, 1 and the list of
differing files otherwise.
"""
import hashlib
import json
import os
import shutil
import subprocess
import sys
import tempfile


# ===========================================================================
# Worker side (one subprocess per tree)
# ===========================================================================
def _only_this_tree(tree):
    """Put ``tree`` first on sys.path and remove every other ``gapic`` source."""
    tree = os.path.realpath(tree)

    def _is_editable(obj):
        text = " ".join(
            str(getattr(obj, attr, "") or "")
            for attr in ("__module__", "__name__", "__qualname__")
        ) + " " + type(obj).__name__ + " " + type(obj).__module__
        return "editable" in text.lower()

    sys.meta_path[:] = [f for f in sys.meta_path if not _is_editable(f)]
    sys.path_hooks[:] = [h for h in sys.path_hooks if not _is_editable(h)]

    others = []
    for entry in sys.path:
        if "__editable__" in entry:
            continue
        real = os.path.realpath(entry or os.getcwd())
        if real == tree:
            continue
        if os.path.isdir(os.path.join(real, "gapic")):
            continue
        others.append(entry)
    sys.path[:] = [tree] + others
    sys.path_importer_cache.clear()
    for name in [n for n in sys.modules if n == "gapic" or n.startswith("gapic.")]:
        del sys.modules[name]
    return tree


def _probe_get_field(message, lines):
    """Record what MessageType.get_field returns / raises for assorted paths."""
    probes = []
    for name, field in message.fields.items():
        raw = field.field_pb.name
        probes.append((raw,))
        if field.message and not field.repeated:
            for sub in field.message.fields.values():
                sub_raw = sub.field_pb.name
                probes.append((raw, sub_raw))
                probes.append((raw + "." + sub_raw,))
                if sub.message and not sub.repeated:
                    for leaf in sub.message.fields.values():
                        probes.append((raw, sub_raw + "." + leaf.field_pb.name))
                        probes.append((raw, sub_raw, leaf.field_pb.name))
        else:
            probes.append((raw, "child"))
    probes += [("no_such_field",), ("",), ()]
    for probe in probes:
        for collisions in (None, frozenset({"gapic_demo", "name"})):
            try:
                got = message.get_field(*probe, collisions=collisions)
                text = "%s %s rep=%s map=%s coll=%s" % (
                    got.name,
                    got.ident,
                    got.repeated,
                    got.map,
                    sorted(got.meta.address.collisions),
                )
            except Exception as exc:  # recorded, both trees must agree
                text = "%s: %s" % (type(exc).__name__, exc)
            lines.append("    get_field%r coll=%s -> %s" % (
                probe, "default" if collisions is None else "given", text))


def run_worker(tree, cases_path, result_path):
    tree = _only_this_tree(tree)

    # pandoc is unavailable: replace the conversion by the same pure-Python
    # function in both runs.
    import pypandoc  # type: ignore

    def fake_convert_text(source, to, format=None, extra_args=(), **kwargs):
        return "\n".join(part.rstrip() for part in str(source).splitlines())

    pypandoc.convert_text = fake_convert_text

    from google.protobuf import descriptor_pb2

    import gapic
    from gapic.generator import Generator
    from gapic.schema.api import API
    from gapic.utils import Options

    assert [os.path.realpath(p) for p in gapic.__path__] == [
        os.path.join(tree, "gapic")
    ], list(gapic.__path__)

    with open(cases_path) as fh:
        cases = json.load(fh)

    results = {}
    for case in cases:
        protos = [
            descriptor_pb2.FileDescriptorProto.FromString(bytes.fromhex(blob))
            for blob in case["files"]
        ]
        opts = Options.build(case["options"])
        assert opts.templates, "no template directory"
        for template_dir in opts.templates:
            assert os.path.realpath(template_dir).startswith(
                os.path.join(tree, "gapic") + os.sep
            ), template_dir
        api = API.build(protos, package=case["package"], opts=opts)
        response = Generator(opts).get_response(api, opts)
        rendered = {}
        for out in response.file:
            assert out.name not in rendered, out.name
            rendered[out.name] = out.content

        # Second rendering with the whitespace post-processing switched off,
        # so that differences which ``fix_whitespace`` would hide (blank
        # lines, trailing blanks) are compared as well.
        from gapic.generator import formatter

        original_fix = formatter.fix_whitespace
        formatter.fix_whitespace = lambda code: code
        try:
            raw_response = Generator(opts).get_response(api, opts)
        finally:
            formatter.fix_whitespace = original_fix
        for out in raw_response.file:
            rendered["__raw__/" + out.name] = out.content

        # Direct dump of the refactored schema helpers.
        lines = []
        for service in api.services.values():
            for method in service.methods.values():
                lines.append("%s.%s" % (service.name, method.name))
                flattened = method.flattened_fields
                lines.append("  flattened_fields (%s): %r" % (
                    type(flattened).__name__,
                    [(k, f.name, str(f.ident), f.repeated, f.map)
                     for k, f in flattened.items()]))
                lines.append("  flattened_field_to_key (%s): %r" % (
                    type(method.flattened_field_to_key).__name__,
                    list(method.flattened_field_to_key.items())))
                body = method.body_fields
                lines.append("  body_fields (%s): %r" % (
                    type(body).__name__,
                    [(k, f.name) for k, f in body.items()]))
                for sigs in (["a,b"], ["name", "name.x"], [" name ,, name"]):
                    try:
                        mapping = method._fields_mapping(sigs)
                        text = repr([(k, f.name) for k, f in mapping.items()])
                    except Exception as exc:
                        text = "%s: %s" % (type(exc).__name__, exc)
                    lines.append("  _fields_mapping(%r) -> %s" % (sigs, text))
                _probe_get_field(method.input, lines)
        rendered["__schema_dump__.txt"] = "\n".join(lines) + "\n"
        results[case["name"]] = rendered

    # Every gapic module (and the templates, checked above) must come from
    # the tree under test.
    seen = 0
    for name, module in sorted(sys.modules.items()):
        if name != "gapic" and not name.startswith("gapic."):
            continue
        seen += 1
        origin = getattr(module, "__file__", None)
        if origin is None:
            paths = [os.path.realpath(p) for p in module.__path__]
            assert paths and all(p.startswith(tree + os.sep) for p in paths), (name, paths)
        else:
            assert os.path.realpath(origin).startswith(tree + os.sep), (name, origin)
    assert seen > 5, seen

    with open(result_path, "w") as fh:
        json.dump(results, fh)


# ===========================================================================
# Parent side: API descriptions
# ===========================================================================
def make_cases():
    from google.api import annotations_pb2, client_pb2, field_behavior_pb2
    from google.longrunning import operations_pb2
    from google.protobuf import descriptor_pb2 as pb
    from google.protobuf import (
        duration_pb2, empty_pb2, field_mask_pb2, struct_pb2, timestamp_pb2,
    )

    FD = pb.FieldDescriptorProto
    ONE, MANY = FD.LABEL_OPTIONAL, FD.LABEL_REPEATED

    def closure(*modules):
        done, ordered = set(), []

        def walk(file_desc):
            if file_desc.name in done:
                return
            done.add(file_desc.name)
            for dep in file_desc.dependencies:
                walk(dep)
            proto = pb.FileDescriptorProto()
            file_desc.CopyToProto(proto)
            ordered.append(proto)

        for module in modules:
            walk(module.DESCRIPTOR)
        return ordered

    well_known = closure(
        annotations_pb2, client_pb2, field_behavior_pb2, operations_pb2,
        empty_pb2, field_mask_pb2, struct_pb2, duration_pb2, timestamp_pb2,
    )
    well_known_names = [p.name for p in well_known]

    def field(name, number, kind, label=ONE, ref=None, oneof=None,
              proto3_optional=False, required=False):
        out = FD(name=name, number=number, type=kind, label=label)
        if ref:
            out.type_name = ref
        if oneof is not None:
            out.oneof_index = oneof
        if proto3_optional:
            out.proto3_optional = True
        if required:
            out.options.Extensions[field_behavior_pb2.field_behavior].append(
                field_behavior_pb2.FieldBehavior.Value("REQUIRED"))
        return out

    def string(name, number, **kw):
        return field(name, number, FD.TYPE_STRING, **kw)

    def integer(name, number, **kw):
        return field(name, number, FD.TYPE_INT64, **kw)

    def boolean(name, number, **kw):
        return field(name, number, FD.TYPE_BOOL, **kw)

    def sub(name, number, ref, **kw):
        return field(name, number, FD.TYPE_MESSAGE, ref=ref, **kw)

    def choice(name, number, ref, **kw):
        return field(name, number, FD.TYPE_ENUM, ref=ref, **kw)

    def message(package, name, fields, oneofs=(), maps=()):
        out = pb.DescriptorProto(name=name)
        for oneof in oneofs:
            out.oneof_decl.add(name=oneof)
        out.field.extend(fields)
        for map_name, number, value_field in maps:
            entry_name = "".join(w.capitalize() for w in map_name.split("_")) + "Entry"
            entry = out.nested_type.add(name=entry_name)
            entry.options.map_entry = True
            entry.field.append(string("key", 1))
            entry.field.append(value_field)
            out.field.append(sub(
                map_name, number, ".%s.%s.%s" % (package, name, entry_name),
                label=MANY))
        return out

    def enum(name, *values):
        out = pb.EnumDescriptorProto(name=name)
        for number, value in enumerate(values):
            out.value.add(name=value, number=number)
        return out

    def rpc(name, request, response, signatures=(), http=None, client_stream=False,
            server_stream=False, lro=None, deprecated=False):
        out = pb.MethodDescriptorProto(
            name=name, input_type=request, output_type=response,
            client_streaming=client_stream, server_streaming=server_stream)
        out.options.Extensions[client_pb2.method_signature].extend(signatures)
        if http:
            verb, uri, body = http
            rule = out.options.Extensions[annotations_pb2.http]
            setattr(rule, verb, uri)
            if body:
                rule.body = body
        if lro:
            info = out.options.Extensions[operations_pb2.operation_info]
            info.response_type, info.metadata_type = lro
        if deprecated:
            out.options.deprecated = True
        return out

    def service(name, host, rpcs):
        out = pb.ServiceDescriptorProto(name=name)
        out.options.Extensions[client_pb2.default_host] = host
        out.options.Extensions[client_pb2.oauth_scopes] = (
            "https://www.googleapis.com/auth/cloud-platform")
        out.method.extend(rpcs)
        return out

    def proto_file(path, package, deps, messages=(), enums=(), services=()):
        out = pb.FileDescriptorProto(name=path, package=package, syntax="proto3")
        out.dependency.extend(deps)
        out.message_type.extend(messages)
        out.enum_type.extend(enums)
        out.service.extend(services)
        # Comments, so that the docstring loops have text to render.  Some
        # contain markup characters and therefore go through the rst filter's
        # (stubbed) pandoc branch.
        info = out.source_code_info
        for m_index, msg in enumerate(out.message_type):
            info.location.add(path=[4, m_index], span=[0, 0, 0],
                              leading_comments=" Describes a %s.\n" % msg.name)
            for f_index, fld in enumerate(msg.field):
                if f_index % 2:
                    text = " The `%s` of this *%s*.\n More text.\n" % (fld.name, msg.name)
                else:
                    text = " The %s value.\n" % fld.name.replace("_", " ")
                info.location.add(path=[4, m_index, 2, f_index], span=[0, 0, 0],
                                  leading_comments=text)
        for s_index, svc in enumerate(out.service):
            info.location.add(path=[6, s_index], span=[0, 0, 0],
                              leading_comments=" The %s API.\n" % svc.name)
            for r_index, method in enumerate(svc.method):
                info.location.add(path=[6, s_index, 2, r_index], span=[0, 0, 0],
                                  leading_comments=" Performs %s.\n" % method.name)
        return out

    def blobs(protos):
        return [p.SerializeToString(deterministic=True).hex() for p in protos]

    EMPTY = ".google.protobuf.Empty"
    OPERATION = ".google.longrunning.Operation"
    cases = []

    # ------------------------------------------------------------------
    # 1. "catalog": requests in the API's own package, all field shapes.
    # ------------------------------------------------------------------
    pkg = "acme.catalog.v1"
    dot = "." + pkg
    catalog_messages = [
        message(pkg, "Product", [
            string("name", 1), string("display_name", 2), integer("stock", 3),
            string("global", 4), sub("origin", 5, dot + ".Origin"),
            string("keywords", 6, label=MANY),
        ], maps=[("attributes", 7, string("value", 2))]),
        message(pkg, "Origin", [
            string("from", 1), string("country", 2), sub("plant", 3, dot + ".Plant"),
            sub("history", 4, dot + ".Plant", label=MANY),
        ]),
        message(pkg, "Plant", [string("code", 1), string("lines", 2, label=MANY),
                               string("lambda", 3)]),
        message(pkg, "Progress", [integer("percent", 1)]),
        message(pkg, "GetProductRequest", [string("name", 1, required=True)]),
        message(pkg, "CreateProductRequest", [
            string("parent", 1, required=True),
            sub("product", 2, dot + ".Product", required=True),
            string("product_id", 3), boolean("validate_only", 4),
        ]),
        message(pkg, "UpdateProductRequest", [
            sub("product", 1, dot + ".Product"),
            sub("update_mask", 2, ".google.protobuf.FieldMask"),
            boolean("allow_missing", 3),
        ]),
        message(pkg, "DeleteProductRequest", [string("name", 1), string("etag", 2)]),
        message(pkg, "ListProductsRequest", [
            string("parent", 1), field("page_size", 2, FD.TYPE_INT32),
            string("page_token", 3), string("order_by", 4),
        ]),
        message(pkg, "ListProductsResponse", [
            sub("products", 1, dot + ".Product", label=MANY),
            string("next_page_token", 2),
        ]),
        message(pkg, "KeywordsRequest", [
            string("def", 1), string("from", 2), integer("in", 3), string("request", 4),
            string("retry", 5), string("metadata", 6), string("id", 7),
            sub("origin", 8, dot + ".Origin"), string("yield", 9, label=MANY),
            string("self", 10),
        ], maps=[("global", 11, integer("value", 2))]),
        message(pkg, "EverythingRequest", [
            string("ids", 1, label=MANY),
            sub("products", 2, dot + ".Product", label=MANY),
            sub("values", 3, ".google.protobuf.Value", label=MANY),
            sub("value", 4, ".google.protobuf.Value"),
            sub("list_value", 5, ".google.protobuf.ListValue"),
            sub("details", 6, ".google.protobuf.Struct"),
            choice("tier", 7, dot + ".Tier"),
            choice("tiers", 8, dot + ".Tier", label=MANY),
            string("by_name", 9, oneof=0), integer("by_number", 10, oneof=0),
            sub("by_product", 11, dot + ".Product", oneof=0),
            string("alias", 12, oneof=1, proto3_optional=True),
            field("raw", 13, FD.TYPE_BYTES), field("score", 14, FD.TYPE_FLOAT),
            sub("ttl", 15, ".google.protobuf.Duration"),
            sub("expire_time", 16, ".google.protobuf.Timestamp"),
            sub("durations", 17, ".google.protobuf.Duration", label=MANY),
        ], oneofs=("lookup", "_alias"), maps=[
            ("labels", 30, string("value", 2)),
            ("products_by_id", 31, sub("value", 2, dot + ".Product")),
            ("weights", 32, field("value", 2, FD.TYPE_DOUBLE)),
            ("values_by_key", 33, sub("value", 2, ".google.protobuf.Value")),
        ]),
        message(pkg, "EverythingResponse", [string("digest", 1)]),
        message(pkg, "PlainRequest", [string("name", 1), string("note", 2)]),
    ]
    catalog_rpcs = [
        rpc("GetProduct", dot + ".GetProductRequest", dot + ".Product", ["name"],
            ("get", "/v1/{name=products/*}", None)),
        rpc("CreateProduct", dot + ".CreateProductRequest", dot + ".Product",
            ["parent,product,product_id", "parent,product", "validate_only"],
            ("post", "/v1/{parent=stores/*}/products", "product")),
        rpc("UpdateProduct", dot + ".UpdateProductRequest", dot + ".Product",
            ["product,update_mask",
             "product.name, product.display_name ,product.global,product.origin.from,"
             "product.origin.plant.lines,product.origin.plant.lambda,product.attributes"],
            ("patch", "/v1/{product.name=products/*}", "product")),
        rpc("DeleteProduct", dot + ".DeleteProductRequest", EMPTY,
            ["name", "name,etag"], ("delete", "/v1/{name=products/*}", None)),
        rpc("ListProducts", dot + ".ListProductsRequest", dot + ".ListProductsResponse",
            ["parent", "parent,order_by"], ("get", "/v1/{parent=stores/*}/products", None)),
        rpc("Keywords", dot + ".KeywordsRequest", dot + ".Product",
            ["def,from,in,request,retry,metadata,id,yield,self,global",
             "origin.from,origin.country,origin.history"],
            ("post", "/v1/keywords", "*")),
        rpc("Everything", dot + ".EverythingRequest", dot + ".EverythingResponse",
            ["ids,products,values,value,list_value,details,tier,tiers",
             "by_name,by_number,by_product,alias",
             "raw,score,ttl,expire_time,durations",
             "labels,products_by_id,weights,values_by_key"],
            ("post", "/v1/everything", "*")),
        rpc("Plain", dot + ".PlainRequest", dot + ".Product", [],
            ("post", "/v1/plain", "*")),
        rpc("BlankSignature", dot + ".PlainRequest", dot + ".Product", [""],
            ("post", "/v1/blank", "*")),
        rpc("MixedSignatures", dot + ".PlainRequest", dot + ".Product",
            ["", "note", "note,,name", "name,"], ("post", "/v1/mixed", "note")),
        rpc("WatchProducts", dot + ".ListProductsRequest", dot + ".Product",
            ["parent,order_by"], ("get", "/v1/{parent=stores/*}/products:watch", None),
            server_stream=True),
        rpc("UploadProducts", dot + ".CreateProductRequest", dot + ".Product",
            ["parent"], client_stream=True),
        rpc("SyncProducts", dot + ".CreateProductRequest", dot + ".Product",
            ["parent,product"], client_stream=True, server_stream=True),
        rpc("ImportProducts", dot + ".CreateProductRequest", OPERATION,
            ["parent,product_id"], ("post", "/v1/{parent=stores/*}/products:import", "*"),
            lro=("Product", "Progress")),
        rpc("PurgeProducts", dot + ".DeleteProductRequest", OPERATION, ["name"],
            ("post", "/v1/{name=stores/*}:purge", "*"),
            lro=("google.protobuf.Empty", "Progress")),
        rpc("LegacyGetProduct", dot + ".GetProductRequest", dot + ".Product", ["name"],
            ("get", "/v1/{name=legacy/*}", None), deprecated=True),
        rpc("Noop", EMPTY, EMPTY, [], ("post", "/v1/noop", "*")),
    ]
    catalog = proto_file(
        "acme/catalog/v1/catalog.proto", pkg, well_known_names, catalog_messages,
        [enum("Tier", "TIER_UNSPECIFIED", "BASIC", "PREMIUM")],
        [service("Catalog", "catalog.acme.example", catalog_rpcs)])
    catalog_files = blobs(well_known + [catalog])
    cases.append({"name": "catalog:grpc", "package": pkg, "files": catalog_files,
                  "options": ""})
    cases.append({"name": "catalog:grpc+rest,numeric-enums", "package": pkg,
                  "files": catalog_files,
                  "options": "transport=grpc+rest,rest-numeric-enums"})

    # ------------------------------------------------------------------
    # 2. "directory": requests defined in a dependency package (not
    #    proto-plus wrapped) next to local ones.
    # ------------------------------------------------------------------
    shared_pkg, api_pkg = "acme.shared.types", "acme.directory.v2"
    sdot, adot = "." + shared_pkg, "." + api_pkg
    shared = proto_file(
        "acme/shared/types/types.proto", shared_pkg, well_known_names,
        [
            message(shared_pkg, "Scope", [string("expression", 1)]),
            message(shared_pkg, "SearchRequest", [
                string("query", 1), string("terms", 2, label=MANY),
                integer("limit", 3), sub("scope", 4, sdot + ".Scope"),
                choice("mode", 5, sdot + ".Mode"),
                field("shards", 6, FD.TYPE_INT32, label=MANY),
                boolean("exact", 7), sub("scopes", 8, sdot + ".Scope", label=MANY),
                string("class", 9), string("import", 10, label=MANY),
                choice("modes", 11, sdot + ".Mode", label=MANY),
                field("cursor", 12, FD.TYPE_BYTES),
            ], maps=[("hints", 13, string("value", 2))]),
            message(shared_pkg, "SearchResponse", [string("answer", 1)]),
            message(shared_pkg, "IdsRequest", [string("ids", 1, label=MANY)]),
            message(shared_pkg, "ScopeOnlyRequest", [sub("scope", 1, sdot + ".Scope")]),
        ],
        [enum("Mode", "MODE_UNSPECIFIED", "QUICK", "DEEP")])
    directory = proto_file(
        "acme/directory/v2/directory.proto", api_pkg,
        well_known_names + ["acme/shared/types/types.proto"],
        [message(api_pkg, "OwnRequest", [string("name", 1), string("nicknames", 2, label=MANY)],
                 maps=[("tags", 3, string("value", 2))]),
         message(api_pkg, "OwnResponse", [string("answer", 1)])],
        [],
        [service("Directory", "directory.acme.example", [
            rpc("Search", sdot + ".SearchRequest", sdot + ".SearchResponse",
                # ("class" / "import" cannot be named here: resolving a reserved
                # word in a non proto-plus message raises KeyError at HEAD too;
                # the get_field probes below still record that behaviour.)
                ["query,terms,limit,scope,mode,shards,exact,scopes,modes,"
                 "cursor,hints", "query", "scope.expression"],
                ("post", "/v2/search", "*")),
            rpc("SearchIds", sdot + ".IdsRequest", sdot + ".SearchResponse", ["ids"],
                ("post", "/v2/searchIds", "*")),
            rpc("SearchScope", sdot + ".ScopeOnlyRequest", sdot + ".SearchResponse",
                ["scope"], ("post", "/v2/searchScope", "*")),
            rpc("SearchPlain", sdot + ".SearchRequest", sdot + ".SearchResponse", [],
                ("post", "/v2/searchPlain", "*")),
            rpc("SearchStream", sdot + ".SearchRequest", sdot + ".SearchResponse",
                ["query,terms"], ("post", "/v2/searchStream", "*"), server_stream=True),
            rpc("SearchVoid", sdot + ".SearchRequest", EMPTY, ["terms,exact,query"],
                ("post", "/v2/searchVoid", "*")),
            rpc("SearchUpload", sdot + ".SearchRequest", sdot + ".SearchResponse",
                ["query"], client_stream=True),
            rpc("Own", adot + ".OwnRequest", adot + ".OwnResponse",
                ["name,nicknames,tags"], ("post", "/v2/own", "*")),
            rpc("OwnToShared", adot + ".OwnRequest", sdot + ".SearchResponse",
                ["nicknames"], ("post", "/v2/ownToShared", "*")),
            rpc("Reset", EMPTY, EMPTY, [], ("post", "/v2/reset", "*")),
            rpc("LongSearch", sdot + ".SearchRequest", OPERATION, ["query,limit,shards"],
                ("post", "/v2/longSearch", "*"),
                lro=("acme.shared.types.SearchResponse", "acme.shared.types.Scope")),
        ])])
    directory_files = blobs(well_known + [shared, directory])
    cases.append({"name": "directory:grpc", "package": api_pkg, "files": directory_files,
                  "options": ""})
    cases.append({"name": "directory:rest,no-snippets", "package": api_pkg,
                  "files": directory_files,
                  "options": "transport=rest,autogen-snippets=false"})

    # ------------------------------------------------------------------
    # 3. "fleet": several services, one of them in a sub-package which takes
    #    requests from the parent package; paging; REST body fields.
    # ------------------------------------------------------------------
    pkg = "acme.fleet.v1"
    dot = "." + pkg
    fleet_core = proto_file(
        "acme/fleet/v1/core.proto", pkg, well_known_names,
        [
            message(pkg, "Vehicle", [string("name", 1), string("drivers", 2, label=MANY)],
                    maps=[("sensors", 3, string("value", 2))]),
            message(pkg, "RegisterVehicleRequest", [
                string("parent", 1), sub("vehicle", 2, dot + ".Vehicle"),
                string("co_owners", 3, label=MANY), choice("state", 4, dot + ".State"),
            ], maps=[("notes", 5, string("value", 2))]),
            message(pkg, "ListVehiclesRequest", [
                string("parent", 1), field("page_size", 2, FD.TYPE_INT32),
                string("page_token", 3)]),
            message(pkg, "ListVehiclesResponse", [
                sub("vehicles", 1, dot + ".Vehicle", label=MANY),
                string("next_page_token", 2)]),
        ],
        [enum("State", "STATE_UNSPECIFIED", "ACTIVE", "RETIRED")],
        [
            service("Garage", "garage.acme.example", [
                rpc("RegisterVehicle", dot + ".RegisterVehicleRequest", dot + ".Vehicle",
                    ["parent,vehicle,co_owners,state,notes",
                     "vehicle.name,vehicle.drivers,vehicle.sensors"],
                    ("post", "/v1/{parent=depots/*}/vehicles", "vehicle")),
                rpc("ListVehicles", dot + ".ListVehiclesRequest",
                    dot + ".ListVehiclesResponse", ["parent"],
                    ("get", "/v1/{parent=depots/*}/vehicles", None)),
            ]),
            service("Yard", "yard.acme.example", [
                rpc("Park", dot + ".RegisterVehicleRequest", EMPTY, ["parent"],
                    ("post", "/v1/park", "*")),
                rpc("Peek", dot + ".ListVehiclesRequest", dot + ".Vehicle", [],
                    ("post", "/v1/peek", "*")),
            ]),
        ])
    sub_pkg = pkg + ".telemetry"
    fleet_sub = proto_file(
        "acme/fleet/v1/telemetry/telemetry.proto", sub_pkg,
        well_known_names + ["acme/fleet/v1/core.proto"],
        [message(sub_pkg, "SampleRequest", [
            string("name", 1), string("channels", 2, label=MANY),
            sub("vehicle", 3, dot + ".Vehicle")]),
         message(sub_pkg, "SampleResponse", [string("ok", 1)])],
        [],
        [service("Telemetry", "telemetry.acme.example", [
            rpc("RegisterViaTelemetry", dot + ".RegisterVehicleRequest",
                "." + sub_pkg + ".SampleResponse",
                ["parent,vehicle,co_owners,state,notes"], ("post", "/v1/t/register", "*")),
            rpc("Sample", "." + sub_pkg + ".SampleRequest", "." + sub_pkg + ".SampleResponse",
                ["name,channels,vehicle", "vehicle.name"], ("post", "/v1/t/sample", "*")),
            rpc("Follow", dot + ".ListVehiclesRequest", dot + ".Vehicle",
                ["parent,page_size"], ("post", "/v1/t/follow", "*"), server_stream=True),
        ])])
    fleet_files = blobs(well_known + [fleet_core, fleet_sub])
    # Snippet generation cannot handle services in sub-packages (also at HEAD),
    # hence autogen-snippets=false for this API.
    cases.append({"name": "fleet:rest,numeric-enums", "package": pkg, "files": fleet_files,
                  "options": "transport=rest,rest-numeric-enums,autogen-snippets=false"})
    cases.append({"name": "fleet:grpc", "package": pkg, "files": fleet_files,
                  "options": "transport=grpc,autogen-snippets=false"})

    # ------------------------------------------------------------------
    # 4. "echo": no method signatures at all, no http rules, all streaming
    #    kinds and a void method.
    # ------------------------------------------------------------------
    pkg = "acme.echo.v1"
    dot = "." + pkg
    echo = proto_file(
        "acme/echo/v1/echo.proto", pkg, well_known_names,
        [message(pkg, "Ping", [string("text", 1)]), message(pkg, "Pong", [string("text", 1)])],
        [],
        [service("Echo", "echo.acme.example", [
            rpc("Say", dot + ".Ping", dot + ".Pong"),
            rpc("Forget", dot + ".Ping", EMPTY),
            rpc("Collect", dot + ".Ping", dot + ".Pong", client_stream=True),
            rpc("Expand", dot + ".Ping", dot + ".Pong", server_stream=True),
            rpc("Chat", dot + ".Ping", dot + ".Pong", client_stream=True, server_stream=True),
        ])])
    cases.append({"name": "echo:grpc", "package": pkg, "files": blobs(well_known + [echo]),
                  "options": ""})
    return cases


# ===========================================================================
# Parent side: driver
# ===========================================================================
def main(argv):
    if len(argv) == 5 and argv[1] == "--worker":
        run_worker(argv[2], argv[3], argv[4])
        return 0
    if len(argv) != 2:
        sys.stderr.write(__doc__)
        return 2

    checkout = os.path.realpath(argv[1])
    workdir = tempfile.mkdtemp(prefix="twin-demo-V05-")
    try:
        head_tree = os.path.join(workdir, "head")
        os.mkdir(head_tree)
        archive = subprocess.Popen(["git", "-C", checkout, "archive", "HEAD"],
                                   stdout=subprocess.PIPE)
        subprocess.check_call(["tar", "-x", "-C", head_tree], stdin=archive.stdout)
        archive.stdout.close()
        if archive.wait() != 0:
            print("FAIL: git archive HEAD failed")
            return 1

        cases = make_cases()
        cases_path = os.path.join(workdir, "cases.json")
        with open(cases_path, "w") as fh:
            json.dump(cases, fh)

        env = {k: v for k, v in os.environ.items() if k != "PYTHONPATH"}
        env["PYTHONDONTWRITEBYTECODE"] = "1"
        env["PYTHONHASHSEED"] = "0"
        running = []
        for label, tree in (("head", head_tree), ("work", checkout)):
            result_path = os.path.join(workdir, label + ".json")
            proc = subprocess.Popen(
                [sys.executable, os.path.abspath(__file__), "--worker", tree,
                 cases_path, result_path],
                cwd=workdir, env=env)
            running.append((label, proc, result_path))
        outputs = {}
        for label, proc, result_path in running:
            if proc.wait() != 0:
                print("FAIL: the generator run on the %s tree exited with status %d"
                      % (label, proc.returncode))
                return 1
            with open(result_path) as fh:
                outputs[label] = json.load(fh)

        problems, compared = [], 0
        fingerprint = hashlib.sha256()
        for case in cases:
            before = outputs["head"][case["name"]]
            after = outputs["work"][case["name"]]
            if len(before) < 10:
                problems.append("%s: suspiciously few files (%d)" % (case["name"], len(before)))
            for path in sorted(set(before) | set(after)):
                compared += 1
                if path not in after:
                    problems.append("%s: %s missing from the changed tree's output"
                                    % (case["name"], path))
                elif path not in before:
                    problems.append("%s: %s only produced by the changed tree"
                                    % (case["name"], path))
                elif before[path] != after[path]:
                    problems.append("%s: %s differs" % (case["name"], path))
                else:
                    fingerprint.update(("%s\0%s\0" % (path, before[path])).encode("utf-8"))
        if problems:
            print("FAIL: %d problem(s) in %d compared files:" % (len(problems), compared))
            for problem in problems:
                print("  " + problem)
            return 1
        print("OK: %d generator runs, %d files identical between HEAD and the working "
              "tree (sha256 %s)" % (len(cases), compared, fingerprint.hexdigest()[:16]))
        return 0
    finally:
        shutil.rmtree(workdir, ignore_errors=True)


if __name__ == "__main__":
    sys.exit(main(sys.argv))
