#!/usr/bin/env python
"""Behaviour-preservation demo for the W17 refactoring (property C17, mixin RPCs).

Usage:  /venv/bin/python demo.py <path-to-a-checkout-with-the-change>

The script
  * exports the checkout's HEAD into a temp dir (`git archive HEAD | tar -x`) -> "base" tree,
  * uses the checkout's working tree (with the uncommitted change) as the "new" tree,
  * builds several API descriptions (FileDescriptorProtos + service YAML + options),
  * runs the generator over every case with BOTH trees, each in its own subprocess,
  * compares every produced file (names and contents) byte for byte.

Exit 0 and a one-line summary when everything is identical, exit 1 otherwise.
"""
import os
import pickle
import shutil
import subprocess
import sys
import tempfile


# --------------------------------------------------------------------------
# Worker: runs inside a subprocess with exactly one `gapic` tree importable.
# --------------------------------------------------------------------------
def _isolate_gapic(tree):
    """Make `tree` the only provider of the `gapic` package."""
    tree = os.path.realpath(tree)
    # Drop the editable-install finder (it maps `gapic` to another checkout).
    sys.meta_path[:] = [
        f
        for f in sys.meta_path
        if "editable" not in (getattr(f, "__name__", "") + type(f).__name__).lower()
    ]
    sys.path_hooks[:] = [
        h for h in sys.path_hooks if "editable" not in repr(h).lower()
    ]
    keep = []
    for entry in sys.path:
        if "__editable__" in entry:
            continue
        probe = os.path.realpath(entry or os.getcwd())
        if probe != tree and os.path.isdir(os.path.join(probe, "gapic")):
            continue  # some other directory that also provides `gapic`
        if probe == tree:
            continue
        keep.append(entry)
    sys.path[:] = [tree] + keep
    sys.path_importer_cache.clear()
    for name in list(sys.modules):
        if name == "gapic" or name.startswith("gapic."):
            del sys.modules[name]
    return tree


def _worker(tree, cases_path, out_path):
    tree = _isolate_gapic(tree)

    import pypandoc  # noqa: E402

    # pandoc is not installed; stub it identically for both runs.
    pypandoc.convert_text = lambda text, to, format=None, extra_args=(): text

    from google.protobuf import descriptor_pb2
    import gapic
    from gapic.schema.api import API
    from gapic.generator import Generator
    from gapic.utils import Options

    # The generator post-processes every rendered file with
    # formatter.fix_whitespace (which collapses blank lines).  Record its raw
    # input as well, so the comparison also covers the templates' exact output.
    from gapic.generator import formatter

    raw_renderings = []
    _fix_whitespace = formatter.fix_whitespace

    def recording_fix_whitespace(code):
        raw_renderings.append(code)
        return _fix_whitespace(code)

    formatter.fix_whitespace = recording_fix_whitespace

    gapic_dir = os.path.join(tree, "gapic")
    assert [os.path.realpath(p) for p in gapic.__path__] == [gapic_dir], list(
        gapic.__path__
    )

    with open(cases_path, "rb") as f:
        cases = pickle.load(f)

    scratch = tempfile.mkdtemp(prefix="w17-yaml-", dir=os.path.dirname(out_path))
    results = {}
    for case in cases:
        fds = []
        for blob in case["protos"]:
            fd = descriptor_pb2.FileDescriptorProto()
            fd.ParseFromString(blob)
            fds.append(fd)
        opt_str = case["options"]
        if case["yaml"] is not None:
            # JSON is a subset of YAML.
            import json

            ypath = os.path.join(scratch, case["name"] + "_service.yaml")
            with open(ypath, "w") as f:
                json.dump(case["yaml"], f)
            opt_str = (opt_str + "," if opt_str else "") + "service-yaml=" + ypath
        opts = Options.build(opt_str)
        for tdir in opts.templates:
            assert os.path.realpath(tdir).startswith(gapic_dir + os.sep), tdir
        api = API.build(fds, package=case["package"], opts=opts)
        gen = Generator(opts)
        for sp in gen._env.loader.searchpath:
            assert os.path.realpath(sp).startswith(gapic_dir + os.sep), sp
        del raw_renderings[:]
        resp = gen.get_response(api, opts)
        files = {}
        for out in resp.file:
            assert out.name not in files, out.name
            files[out.name] = out.content
        assert len(raw_renderings) >= len(files) - 1, (len(raw_renderings), len(files))
        for i, raw in enumerate(raw_renderings):
            files["<raw template output #%04d>" % i] = raw
        results[case["name"]] = files

    # Every gapic module must come from the tree under test.
    for name, mod in list(sys.modules.items()):
        if name == "gapic" or name.startswith("gapic."):
            fn = getattr(mod, "__file__", None)
            if fn:
                assert os.path.realpath(fn).startswith(gapic_dir + os.sep), (name, fn)
            else:
                for p in getattr(mod, "__path__", []):
                    assert os.path.realpath(p).startswith(gapic_dir), (name, p)

    shutil.rmtree(scratch, ignore_errors=True)
    with open(out_path, "wb") as f:
        pickle.dump(results, f)


# --------------------------------------------------------------------------
# Case construction (parent process).
# --------------------------------------------------------------------------
def _closure(*file_descriptors):
    """FileDescriptorProtos of the given pool files and all their imports, deps first."""
    from google.protobuf import descriptor_pb2

    seen, ordered = set(), []

    def visit(fd):
        if fd.name in seen:
            return
        seen.add(fd.name)
        for dep in fd.dependencies:
            visit(dep)
        proto = descriptor_pb2.FileDescriptorProto()
        fd.CopyToProto(proto)
        ordered.append(proto)

    for fd in file_descriptors:
        visit(fd)
    return ordered


_T = None


def _types():
    global _T
    if _T is None:
        from google.protobuf import descriptor_pb2 as d

        _T = d.FieldDescriptorProto
    return _T


def _field(name, number, ftype="string", type_name=None, repeated=False, oneof=None):
    T = _types()
    kinds = {
        "string": T.TYPE_STRING,
        "int32": T.TYPE_INT32,
        "int64": T.TYPE_INT64,
        "bool": T.TYPE_BOOL,
        "bytes": T.TYPE_BYTES,
        "double": T.TYPE_DOUBLE,
        "message": T.TYPE_MESSAGE,
        "enum": T.TYPE_ENUM,
    }
    f = T(
        name=name,
        number=number,
        type=kinds[ftype],
        label=T.LABEL_REPEATED if repeated else T.LABEL_OPTIONAL,
    )
    f.json_name = "".join(
        p if i == 0 else p.capitalize() for i, p in enumerate(name.split("_"))
    )
    if type_name:
        f.type_name = type_name
    if oneof is not None:
        f.oneof_index = oneof
    return f


def _message(name, fields, oneofs=(), nested=(), map_entries=()):
    from google.protobuf import descriptor_pb2 as d

    m = d.DescriptorProto(name=name)
    m.field.extend(fields)
    for o in oneofs:
        m.oneof_decl.add(name=o)
    for n in nested:
        m.nested_type.add().CopyFrom(n)
    for entry_name, key_type, value_field in map_entries:
        e = m.nested_type.add(name=entry_name)
        e.options.map_entry = True
        e.field.add().CopyFrom(_field("key", 1, key_type))
        e.field.add().CopyFrom(value_field)
    return m


def _method(
    name,
    inp,
    out,
    http=None,
    signature=None,
    client_streaming=False,
    server_streaming=False,
    lro=None,
):
    from google.protobuf import descriptor_pb2 as d
    from google.api import annotations_pb2, client_pb2
    from google.longrunning import operations_pb2

    m = d.MethodDescriptorProto(
        name=name,
        input_type=inp,
        output_type=out,
        client_streaming=client_streaming,
        server_streaming=server_streaming,
    )
    if http:
        rule = m.options.Extensions[annotations_pb2.http]
        verb, uri, body = http[0]
        setattr(rule, verb, uri)
        if body:
            rule.body = body
        for verb, uri, body in http[1:]:
            extra = rule.additional_bindings.add()
            setattr(extra, verb, uri)
            if body:
                extra.body = body
    if signature:
        m.options.Extensions[client_pb2.method_signature].append(signature)
    if lro:
        info = m.options.Extensions[operations_pb2.operation_info]
        info.response_type, info.metadata_type = lro
    return m


def _service(name, methods, host="example.googleapis.com", scopes=None):
    from google.protobuf import descriptor_pb2 as d
    from google.api import client_pb2

    s = d.ServiceDescriptorProto(name=name)
    s.method.extend(methods)
    if host:
        s.options.Extensions[client_pb2.default_host] = host
    if scopes:
        s.options.Extensions[client_pb2.oauth_scopes] = scopes
    return s


def _file(name, package, deps, messages=(), services=(), enums=()):
    from google.protobuf import descriptor_pb2 as d

    f = d.FileDescriptorProto(name=name, package=package, syntax="proto3")
    f.dependency.extend(deps)
    f.message_type.extend(messages)
    f.service.extend(services)
    f.enum_type.extend(enums)
    return f


def _rule(selector, verb=None, uri=None, body=None, extra=()):
    r = {"selector": selector}
    if verb:
        r[verb] = uri
    if body:
        r["body"] = body
    if extra:
        r["additional_bindings"] = [
            dict({v: u}, **({"body": b} if b else {})) for v, u, b in extra
        ]
    return r


LOC = "google.cloud.location.Locations"
IAM = "google.iam.v1.IAMPolicy"
LRO = "google.longrunning.Operations"


def _all_mixin_rules():
    return [
        _rule(LOC + ".ListLocations", "get", "/v1/{name=projects/*}/locations"),
        _rule(
            LOC + ".GetLocation",
            "get",
            "/v1/{name=projects/*/locations/*}",
            extra=[("get", "/v1/{name=organizations/*/locations/*}", None)],
        ),
        _rule(
            LRO + ".CancelOperation",
            "post",
            "/v1/{name=projects/*/locations/*/operations/*}:cancel",
            "*",
        ),
        _rule(
            LRO + ".DeleteOperation",
            "delete",
            "/v1/{name=projects/*/locations/*/operations/*}",
        ),
        _rule(
            LRO + ".WaitOperation",
            "post",
            "/v1/{name=projects/*/locations/*/operations/*}:wait",
            "*",
        ),
        _rule(
            LRO + ".GetOperation",
            "get",
            "/v1/{name=projects/*/locations/*/operations/*}",
            extra=[("get", "/v1/{name=operations/*}", None)],
        ),
        _rule(
            LRO + ".ListOperations",
            "get",
            "/v1/{name=projects/*/locations/*}/operations",
        ),
        _rule(
            IAM + ".SetIamPolicy",
            "post",
            "/v1/{resource=projects/*/locations/*/shelves/*}:setIamPolicy",
            "*",
            extra=[("post", "/v1/{resource=projects/*/books/*}:setIamPolicy", "*")],
        ),
        _rule(
            IAM + ".GetIamPolicy",
            "get",
            "/v1/{resource=projects/*/locations/*/shelves/*}:getIamPolicy",
        ),
        _rule(
            IAM + ".TestIamPermissions",
            "post",
            "/v1/{resource=projects/*/locations/*/shelves/*}:testIamPermissions",
            "*",
        ),
        # A selector that is not a mixin RPC at all.
        _rule("google.example.library.v1.Library.GetBook", "get", "/v1/{name=books/*}"),
    ]


def _library_protos(package="google.example.library.v1", with_lro=True, sub=None):
    """A small API: unary, paged, LRO, streaming methods; maps, oneofs, reserved words."""
    from google.api import annotations_pb2, client_pb2, field_behavior_pb2, resource_pb2
    from google.longrunning import operations_pb2
    from google.protobuf import empty_pb2, field_mask_pb2

    P = "." + package
    genre = None
    from google.protobuf import descriptor_pb2 as d

    genre = d.EnumDescriptorProto(name="Genre")
    for i, n in enumerate(["GENRE_UNSPECIFIED", "FICTION", "NONE"]):
        genre.value.add(name=n, number=i)

    book = _message(
        "Book",
        [
            _field("name", 1),
            _field("class", 2),  # reserved word
            _field("from", 3, "int32"),  # reserved word
            _field("tags", 4, repeated=True),
            _field("genre", 5, "enum", P + ".Genre"),
            _field("isbn", 6, oneof=0),
            _field("serial", 7, "int64", oneof=0),
            _field(
                "labels", 8, "message", P + ".Book.LabelsEntry", repeated=True
            ),
        ],
        oneofs=["identifier"],
        map_entries=[("LabelsEntry", "string", _field("value", 2))],
    )
    get_req = _message("GetBookRequest", [_field("name", 1)])
    list_req = _message(
        "ListBooksRequest",
        [_field("parent", 1), _field("page_size", 2, "int32"), _field("page_token", 3)],
    )
    list_resp = _message(
        "ListBooksResponse",
        [
            _field("books", 1, "message", P + ".Book", repeated=True),
            _field("next_page_token", 2),
        ],
    )
    create_req = _message(
        "CreateBookRequest",
        [_field("parent", 1), _field("book", 2, "message", P + ".Book")],
    )
    meta = _message("OperationMetadata", [_field("progress", 1, "int32")])
    messages = [book, get_req, list_req, list_resp, create_req, meta]

    methods = [
        _method(
            "GetBook",
            P + ".GetBookRequest",
            P + ".Book",
            http=[("get", "/v1/{name=shelves/*/books/*}", None)],
            signature="name",
        ),
        _method(
            "ListBooks",
            P + ".ListBooksRequest",
            P + ".ListBooksResponse",
            http=[("get", "/v1/{parent=shelves/*}/books", None)],
            signature="parent",
        ),
        _method(
            "DeleteBook",
            P + ".GetBookRequest",
            ".google.protobuf.Empty",
            http=[("delete", "/v1/{name=shelves/*/books/*}", None)],
        ),
    ]
    if with_lro:
        methods.append(
            _method(
                "CreateBook",
                P + ".CreateBookRequest",
                ".google.longrunning.Operation",
                http=[("post", "/v1/{parent=shelves/*}/books", "book")],
                signature="parent,book",
                lro=("Book", "OperationMetadata"),
            )
        )
    library = _service(
        "Library",
        methods,
        scopes="https://www.googleapis.com/auth/cloud-platform",
    )

    fname = package.replace(".", "/") + "/library.proto"
    main = _file(
        fname,
        package,
        [
            "google/api/annotations.proto",
            "google/api/client.proto",
            "google/longrunning/operations.proto",
            "google/protobuf/empty.proto",
        ],
        messages,
        [library],
        [genre],
    )
    deps = _closure(
        annotations_pb2.DESCRIPTOR,
        client_pb2.DESCRIPTOR,
        field_behavior_pb2.DESCRIPTOR,
        resource_pb2.DESCRIPTOR,
        operations_pb2.DESCRIPTOR,
        empty_pb2.DESCRIPTOR,
        field_mask_pb2.DESCRIPTOR,
    )
    return deps, main


def _streaming_file(package):
    P = "." + package
    note = _message("Note", [_field("text", 1), _field("import", 2)])
    summary = _message("Summary", [_field("count", 1, "int32")])
    svc = _service(
        "Chatter",
        [
            _method("Talk", P + ".Note", P + ".Note", client_streaming=True, server_streaming=True),
            _method(
                "Listen",
                P + ".Note",
                P + ".Note",
                server_streaming=True,
                http=[("get", "/v1/notes:listen", None)],
            ),
            _method("Record", P + ".Note", P + ".Summary", client_streaming=True),
            _method(
                "Echo",
                P + ".Note",
                P + ".Note",
                http=[("post", "/v1/notes:echo", "*")],
            ),
        ],
        host="chatter.example.com",
    )
    return _file(
        package.replace(".", "/") + "/chatter.proto",
        package,
        ["google/api/annotations.proto", "google/api/client.proto"],
        [note, summary],
        [svc],
    )


def _iam_override_file(package):
    """A service that defines SetIamPolicy itself (the IAM mixin must yield)."""
    P = "." + package
    thing = _message("Thing", [_field("name", 1)])
    get_req = _message("GetThingRequest", [_field("name", 1)])
    svc = _service(
        "Things",
        [
            _method(
                "GetThing",
                P + ".GetThingRequest",
                P + ".Thing",
                http=[("get", "/v1/{name=things/*}", None)],
                signature="name",
            ),
            _method(
                "SetIamPolicy",
                ".google.iam.v1.SetIamPolicyRequest",
                ".google.iam.v1.Policy",
                http=[("post", "/v1/{resource=things/*}:setIamPolicy", "*")],
            ),
        ],
        host="things.example.com",
    )
    return _file(
        package.replace(".", "/") + "/things.proto",
        package,
        [
            "google/api/annotations.proto",
            "google/api/client.proto",
            "google/iam/v1/iam_policy.proto",
            "google/iam/v1/policy.proto",
        ],
        [thing, get_req],
        [svc],
    )


def _ser(protos):
    return [p.SerializeToString() for p in protos]


def build_cases():
    from google.iam.v1 import iam_policy_pb2, policy_pb2

    cases = []
    deps, lib = _library_protos()
    pkg = "google.example.library.v1"

    # 1. Everything: all three mixin APIs, all rules, gRPC and REST.
    cases.append(
        dict(
            name="all_mixins_grpc_rest",
            protos=_ser(deps + [lib]),
            package=pkg,
            options="transport=grpc+rest",
            yaml={
                "apis": [{"name": LOC}, {"name": LRO}, {"name": IAM}],
                "http": {"rules": _all_mixin_rules()},
            },
        )
    )

    # 2. REST only, numeric enums; LRO mixin with a subset of rules; Locations rules present
    #    but the API is not listed (so no location RPCs); async REST enabled.
    cases.append(
        dict(
            name="lro_subset_rest_numeric_async",
            protos=_ser(deps + [lib]),
            package=pkg,
            options="transport=rest,rest-numeric-enums",
            yaml={
                "apis": [{"name": LRO}, {"name": pkg + ".Library"}],
                "http": {
                    "rules": [
                        r
                        for r in _all_mixin_rules()
                        if r["selector"].endswith(
                            ("GetOperation", "CancelOperation", "ListLocations")
                        )
                    ]
                },
                "publishing": {
                    "library_settings": [
                        {
                            "version": pkg,
                            "python_settings": {
                                "experimental_features": {"rest_async_io_enabled": True}
                            },
                        }
                    ]
                },
            },
        )
    )

    # 3. The API defines SetIamPolicy itself: IAM mixin yields, Locations stay. Two services
    #    (one with streaming RPCs), snippets disabled.
    opkg = "example.things.v1"
    iam_deps = _closure(iam_policy_pb2.DESCRIPTOR, policy_pb2.DESCRIPTOR)
    names = {p.name for p in deps}
    merged = deps + [p for p in iam_deps if p.name not in names]
    cases.append(
        dict(
            name="iam_overridden_by_api",
            protos=_ser(merged + [_iam_override_file(opkg), _streaming_file(opkg)]),
            package=opkg,
            options="autogen-snippets=false,transport=grpc+rest",
            yaml={
                "apis": [{"name": IAM}, {"name": LOC}],
                "http": {"rules": _all_mixin_rules()},
            },
        )
    )

    # 4. Legacy option add-iam-methods together with the IAM mixin listed in the YAML,
    #    plus an Operations API listed without any HTTP rule for it.
    cases.append(
        dict(
            name="legacy_add_iam_methods_with_mixin",
            protos=_ser(deps + [lib]),
            package=pkg,
            options="add-iam-methods,transport=grpc+rest",
            yaml={
                "apis": [{"name": IAM}, {"name": LRO}],
                "http": {
                    "rules": [
                        r for r in _all_mixin_rules() if r["selector"].startswith(IAM)
                    ]
                },
            },
        )
    )

    # 5. Legacy option add-iam-methods and no service YAML at all; gRPC only (default).
    deps5, lib5 = _library_protos(with_lro=False)
    cases.append(
        dict(
            name="legacy_add_iam_methods_no_yaml",
            protos=_ser(deps5 + [lib5]),
            package=pkg,
            options="add-iam-methods",
            yaml=None,
        )
    )

    # 6. No mixins whatsoever, streaming service, default options.
    spkg = "example.chatter.v1beta1"
    cases.append(
        dict(
            name="no_mixins_streaming",
            protos=_ser(deps + [_streaming_file(spkg)]),
            package=spkg,
            options="",
            yaml={"http": {"rules": _all_mixin_rules()}},
        )
    )

    # 7. IAM only with two of the three rules; Locations with one rule; gRPC only, API in a
    #    versionless namespace with an explicit name/namespace override.
    deps7, lib7 = _library_protos(package="acme.storage.v2", with_lro=True)
    cases.append(
        dict(
            name="iam_and_locations_partial_grpc",
            protos=_ser(deps7 + [lib7]),
            package="acme.storage.v2",
            options="transport=grpc,metadata",
            yaml={
                "apis": [{"name": LOC}, {"name": IAM}],
                "http": {
                    "rules": [
                        r
                        for r in _all_mixin_rules()
                        if r["selector"].endswith(
                            ("GetIamPolicy", "TestIamPermissions", "GetLocation", "WaitOperation")
                        )
                    ]
                },
            },
        )
    )
    # 8. gRPC only: Operations mixin with three of the five rules (no Get/Cancel), sync+async.
    cases.append(
        dict(
            name="lro_subset_grpc",
            protos=_ser(deps + [lib]),
            package=pkg,
            options="transport=grpc,autogen-snippets=false",
            yaml={
                "apis": [{"name": LRO}],
                "http": {
                    "rules": [
                        r
                        for r in _all_mixin_rules()
                        if r["selector"].endswith(
                            ("DeleteOperation", "WaitOperation", "ListOperations", "SetIamPolicy")
                        )
                    ]
                },
            },
        )
    )
    return cases


# --------------------------------------------------------------------------
# Parent: orchestrate the two runs and compare.
# --------------------------------------------------------------------------
def main(argv):
    if len(argv) >= 2 and argv[1] == "--worker":
        _worker(argv[2], argv[3], argv[4])
        return 0
    if len(argv) != 2:
        print(__doc__)
        return 2
    checkout = os.path.realpath(argv[1])
    tmp = tempfile.mkdtemp(prefix="w17-demo-")
    try:
        base = os.path.join(tmp, "base")
        os.mkdir(base)
        archive = subprocess.Popen(
            ["git", "-C", checkout, "archive", "HEAD"], stdout=subprocess.PIPE
        )
        subprocess.check_call(["tar", "-x", "-C", base], stdin=archive.stdout)
        archive.stdout.close()
        if archive.wait() != 0:
            raise RuntimeError("git archive failed")

        cases = build_cases()
        cases_path = os.path.join(tmp, "cases.pkl")
        with open(cases_path, "wb") as f:
            pickle.dump(cases, f)

        outputs = {}
        env = dict(os.environ, PYTHONDONTWRITEBYTECODE="1", PYTHONHASHSEED="0")
        env.pop("PYTHONPATH", None)
        for label, tree in (("base", base), ("new", checkout)):
            out_path = os.path.join(tmp, label + ".pkl")
            subprocess.check_call(
                [sys.executable, os.path.abspath(__file__), "--worker", tree, cases_path, out_path],
                cwd=tmp,
                env=env,
            )
            with open(out_path, "rb") as f:
                outputs[label] = pickle.load(f)

        problems = []
        total = 0
        for case in cases:
            a, b = outputs["base"][case["name"]], outputs["new"][case["name"]]
            if not a:
                problems.append("%s: generator produced no files" % case["name"])
            total += len(a)
            for fn in sorted(set(a) | set(b)):
                if fn not in a:
                    problems.append("%s: only in new: %s" % (case["name"], fn))
                elif fn not in b:
                    problems.append("%s: only in base: %s" % (case["name"], fn))
                elif a[fn] != b[fn]:
                    problems.append("%s: differs: %s" % (case["name"], fn))
        if problems:
            print("DIFFERENT: %d problem(s)" % len(problems))
            for p in problems:
                print("  " + p)
            return 1
        print(
            "IDENTICAL: %d cases, %d items (generated files + their raw pre-formatting renderings) "
            "compared byte for byte (base HEAD vs changed tree)"
            % (len(cases), total)
        )
        return 0
    finally:
        shutil.rmtree(tmp, ignore_errors=True)


if __name__ == "__main__":
    sys.exit(main(sys.argv))
