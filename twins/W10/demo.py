#!/venv/bin/python
"""Differential check for the W10 refactoring (property C10, determinism).

Usage:  /venv/bin/python demo.py <path-to-a-checkout-with-the-change>

The script exports the checkout's HEAD into a temporary directory (the
"pristine" tree), then runs the generator on several synthetic APIs with the
pristine tree and with the checkout's working tree (the "changed" tree), each
in its own subprocess and under two different PYTHONHASHSEED values, and
compares every generated file (names and bytes).

Exit status 0 and a one-line summary when everything is identical; exit
status 1 and a list of differing files otherwise.
"""
import json
import os
import pickle
import shutil
import subprocess
import sys
import tempfile

HASH_SEEDS = ("0", "4242")


# ---------------------------------------------------------------------------
# Worker: runs inside a subprocess, with exactly one `gapic` tree importable.
# ---------------------------------------------------------------------------
def worker(tree: str, cases_path: str, out_path: str) -> None:
    tree = os.path.realpath(tree)

    # The tree under test goes first; anything else that could provide
    # `gapic` (the editable install of another checkout) is removed.
    sys.meta_path[:] = [
        finder
        for finder in sys.meta_path
        if "__editable__" not in getattr(finder, "__module__", "")
        and "__editable__" not in type(finder).__module__
        and "editable" not in type(finder).__name__.lower()
        and "editable" not in getattr(finder, "__name__", "").lower()
    ]
    sys.path_hooks[:] = [
        hook for hook in sys.path_hooks if "editable" not in repr(hook).lower()
    ]
    kept = []
    for entry in sys.path:
        real = os.path.realpath(entry or os.getcwd())
        if real != tree and os.path.isdir(os.path.join(real, "gapic")):
            continue
        if "__editable__" in entry:
            continue
        kept.append(entry)
    sys.path[:] = [tree] + [entry for entry in kept if os.path.realpath(entry or ".") != tree]
    sys.path_importer_cache.clear()
    for name in list(sys.modules):
        if name == "gapic" or name.startswith("gapic."):
            del sys.modules[name]

    # pandoc is not installed: stub the conversion identically for both runs.
    import pypandoc

    def fake_convert_text(text, to, format=None, extra_args=()):
        return "[[%s->%s %s]] %s" % (format, to, " ".join(extra_args), text)

    pypandoc.convert_text = fake_convert_text

    from google.protobuf import descriptor_pb2

    from gapic.generator import generator
    from gapic.schema import api
    from gapic.utils import Options

    with open(cases_path, "rb") as handle:
        cases = pickle.load(handle)

    template_dir = os.path.join(tree, "gapic", "templates")
    results = {}
    for case in cases:
        file_descriptors = [
            descriptor_pb2.FileDescriptorProto.FromString(blob)
            for blob in case["files"]
        ]
        opts = Options.build(case["options"])
        assert tuple(os.path.realpath(t) for t in opts.templates) == (template_dir,), opts.templates
        api_schema = api.API.build(file_descriptors, package=case["package"], opts=opts)
        gen = generator.Generator(opts)
        assert [os.path.realpath(p) for p in gen._env.loader.searchpath] == [template_dir]
        response = gen.get_response(api_schema, opts)
        files = {}
        for out_file in response.file:
            assert out_file.name not in files, out_file.name
            files[out_file.name] = out_file.content.encode("utf-8")
        assert files, case["name"]
        results[case["name"]] = files

    loaded = 0
    for name, module in sorted(sys.modules.items()):
        if name == "gapic" or name.startswith("gapic."):
            # `gapic` itself is a namespace package (no __file__): check its
            # search path instead.
            origins = (
                [module.__file__]
                if getattr(module, "__file__", None)
                else list(getattr(module, "__path__", [])) or ["<unknown>"]
            )
            for origin in origins:
                origin = os.path.realpath(origin)
                assert (origin + os.sep).startswith(os.path.join(tree, "gapic") + os.sep), (name, origin)
            loaded += 1
    assert loaded > 10, loaded

    with open(out_path, "wb") as handle:
        pickle.dump(results, handle)


# ---------------------------------------------------------------------------
# Descriptor construction helpers (protoc is not available).
# ---------------------------------------------------------------------------
def build_cases(aux_dir: str):
    from google.api import annotations_pb2, client_pb2, field_behavior_pb2, resource_pb2
    from google.longrunning import operations_pb2
    from google.protobuf import descriptor_pb2 as desc
    from google.protobuf import (
        any_pb2,
        duration_pb2,
        empty_pb2,
        field_mask_pb2,
        timestamp_pb2,
    )

    F = desc.FieldDescriptorProto

    def dependency_closure(*modules):
        """Serialized FileDescriptorProtos of the modules and their imports."""
        ordered = []
        seen = set()

        def visit(file_descriptor):
            if file_descriptor.name in seen:
                return
            seen.add(file_descriptor.name)
            for dep in file_descriptor.dependencies:
                visit(dep)
            proto = desc.FileDescriptorProto()
            file_descriptor.CopyToProto(proto)
            ordered.append(proto)

        for module in modules:
            visit(module.DESCRIPTOR)
        return ordered

    def field(name, number, type_, type_name=None, repeated=False, oneof_index=None,
              proto3_optional=False, required=False, reference=None, child_reference=None):
        pb = F(name=name, number=number, type=type_,
               label=F.LABEL_REPEATED if repeated else F.LABEL_OPTIONAL)
        if type_name:
            pb.type_name = type_name
        if oneof_index is not None:
            pb.oneof_index = oneof_index
        if proto3_optional:
            pb.proto3_optional = True
        if required:
            pb.options.Extensions[field_behavior_pb2.field_behavior].append(
                field_behavior_pb2.REQUIRED)
        if reference:
            pb.options.Extensions[resource_pb2.resource_reference].type = reference
        if child_reference:
            pb.options.Extensions[resource_pb2.resource_reference].child_type = child_reference
        return pb

    def message(name, fields=(), oneofs=(), nested=(), enums=(), resource=None):
        pb = desc.DescriptorProto(name=name)
        pb.field.extend(fields)
        for oneof_name in oneofs:
            pb.oneof_decl.add(name=oneof_name)
        pb.nested_type.extend(nested)
        pb.enum_type.extend(enums)
        if resource:
            res = pb.options.Extensions[resource_pb2.resource]
            res.type = resource[0]
            res.pattern.extend(resource[1:])
        return pb

    def map_entry(name, key_type, value_type, value_type_name=None):
        pb = desc.DescriptorProto(name=name)
        pb.field.append(field("key", 1, key_type))
        pb.field.append(field("value", 2, value_type, value_type_name))
        pb.options.map_entry = True
        return pb

    def enum(name, *values, allow_alias=False):
        pb = desc.EnumDescriptorProto(name=name)
        for number, value_name in enumerate(values):
            pb.value.add(name=value_name, number=number)
        if allow_alias:
            pb.options.allow_alias = True
            pb.value.add(name=values[-1] + "_ALIAS", number=len(values) - 1)
        return pb

    def method(name, input_type, output_type, http=None, signatures=(), lro=None,
               client_streaming=False, server_streaming=False, deprecated=False):
        pb = desc.MethodDescriptorProto(
            name=name, input_type=input_type, output_type=output_type,
            client_streaming=client_streaming, server_streaming=server_streaming)
        if http:
            rule = pb.options.Extensions[annotations_pb2.http]
            verb, path, body = http[0]
            setattr(rule, verb, path)
            if body:
                rule.body = body
            for verb, path, body in http[1:]:
                extra = rule.additional_bindings.add()
                setattr(extra, verb, path)
                if body:
                    extra.body = body
        for signature in signatures:
            pb.options.Extensions[client_pb2.method_signature].append(signature)
        if lro:
            info = pb.options.Extensions[operations_pb2.operation_info]
            info.response_type, info.metadata_type = lro
        if deprecated:
            pb.options.deprecated = True
        return pb

    def service(name, methods, host=None, scopes=None):
        pb = desc.ServiceDescriptorProto(name=name)
        pb.method.extend(methods)
        if host:
            pb.options.Extensions[client_pb2.default_host] = host
        if scopes:
            pb.options.Extensions[client_pb2.oauth_scopes] = scopes
        return pb

    def proto_file(name, package, deps=(), messages=(), enums=(), services=(), comments=()):
        pb = desc.FileDescriptorProto(name=name, package=package, syntax="proto3")
        pb.dependency.extend(deps)
        pb.message_type.extend(messages)
        pb.enum_type.extend(enums)
        pb.service.extend(services)
        for path, text in comments:
            pb.source_code_info.location.add(path=path, leading_comments=text)
        return pb

    def write_aux(file_name, text):
        path = os.path.join(aux_dir, file_name)
        with open(path, "w") as handle:
            handle.write(text)
        return path

    cases = []

    # ------------------------------------------------------------------
    # Case 1: resources, paging, LRO, oneofs, maps, nested types, mixins,
    # retry configuration with several retryable codes, grpc+rest.
    # ------------------------------------------------------------------
    pkg = "google.example.library.v1"
    dot = "." + pkg + "."
    book = message(
        "Book",
        fields=[
            field("name", 1, F.TYPE_STRING),
            field("author", 2, F.TYPE_STRING, oneof_index=0),
            field("editor", 3, F.TYPE_STRING, oneof_index=0),
            field("rating", 4, F.TYPE_INT32, oneof_index=1, proto3_optional=True),
            field("labels", 5, F.TYPE_MESSAGE, dot + "Book.LabelsEntry", repeated=True),
            field("chapters", 6, F.TYPE_MESSAGE, dot + "Book.ChaptersEntry", repeated=True),
            field("genre", 7, F.TYPE_ENUM, dot + "Book.Genre"),
            field("cover", 8, F.TYPE_MESSAGE, dot + "Book.Cover"),
            field("published", 9, F.TYPE_MESSAGE, ".google.protobuf.Timestamp"),
            field("shelf", 10, F.TYPE_STRING, reference="library.googleapis.com/Shelf"),
            field("format", 11, F.TYPE_ENUM, dot + "Format"),
            field("genres_by_year", 12, F.TYPE_MESSAGE, dot + "Book.GenresByYearEntry", repeated=True),
        ],
        oneofs=["credit", "_rating"],
        nested=[
            map_entry("LabelsEntry", F.TYPE_STRING, F.TYPE_STRING),
            map_entry("ChaptersEntry", F.TYPE_INT32, F.TYPE_MESSAGE, dot + "Chapter"),
            map_entry("GenresByYearEntry", F.TYPE_INT32, F.TYPE_ENUM, dot + "Book.Genre"),
            message("Cover", fields=[
                field("image", 1, F.TYPE_BYTES),
                field("kind", 2, F.TYPE_ENUM, dot + "Book.Cover.Kind"),
            ], enums=[enum("Kind", "KIND_UNSPECIFIED", "HARD", "SOFT")]),
        ],
        enums=[enum("Genre", "GENRE_UNSPECIFIED", "FICTION", "SCIENCE", allow_alias=True)],
        resource=("library.googleapis.com/Book", "shelves/{shelf}/books/{book}",
                  "projects/{project}/books/{book}"),
    )
    shelf = message(
        "Shelf",
        fields=[field("name", 1, F.TYPE_STRING), field("theme", 2, F.TYPE_STRING)],
        resource=("library.googleapis.com/Shelf", "shelves/{shelf}"),
    )
    chapter = message("Chapter", fields=[
        field("title", 1, F.TYPE_STRING),
        field("pages", 2, F.TYPE_INT32),
        field("footnotes", 3, F.TYPE_MESSAGE, dot + "Footnote", repeated=True),
    ])
    footnote = message("Footnote", fields=[
        field("text", 1, F.TYPE_STRING),
        field("cited_book", 2, F.TYPE_STRING, reference="library.googleapis.com/Book"),
        field("see_also", 3, F.TYPE_MESSAGE, dot + "Chapter"),
    ])
    library_messages = [
        book, shelf, chapter, footnote,
        message("GetBookRequest", fields=[
            field("name", 1, F.TYPE_STRING, required=True, reference="library.googleapis.com/Book"),
            field("read_mask", 2, F.TYPE_MESSAGE, ".google.protobuf.FieldMask"),
        ]),
        message("ListBooksRequest", fields=[
            field("parent", 1, F.TYPE_STRING, required=True, child_reference="library.googleapis.com/Book"),
            field("page_size", 2, F.TYPE_INT32),
            field("page_token", 3, F.TYPE_STRING),
            field("filter", 4, F.TYPE_STRING),
        ]),
        message("ListBooksResponse", fields=[
            field("books", 1, F.TYPE_MESSAGE, dot + "Book", repeated=True),
            field("next_page_token", 2, F.TYPE_STRING),
        ]),
        message("ListShelvesRequest", fields=[
            field("page_size", 1, F.TYPE_INT32),
            field("page_token", 2, F.TYPE_STRING),
        ]),
        message("ListShelvesResponse", fields=[
            field("shelves", 1, F.TYPE_MESSAGE, dot + "Shelf", repeated=True),
            field("next_page_token", 2, F.TYPE_STRING),
        ]),
        message("CreateBookRequest", fields=[
            field("parent", 1, F.TYPE_STRING, required=True, reference="library.googleapis.com/Shelf"),
            field("book", 2, F.TYPE_MESSAGE, dot + "Book", required=True),
            field("book_id", 3, F.TYPE_STRING),
        ]),
        message("DeleteBookRequest", fields=[
            field("name", 1, F.TYPE_STRING, required=True, reference="library.googleapis.com/Book"),
        ]),
        message("ImportBooksRequest", fields=[
            field("parent", 1, F.TYPE_STRING, reference="library.googleapis.com/Shelf"),
            field("uris", 2, F.TYPE_STRING, repeated=True),
            field("deadline", 3, F.TYPE_MESSAGE, ".google.protobuf.Duration"),
        ]),
        message("ImportBooksResponse", fields=[
            field("books", 1, F.TYPE_MESSAGE, dot + "Book", repeated=True),
        ]),
        message("ImportBooksMetadata", fields=[
            field("progress", 1, F.TYPE_DOUBLE),
            field("details", 2, F.TYPE_MESSAGE, ".google.protobuf.Any"),
        ]),
    ]
    library_methods = [
        method("GetBook", dot + "GetBookRequest", dot + "Book",
               http=[("get", "/v1/{name=shelves/*/books/*}", None),
                     ("get", "/v1/{name=projects/*/books/*}", None)],
               signatures=["name"]),
        method("ListBooks", dot + "ListBooksRequest", dot + "ListBooksResponse",
               http=[("get", "/v1/{parent=shelves/*}/books", None)], signatures=["parent"]),
        method("ListShelves", dot + "ListShelvesRequest", dot + "ListShelvesResponse",
               http=[("get", "/v1/shelves", None)]),
        method("CreateBook", dot + "CreateBookRequest", dot + "Book",
               http=[("post", "/v1/{parent=shelves/*}/books", "book")],
               signatures=["parent,book,book_id", "parent,book"]),
        method("DeleteBook", dot + "DeleteBookRequest", ".google.protobuf.Empty",
               http=[("delete", "/v1/{name=shelves/*/books/*}", None)], signatures=["name"]),
        method("ImportBooks", dot + "ImportBooksRequest", ".google.longrunning.Operation",
               http=[("post", "/v1/{parent=shelves/*}/books:import", "*")],
               lro=("ImportBooksResponse", "ImportBooksMetadata")),
        method("StreamBooks", dot + "ListBooksRequest", dot + "Book",
               http=[("get", "/v1/{parent=shelves/*}/books:stream", None)],
               server_streaming=True, deprecated=True),
    ]
    library_file = proto_file(
        "google/example/library/v1/library.proto", pkg,
        deps=["google/api/annotations.proto", "google/api/client.proto",
              "google/api/field_behavior.proto", "google/api/resource.proto",
              "google/longrunning/operations.proto", "google/protobuf/any.proto",
              "google/protobuf/duration.proto", "google/protobuf/empty.proto",
              "google/protobuf/field_mask.proto", "google/protobuf/timestamp.proto"],
        messages=library_messages,
        enums=[enum("Format", "FORMAT_UNSPECIFIED", "PAPERBACK", "EBOOK")],
        services=[service("LibraryService", library_methods, host="library.googleapis.com",
                          scopes="https://www.googleapis.com/auth/cloud-platform,"
                                 "https://www.googleapis.com/auth/books")],
        comments=[
            ([4, 0], " A single book in the library.\n Use `GetBook` to fetch *one*.\n"),
            ([4, 0, 2, 0], " The resource name of the book.\n"),
            ([4, 0, 2, 1], " The `author` of the book; see [Shelf][google.example.library.v1.Shelf].\n"),
            ([4, 1], " A shelf holding books.\n"),
            ([5, 0], " The physical format.\n"),
            ([5, 0, 2, 1], " A paperback.\n"),
            ([6, 0], " Manages books and shelves.\n"),
            ([6, 0, 2, 0], " Gets a book.\n"),
            ([6, 0, 2, 1], " Lists books on a shelf.\n"),
        ],
    )
    retry_all = write_aux("library_retry.json", json.dumps({
        "methodConfig": [
            {"name": [{"service": pkg + ".LibraryService"}], "timeout": "77s"},
            {"name": [{"service": pkg + ".LibraryService", "method": "GetBook"},
                      {"service": pkg + ".LibraryService", "method": "ListBooks"}],
             "timeout": "60s",
             "retryPolicy": {"maxAttempts": 5, "initialBackoff": "0.1s", "maxBackoff": "60s",
                             "backoffMultiplier": 1.3,
                             "retryableStatusCodes": ["UNAVAILABLE", "DEADLINE_EXCEEDED",
                                                      "ABORTED", "INTERNAL", "UNKNOWN",
                                                      "RESOURCE_EXHAUSTED", "UNAVAILABLE"]}},
            {"name": [{"service": pkg + ".LibraryService", "method": "ListShelves"}],
             "retryPolicy": {"retryableStatusCodes": ["CANCELLED"]}},
            {"name": [{"service": pkg + ".LibraryService", "method": "CreateBook"}],
             "timeout": "12.5s"},
            {"name": [{"service": pkg + ".LibraryService", "method": "DeleteBook"}],
             "timeout": "", "retryPolicy": {}},
            {"name": [{"service": pkg + ".OtherService", "method": "ImportBooks"}],
             "timeout": "1s"},
        ]
    }))
    yaml_all = write_aux("library_v1.yaml", """\
type: google.api.Service
config_version: 3
name: library.googleapis.com
title: Example Library API
apis:
- name: google.example.library.v1.LibraryService
- name: google.cloud.location.Locations
- name: google.iam.v1.IAMPolicy
- name: google.longrunning.Operations
http:
  rules:
  - selector: google.cloud.location.Locations.GetLocation
    get: '/v1/{name=projects/*/locations/*}'
  - selector: google.cloud.location.Locations.ListLocations
    get: '/v1/{name=projects/*}/locations'
  - selector: google.iam.v1.IAMPolicy.GetIamPolicy
    get: '/v1/{resource=shelves/*}:getIamPolicy'
  - selector: google.iam.v1.IAMPolicy.SetIamPolicy
    post: '/v1/{resource=shelves/*}:setIamPolicy'
    body: '*'
  - selector: google.iam.v1.IAMPolicy.TestIamPermissions
    post: '/v1/{resource=shelves/*}:testIamPermissions'
    body: '*'
  - selector: google.longrunning.Operations.GetOperation
    get: '/v1/{name=operations/*}'
  - selector: google.longrunning.Operations.ListOperations
    get: '/v1/operations'
  - selector: google.longrunning.Operations.CancelOperation
    post: '/v1/{name=operations/*}:cancel'
    body: '*'
  - selector: google.longrunning.Operations.DeleteOperation
    delete: '/v1/{name=operations/*}'
""")
    common_deps = dependency_closure(
        annotations_pb2, client_pb2, field_behavior_pb2, resource_pb2, operations_pb2,
        any_pb2, duration_pb2, empty_pb2, field_mask_pb2, timestamp_pb2)
    library_blobs = [pb.SerializeToString() for pb in common_deps + [library_file]]
    cases.append({
        "name": "library-grpc-rest-mixins-retry",
        "package": pkg,
        "files": library_blobs,
        "options": "transport=grpc+rest,metadata,retry-config=%s,service-yaml=%s" % (retry_all, yaml_all),
    })

    # ------------------------------------------------------------------
    # Case 2: same protos, REST only with numeric enums, only the Locations
    # mixin, an *empty* retry config (falsy), snippets disabled.
    # ------------------------------------------------------------------
    retry_empty = write_aux("empty_retry.json", "{}")
    yaml_locations = write_aux("library_locations_only.yaml", """\
type: google.api.Service
config_version: 3
name: library.googleapis.com
apis:
- name: google.example.library.v1.LibraryService
- name: google.cloud.location.Locations
http:
  rules:
  - selector: google.cloud.location.Locations.GetLocation
    get: '/v1/{name=projects/*/locations/*}'
  - selector: google.longrunning.Operations.GetOperation
    get: '/v1/{name=operations/*}'
""")
    cases.append({
        "name": "library-rest-numeric-enums-locations-only",
        "package": pkg,
        "files": library_blobs,
        "options": "transport=rest,rest-numeric-enums,autogen-snippets=false,"
                   "retry-config=%s,service-yaml=%s" % (retry_empty, yaml_locations),
    })

    # ------------------------------------------------------------------
    # Case 3: no annotations at all; two services in two files plus a
    # sub-package; streaming (client / server / bidi); reserved words and
    # module-name collisions; a proto with only enums and one with only a
    # service; a paged method whose items are primitive; retry config with
    # no matching entry for most methods.  gRPC only (default transport).
    # ------------------------------------------------------------------
    pkg3 = "acme.chat.v2"
    dot3 = "." + pkg3 + "."
    types_file = proto_file(
        "acme/chat/v2/types.proto", pkg3,
        messages=[
            message("Message", fields=[
                field("from", 1, F.TYPE_STRING),
                field("class", 2, F.TYPE_STRING),
                field("in", 3, F.TYPE_INT32),
                field("proto", 4, F.TYPE_BYTES),
                field("text", 5, F.TYPE_STRING, oneof_index=0),
                field("mood", 6, F.TYPE_ENUM, dot3 + "Mood"),
                field("replies", 7, F.TYPE_MESSAGE, dot3 + "Message", repeated=True),
                field("origin", 8, F.TYPE_MESSAGE, dot3 + "sub.Origin"),
            ], oneofs=["payload"]),
            message("Empty"),
            message("ListTopicsRequest", fields=[
                field("page_size", 1, F.TYPE_INT32),
                field("page_token", 2, F.TYPE_STRING),
            ]),
            message("ListTopicsResponse", fields=[
                field("topics", 1, F.TYPE_STRING, repeated=True),
                field("next_page_token", 2, F.TYPE_STRING),
            ]),
        ],
        deps=["acme/chat/v2/moods.proto", "acme/chat/v2/sub/origin.proto"],
    )
    moods_file = proto_file(
        "acme/chat/v2/moods.proto", pkg3,
        enums=[enum("Mood", "MOOD_UNSPECIFIED", "HAPPY", "None"),
               enum("Volume", "VOLUME_UNSPECIFIED", "LOUD")],
    )
    origin_file = proto_file(
        "acme/chat/v2/sub/origin.proto", pkg3 + ".sub",
        messages=[message("Origin", fields=[
            field("host", 1, F.TYPE_STRING),
            field("retry", 2, F.TYPE_INT32),
            field("hops", 3, F.TYPE_MESSAGE, dot3 + "sub.Origin.Hop", repeated=True),
        ], nested=[message("Hop", fields=[field("address", 1, F.TYPE_STRING)])])],
        services=[service("Tracer", [
            method("Trace", dot3 + "sub.Origin", dot3 + "sub.Origin"),
        ], host="chat.example.com")],
    )
    chat_service_file = proto_file(
        "acme/chat/v2/chat_service.proto", pkg3,
        deps=["acme/chat/v2/types.proto"],
        services=[
            service("Chat", [
                method("Send", dot3 + "Message", dot3 + "Empty"),
                method("Upload", dot3 + "Message", dot3 + "Message", client_streaming=True),
                method("Subscribe", dot3 + "Empty", dot3 + "Message", server_streaming=True),
                method("Converse", dot3 + "Message", dot3 + "Message",
                       client_streaming=True, server_streaming=True),
                method("ListTopics", dot3 + "ListTopicsRequest", dot3 + "ListTopicsResponse"),
            ], host="chat.example.com"),
            service("Admin", [
                method("Import", dot3 + "Message", dot3 + "Message"),
                method("Send", dot3 + "Message", dot3 + "Message"),
            ], host="admin.example.com:8443"),
        ],
    )
    retry_chat = write_aux("chat_retry.json", json.dumps({
        "methodConfig": [
            {"name": [{"service": pkg3 + ".Chat", "method": "Send"}],
             "timeout": "3s",
             "retryPolicy": {"maxAttempts": 2, "initialBackoff": "1s", "maxBackoff": "2s",
                             "backoffMultiplier": 2,
                             "retryableStatusCodes": ["UNAVAILABLE", "INTERNAL"]}},
            {"name": [{"service": pkg3 + ".sub.Tracer", "method": "Trace"}],
             "timeout": "9s"},
        ]
    }))
    cases.append({
        "name": "chat-grpc-streaming-reserved-subpackage",
        "package": pkg3,
        "files": [pb.SerializeToString()
                  for pb in (moods_file, origin_file, types_file, chat_service_file)],
        # (snippet generation does not support services in sub-packages)
        "options": "autogen-snippets=false,retry-config=%s" % retry_chat,
    })

    # ------------------------------------------------------------------
    # Case 4: the chat API again over REST + gRPC without any retry
    # configuration or service YAML, with IAM methods added by option.
    # ------------------------------------------------------------------
    cases.append({
        "name": "chat-grpc-rest-add-iam-no-retry",
        "package": pkg3,
        "files": [pb.SerializeToString()
                  for pb in (moods_file, origin_file, types_file, chat_service_file)],
        "options": "transport=grpc+rest,add-iam-methods,metadata,autogen-snippets=false",
    })

    # ------------------------------------------------------------------
    # Case 5: types only (no service, no paged method): a proto with just an
    # enum, a message with a single-member oneof, IAM + Operations mixins.
    # ------------------------------------------------------------------
    pkg5 = "example.shapes.v1beta1"
    dot5 = "." + pkg5 + "."
    shapes_file = proto_file(
        "example/shapes/v1beta1/shapes.proto", pkg5,
        deps=["google/protobuf/duration.proto"],
        messages=[
            message("Shape", fields=[
                field("circle", 1, F.TYPE_MESSAGE, dot5 + "Circle", oneof_index=0),
                field("age", 2, F.TYPE_MESSAGE, ".google.protobuf.Duration"),
                field("opt_in", 3, F.TYPE_BOOL, oneof_index=1, proto3_optional=True),
            ], oneofs=["kind", "_opt_in"]),
            message("Circle", fields=[field("radius", 1, F.TYPE_DOUBLE)]),
        ],
    )
    colors_file = proto_file(
        "example/shapes/v1beta1/colors.proto", pkg5,
        enums=[enum("Color", "COLOR_UNSPECIFIED", "RED")],
    )
    shapes_service_file = proto_file(
        "example/shapes/v1beta1/shape_service.proto", pkg5,
        deps=["example/shapes/v1beta1/shapes.proto", "google/api/annotations.proto",
              "google/api/client.proto"],
        services=[service("Shapes", [
            method("Draw", dot5 + "Shape", dot5 + "Shape",
                   http=[("post", "/v1beta1/shapes:draw", "*")]),
        ], host="shapes.example.com")],
    )
    yaml_iam_ops = write_aux("shapes.yaml", """\
type: google.api.Service
config_version: 3
name: shapes.example.com
apis:
- name: example.shapes.v1beta1.Shapes
- name: google.iam.v1.IAMPolicy
- name: google.longrunning.Operations
http:
  rules:
  - selector: google.iam.v1.IAMPolicy.GetIamPolicy
    get: '/v1beta1/{resource=shapes/*}:getIamPolicy'
  - selector: google.longrunning.Operations.GetOperation
    get: '/v1beta1/{name=operations/*}'
  - selector: google.longrunning.Operations.ListOperations
    get: '/v1beta1/operations'
""")
    shapes_deps = dependency_closure(annotations_pb2, client_pb2, duration_pb2)
    cases.append({
        "name": "shapes-iam-operations-mixins",
        "package": pkg5,
        "files": [pb.SerializeToString()
                  for pb in shapes_deps + [colors_file, shapes_file, shapes_service_file]],
        "options": "transport=grpc+rest,service-yaml=%s" % yaml_iam_ops,
    })
    cases.append({
        "name": "shapes-types-only",
        "package": pkg5,
        "files": [pb.SerializeToString()
                  for pb in dependency_closure(duration_pb2) + [colors_file, shapes_file]],
        "options": "autogen-snippets=false",
    })
    return cases


# ---------------------------------------------------------------------------
# Driver.
# ---------------------------------------------------------------------------
def run_worker(tree: str, cases_path: str, out_path: str, seed: str, cwd: str):
    env = dict(os.environ)
    env["PYTHONHASHSEED"] = seed
    env.pop("PYTHONPATH", None)
    proc = subprocess.run(
        [sys.executable, os.path.abspath(__file__), "--worker", tree, cases_path, out_path],
        env=env, cwd=cwd, stdout=subprocess.PIPE, stderr=subprocess.STDOUT, text=True,
    )
    if proc.returncode != 0:
        sys.stdout.write(proc.stdout)
        raise SystemExit("worker failed for %s (seed %s)" % (tree, seed))
    with open(out_path, "rb") as handle:
        return pickle.load(handle)


def main(argv) -> int:
    if len(argv) != 2:
        print(__doc__)
        return 2
    checkout = os.path.realpath(argv[1])
    tmp = tempfile.mkdtemp(prefix="twin-scratch-W10-demo-")
    try:
        pristine = os.path.join(tmp, "pristine")
        os.mkdir(pristine)
        archive = subprocess.Popen(
            ["git", "-C", checkout, "archive", "HEAD"], stdout=subprocess.PIPE)
        subprocess.check_call(["tar", "-x", "-C", pristine], stdin=archive.stdout)
        archive.stdout.close()
        if archive.wait() != 0:
            raise SystemExit("git archive failed")

        aux = os.path.join(tmp, "aux")
        os.mkdir(aux)
        cases = build_cases(aux)
        cases_path = os.path.join(tmp, "cases.pkl")
        with open(cases_path, "wb") as handle:
            pickle.dump(cases, handle)

        differences = []
        compared = 0
        for seed in HASH_SEEDS:
            old = run_worker(pristine, cases_path, os.path.join(tmp, "old-%s.pkl" % seed), seed, tmp)
            new = run_worker(checkout, cases_path, os.path.join(tmp, "new-%s.pkl" % seed), seed, tmp)
            for case in cases:
                name = case["name"]
                old_files, new_files = old[name], new[name]
                for file_name in sorted(set(old_files) | set(new_files)):
                    compared += 1
                    if file_name not in old_files:
                        differences.append("%s [seed %s]: only in changed tree: %s" % (name, seed, file_name))
                    elif file_name not in new_files:
                        differences.append("%s [seed %s]: only in pristine tree: %s" % (name, seed, file_name))
                    elif old_files[file_name] != new_files[file_name]:
                        differences.append("%s [seed %s]: content differs: %s" % (name, seed, file_name))
                if list(old_files) != list(new_files):
                    differences.append("%s [seed %s]: file order differs" % (name, seed))

        if differences:
            print("DIFFERENT: %d problem(s)" % len(differences))
            for line in differences:
                print("  " + line)
            return 1
        print("IDENTICAL: %d cases x %d hash seeds, %d generated files compared byte for byte"
              % (len(cases), len(HASH_SEEDS), compared))
        return 0
    finally:
        shutil.rmtree(tmp, ignore_errors=True)


if __name__ == "__main__":
    if len(sys.argv) == 5 and sys.argv[1] == "--worker":
        worker(sys.argv[2], sys.argv[3], sys.argv[4])
        sys.exit(0)
    sys.exit(main(sys.argv))
