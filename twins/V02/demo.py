#!/usr/bin/env python
"""Equivalence demo for the V02 refactoring (property C02: types modules).

Usage:  /venv/bin/python demo.py <checkout-with-the-change>

Exports the checkout's HEAD (pristine tree), builds several API descriptions in
Python (no protoc), runs the generator over each of them once with the pristine
tree and once with the checkout's working tree (separate subprocesses), and
compares every generated file byte for byte.
"""
import os
import pickle
import shutil
import subprocess
import sys
import tempfile

PY = sys.executable

# --------------------------------------------------------------------------
# Worker: runs inside a subprocess, with exactly one `gapic` tree importable.
# --------------------------------------------------------------------------
WORKER = r'''
import os, pickle, sys

tree, in_path, out_path = sys.argv[1:4]
tree = os.path.realpath(tree)

# The venv has an editable install of another checkout: remove every finder /
# path entry that could provide `gapic`, and put the tree under test first.
sys.meta_path[:] = [
    f for f in sys.meta_path
    if "editable" not in (getattr(f, "__module__", "") or "").lower()
    and "editable" not in type(f).__module__.lower()
]
sys.path_hooks[:] = [
    h for h in sys.path_hooks
    if "editable" not in repr(h).lower()
]
def _provides_gapic(entry):
    if "__editable__" in entry:
        return True
    base = entry or os.getcwd()
    return os.path.isdir(os.path.join(base, "gapic")) and os.path.realpath(base) != tree
sys.path[:] = [tree] + [e for e in sys.path if not _provides_gapic(e)]
sys.path_importer_cache.clear()
for name in [m for m in sys.modules if m == "gapic" or m.startswith("gapic.")]:
    del sys.modules[name]

import pypandoc

def _convert_text(text, to, format=None, extra_args=(), **kw):
    # pandoc is not installed: identical deterministic stand-in for both runs.
    return "\n".join(line.rstrip() for line in text.strip().splitlines())

pypandoc.convert_text = _convert_text

from google.protobuf import descriptor_pb2
from gapic.schema import api as gapic_api
from gapic.generator import generator as gapic_generator
from gapic.utils import Options

with open(in_path, "rb") as fh:
    cases = pickle.load(fh)

results = {}
for case in cases:
    fds = [descriptor_pb2.FileDescriptorProto.FromString(b) for b in case["files"]]
    opts = Options.build(case["opts"])
    api_schema = gapic_api.API.build(fds, opts=opts, package=case["package"])
    res = gapic_generator.Generator(opts).get_response(api_schema, opts)
    if res.error:
        raise SystemExit("generator error in %s: %s" % (case["name"], res.error))
    results[case["name"]] = {f.name: f.content for f in res.file}
    # every template must come from the tree under test
    for t in opts.templates:
        assert os.path.realpath(t).startswith(tree + os.sep), (t, tree)

import gapic
assert [os.path.realpath(p) for p in gapic.__path__] == [os.path.join(tree, "gapic")], list(gapic.__path__)
loaded = 0
for name, mod in list(sys.modules.items()):
    if name == "gapic" or name.startswith("gapic."):
        f = getattr(mod, "__file__", None)
        if f is not None:
            assert os.path.realpath(f).startswith(tree + os.sep), (name, f)
            loaded += 1
assert loaded > 10, loaded

with open(out_path, "wb") as fh:
    pickle.dump(results, fh)
'''


# --------------------------------------------------------------------------
# Descriptor construction helpers.
# --------------------------------------------------------------------------
def build_cases():
    from google.protobuf import descriptor_pb2 as d
    from google.protobuf import (
        timestamp_pb2,
        duration_pb2,
        empty_pb2,
        field_mask_pb2,
        any_pb2,
        struct_pb2,
        descriptor_pb2,
    )
    from google.api import (
        annotations_pb2,
        client_pb2,
        field_behavior_pb2,
        http_pb2,
        resource_pb2,
        launch_stage_pb2,
    )
    from google.longrunning import operations_pb2
    from google.rpc import status_pb2
    from google.cloud import extended_operations_pb2 as ex_ops_pb2

    F = d.FieldDescriptorProto
    T = {
        n[len("TYPE_"):].lower(): v
        for n, v in F.Type.items()
    }
    OPT, REP = F.LABEL_OPTIONAL, F.LABEL_REPEATED

    def std(mod):
        fdp = d.FileDescriptorProto()
        mod.DESCRIPTOR.CopyToProto(fdp)
        return fdp

    def closure(*mods):
        """FileDescriptorProtos of the given modules and their dependencies, in
        dependency order."""
        seen, out = set(), []

        def visit(fd):
            if fd.name in seen:
                return
            seen.add(fd.name)
            for dep in fd.dependencies:
                visit(dep)
            fdp = d.FileDescriptorProto()
            fd.CopyToProto(fdp)
            out.append(fdp)

        for m in mods:
            visit(m.DESCRIPTOR)
        return out

    def field(name, number, type_, label=OPT, type_name=None, oneof=None,
              optional=False, json_name=None):
        f = F(name=name, number=number, type=T[type_], label=label)
        if type_name:
            f.type_name = type_name
        if oneof is not None:
            f.oneof_index = oneof
        if optional:
            f.proto3_optional = True
        if json_name:
            f.json_name = json_name
        return f

    def message(name, fields=(), nested=(), enums=(), oneofs=(), map_entry=False):
        m = d.DescriptorProto(name=name)
        m.field.extend(fields)
        m.nested_type.extend(nested)
        m.enum_type.extend(enums)
        for o in oneofs:
            m.oneof_decl.add(name=o)
        if map_entry:
            m.options.map_entry = True
        return m

    def map_entry(field_name, key_type, value_type, value_type_name=None):
        """The synthetic XxxEntry message for a map field."""
        camel = "".join(p.capitalize() for p in field_name.split("_")) + "Entry"
        return message(
            camel,
            fields=[
                field("key", 1, key_type),
                field("value", 2, value_type, type_name=value_type_name),
            ],
            map_entry=True,
        )

    def enum(name, values, allow_alias=False, deprecated=False):
        e = d.EnumDescriptorProto(name=name)
        for n, v in values:
            e.value.add(name=n, number=v)
        if allow_alias:
            e.options.allow_alias = True
        if deprecated:
            e.options.deprecated = True
        return e

    def method(name, inp, out, http=None, cstream=False, sstream=False,
               signature=None, lro=None):
        m = d.MethodDescriptorProto(name=name, input_type=inp, output_type=out,
                                    client_streaming=cstream,
                                    server_streaming=sstream)
        if http:
            verb, uri, body = http
            rule = m.options.Extensions[annotations_pb2.http]
            setattr(rule, verb, uri)
            if body:
                rule.body = body
        if signature:
            m.options.Extensions[client_pb2.method_signature].extend(signature)
        if lro:
            info = m.options.Extensions[operations_pb2.operation_info]
            info.response_type, info.metadata_type = lro
        return m

    def service(name, methods, host="example.googleapis.com"):
        s = d.ServiceDescriptorProto(name=name)
        s.method.extend(methods)
        s.options.Extensions[client_pb2.default_host] = host
        s.options.Extensions[client_pb2.oauth_scopes] = (
            "https://www.googleapis.com/auth/cloud-platform"
        )
        return s

    def proto_file(name, package, deps=(), messages=(), enums=(), services=()):
        f = d.FileDescriptorProto(name=name, package=package, syntax="proto3")
        f.dependency.extend(deps)
        f.message_type.extend(messages)
        f.enum_type.extend(enums)
        f.service.extend(services)
        document(f)
        return f

    def document(f):
        """Attach deterministic comments (some with markdown characters, some
        empty) to every message, field, enum and enum value of a file."""
        counter = [0]

        def add(path, what):
            counter[0] += 1
            k = counter[0]
            if k % 5 == 0:
                return  # undocumented
            loc = f.source_code_info.location.add()
            loc.path.extend(path)
            if k % 4 == 1:
                loc.leading_comments = (
                    " The `%s` element, with *emphasis* and a [link](https://example.com/%d).\n"
                    " Second line of the comment for %s which is long enough to be wrapped by the wrapper at some column.\n" % (what, k, what)
                )
            elif k % 4 == 2:
                loc.trailing_comments = " Trailing comment for %s.\n" % what
            elif k % 4 == 3:
                loc.leading_detached_comments.append(" Detached comment about %s.\n" % what)
            else:
                loc.leading_comments = " Plain description of %s.\n" % what

        def walk_enum(e, path):
            add(path, e.name)
            for j, v in enumerate(e.value):
                add(path + [2, j], v.name)

        def walk_msg(m, path):
            add(path, m.name)
            for j, fl in enumerate(m.field):
                add(path + [2, j], fl.name)
            for j, n in enumerate(m.nested_type):
                walk_msg(n, path + [3, j])
            for j, e in enumerate(m.enum_type):
                walk_enum(e, path + [4, j])

        for i, m in enumerate(f.message_type):
            walk_msg(m, [4, i])
        for i, e in enumerate(f.enum_type):
            walk_enum(e, [5, i])
        for i, s in enumerate(f.service):
            add([6, i], s.name)
            for j, me in enumerate(s.method):
                add([6, i, 2, j], me.name)

    cases = []

    # ------------------------------------------------------------------
    # Case 1: kitchen sink - every scalar type, enums, nesting depth 4,
    # oneofs, proto3 optional, maps over all key types, recursion, forward
    # and cross-file references, reserved words, `proto` name collisions,
    # paging, LRO, streaming.
    # ------------------------------------------------------------------
    P = "google.example.kitchen.v1"
    q = "." + P + "."
    scalars = ["double", "float", "int64", "uint64", "int32", "fixed64",
               "fixed32", "bool", "string", "bytes", "uint32", "sfixed32",
               "sfixed64", "sint32", "sint64"]
    all_scalars = message(
        "AllScalars",
        fields=[field("f_" + s, i + 1, s) for i, s in enumerate(scalars)]
        + [field("r_" + s, i + 101, s, label=REP) for i, s in enumerate(scalars)]
        + [field("o_" + s, i + 201, s, oneof=i, optional=True)
           for i, s in enumerate(scalars)],
        oneofs=["_o_" + s for s in scalars],
    )
    key_types = ["int32", "int64", "uint32", "uint64", "sint32", "sint64",
                 "fixed32", "fixed64", "sfixed32", "sfixed64", "bool", "string"]
    maps_fields, maps_nested = [], []
    for i, k in enumerate(key_types):
        fname = "by_%s" % k
        ent = map_entry(fname, k, scalars[i % len(scalars)])
        maps_nested.append(ent)
        maps_fields.append(field(fname, i + 1, "message", label=REP,
                                 type_name=q + "Maps." + ent.name))
    for j, (fname, vt, vtn) in enumerate([
        ("to_message", "message", q + "Tree"),
        ("to_nested", "message", q + "Maps.Inner"),
        ("to_enum", "enum", q + "Color"),
        ("to_nested_enum", "enum", q + "Maps.Kind"),
        ("to_timestamp", "message", ".google.protobuf.Timestamp"),
        ("to_sibling_file", "message", q + "Sibling"),
        ("class", "message", q + "Maps"),
    ]):
        ent = map_entry(fname, "string", vt, vtn)
        maps_nested.append(ent)
        maps_fields.append(field(fname, 50 + j, "message", label=REP,
                                 type_name=q + "Maps." + ent.name))
    maps = message(
        "Maps",
        fields=maps_fields,
        nested=maps_nested + [message("Inner", fields=[field("x", 1, "int32")])],
        enums=[enum("Kind", [("KIND_UNSPECIFIED", 0), ("BIG", 1)])],
    )
    tree = message(
        "Tree",
        fields=[
            field("left", 1, "message", type_name=q + "Tree"),
            field("right", 2, "message", type_name=q + "Tree"),
            field("children", 3, "message", label=REP, type_name=q + "Tree"),
            field("forest", 4, "message", type_name=q + "Forest"),
            field("leaf", 5, "message", type_name=q + "Tree.Leaf"),
            field("later", 6, "message", type_name=q + "ZLater"),
        ],
        nested=[
            message("Leaf", fields=[
                field("owner", 1, "message", type_name=q + "Tree"),
                field("sibling", 2, "message", type_name=q + "Tree.Twig"),
                field("color", 3, "enum", type_name=q + "Color"),
            ]),
            message("Twig", fields=[
                field("leaf", 1, "message", type_name=q + "Tree.Leaf"),
            ]),
        ],
    )
    forest = message("Forest", fields=[
        field("trees", 1, "message", label=REP, type_name=q + "Tree"),
        field("owner", 2, "message", type_name=q + "Sibling.Deep.Deeper.Deepest"),
    ])
    oneofs = message(
        "Choices",
        fields=[
            field("plain", 1, "string"),
            field("a_text", 2, "string", oneof=0),
            field("a_tree", 3, "message", type_name=q + "Tree", oneof=0),
            field("a_color", 4, "enum", type_name=q + "Color", oneof=0),
            field("lonely", 5, "int64", oneof=1),
            field("maybe", 6, "int32", oneof=2, optional=True),
            field("maybe_tree", 7, "message", type_name=q + "Tree", oneof=3,
                  optional=True),
            field("maybe_color", 8, "enum", type_name=q + "Color", oneof=4,
                  optional=True),
            field("b_stamp", 9, "message", type_name=".google.protobuf.Timestamp",
                  oneof=1 + 4),
            field("b_bytes", 10, "bytes", oneof=5),
        ],
        oneofs=["a", "single", "_maybe", "_maybe_tree", "_maybe_color", "b"],
    )
    only_single_oneof = message(
        "SingleOneof",
        fields=[field("only", 1, "string", oneof=0), field("other", 2, "bool")],
        oneofs=["kind"],
    )
    only_optional = message(
        "OnlyOptional",
        fields=[field("opt", 1, "string", oneof=0, optional=True)],
        oneofs=["_opt"],
    )
    reserved = message(
        "Reserved",
        fields=[
            field("class", 1, "string"),
            field("from", 2, "int32", label=REP),
            field("in", 3, "message", type_name=q + "Reserved"),
            field("not", 4, "enum", type_name=q + "Color"),
            field("import", 5, "bool", oneof=0),
            field("lambda", 6, "bytes", oneof=0),
            field("proto", 7, "string"),
            field("_proto", 8, "string"),
            field("next_page_token", 9, "string"),
            field("timestamp", 10, "message", type_name=".google.protobuf.Timestamp"),
            field("any", 11, "message", label=REP, type_name=".google.protobuf.Any"),
            field("struct", 12, "message", type_name=".google.protobuf.Struct"),
            field("mask", 13, "message", type_name=".google.protobuf.FieldMask"),
        ],
        oneofs=["global"],
    )
    depth = message("L1", fields=[field("v", 1, "message", type_name=q + "L1.L2.L3.L4")],
                    nested=[message("L2", fields=[field("up", 1, "message", type_name=q + "L1")],
                                    enums=[enum("E2", [("E2_ZERO", 0), ("E2_ONE", 1)])],
                                    nested=[message("L3", fields=[field("e", 1, "enum", type_name=q + "L1.L2.E2"),
                                                                  field("across", 2, "message", type_name=q + "Tree.Leaf")],
                                                    nested=[message("L4", fields=[field("e4", 1, "enum", label=REP, type_name=q + "L1.L2.L3.L4.E4"),
                                                                                  field("back", 2, "message", type_name=q + "L1.L2")],
                                                                    enums=[enum("E4", [("E4_ZERO", 0), ("E4_NEG", -1)])])])])])
    empty_msg = message("Nothing")
    zlater = message("ZLater", fields=[field("tree", 1, "message", type_name=q + "Tree")])
    color = enum("Color", [("COLOR_UNSPECIFIED", 0), ("RED", 1), ("GREEN", 2), ("CRIMSON", 1)],
                 allow_alias=True)
    plain_enum = enum("None", [("NONE_UNSPECIFIED", 0), ("True", 1), ("class", 2)], deprecated=True)

    list_req = message("ListTreesRequest", fields=[
        field("parent", 1, "string"), field("page_size", 2, "int32"),
        field("page_token", 3, "string")])
    list_resp = message("ListTreesResponse", fields=[
        field("trees", 1, "message", label=REP, type_name=q + "Tree"),
        field("next_page_token", 2, "string")])
    grow_req = message("GrowRequest", fields=[
        field("tree", 1, "message", type_name=q + "Tree"),
        field("choices", 2, "message", type_name=q + "Choices"),
        field("class", 3, "string")])
    grow_meta = message("GrowMetadata", fields=[field("progress", 1, "float")])

    kitchen_types = proto_file(
        "google/example/kitchen/v1/types.proto", P,
        deps=["google/protobuf/timestamp.proto", "google/protobuf/any.proto",
              "google/protobuf/struct.proto", "google/protobuf/field_mask.proto",
              "google/example/kitchen/v1/sibling.proto"],
        messages=[all_scalars, maps, tree, forest, oneofs, only_single_oneof,
                  only_optional, reserved, depth, empty_msg, zlater],
        enums=[color, plain_enum],
    )
    sibling = proto_file(
        "google/example/kitchen/v1/sibling.proto", P,
        deps=["google/protobuf/duration.proto"],
        messages=[message(
            "Sibling",
            fields=[field("ttl", 1, "message", type_name=".google.protobuf.Duration"),
                    field("deep", 2, "message", type_name=q + "Sibling.Deep.Deeper.Deepest")],
            nested=[message("Deep", nested=[message("Deeper", nested=[
                message("Deepest", fields=[field("s", 1, "message", type_name=q + "Sibling")])])])],
        )],
        enums=[enum("SiblingState", [("SIBLING_STATE_UNSPECIFIED", 0), ("ON", 1)])],
    )
    kitchen_service = proto_file(
        "google/example/kitchen/v1/kitchen_service.proto", P,
        deps=["google/example/kitchen/v1/types.proto", "google/api/annotations.proto",
              "google/api/client.proto", "google/longrunning/operations.proto",
              "google/protobuf/empty.proto"],
        messages=[list_req, list_resp, grow_req, grow_meta],
        services=[service("Kitchen", [
            method("GetTree", q + "Reserved", q + "Tree",
                   http=("get", "/v1/{class=trees/*}", None), signature=["class"]),
            method("ListTrees", q + "ListTreesRequest", q + "ListTreesResponse",
                   http=("get", "/v1/{parent=forests/*}/trees", None), signature=["parent"]),
            method("Grow", q + "GrowRequest", ".google.longrunning.Operation",
                   http=("post", "/v1/trees:grow", "*"),
                   lro=("Tree", "GrowMetadata"), signature=["tree,choices", ""]),
            method("Watch", q + "GrowRequest", q + "Choices",
                   http=("post", "/v1/trees:watch", "*"), sstream=True),
            method("Chat", q + "Choices", q + "Maps", cstream=True, sstream=True),
            method("Upload", q + "AllScalars", q + "Nothing", cstream=True),
            method("Purge", q + "Nothing", ".google.protobuf.Empty",
                   http=("delete", "/v1/trees", None)),
        ])],
    )
    common = closure(timestamp_pb2, duration_pb2, empty_pb2, field_mask_pb2, any_pb2,
                     struct_pb2, annotations_pb2, client_pb2, field_behavior_pb2,
                     resource_pb2, operations_pb2, status_pb2, ex_ops_pb2)
    kitchen_files = common + [sibling, kitchen_types, kitchen_service]
    cases.append(dict(name="kitchen-grpc", package=P, opts="", files=kitchen_files))
    cases.append(dict(name="kitchen-rest-numeric", package=P,
                      opts="transport=grpc+rest,rest-numeric-enums,autogen-snippets=false",
                      files=kitchen_files))

    # ------------------------------------------------------------------
    # Case 2: sub-packages (marshal line), several services, module-name
    # collisions between dependency packages, files without messages.
    # ------------------------------------------------------------------
    P2 = "google.example.lib.v1"
    q2 = "." + P2 + "."
    other_one = proto_file("other/one/shared.proto", "other.one",
                           messages=[message("Thing", fields=[field("a", 1, "string")])],
                           enums=[enum("Mode", [("MODE_UNSPECIFIED", 0)])])
    other_two = proto_file("other/two/shared.proto", "other.two",
                           messages=[message("Thing", fields=[field("b", 1, "string")])])
    lib_common = proto_file(
        "google/example/lib/v1/common.proto", P2,
        deps=["other/one/shared.proto", "other/two/shared.proto"],
        messages=[message("Book", fields=[
            field("name", 1, "string"),
            field("one", 2, "message", type_name=".other.one.Thing"),
            field("two", 3, "message", label=REP, type_name=".other.two.Thing"),
            field("mode", 4, "enum", type_name=".other.one.Mode"),
            field("shelf", 5, "message", type_name=q2 + "admin.Shelf"),
        ], nested=[map_entry("things", "string", "message", ".other.two.Thing")]),
        ],
        enums=[enum("Genre", [("GENRE_UNSPECIFIED", 0), ("SCIFI", 7)])],
    )
    lib_common.message_type[0].field.append(
        field("things", 6, "message", label=REP, type_name=q2 + "Book.ThingsEntry"))
    lib_common.dependency.append("google/example/lib/v1/admin/shelf.proto")
    lib_shelf = proto_file(
        "google/example/lib/v1/admin/shelf.proto", P2 + ".admin",
        messages=[message("Shelf", fields=[
            field("id", 1, "int64"),
            field("proto", 2, "string"),
            field("kind", 3, "enum", type_name=q2 + "admin.Shelf.Kind", oneof=0, optional=True),
        ], enums=[enum("Kind", [("KIND_UNSPECIFIED", 0), ("WOOD", 1)])], oneofs=["_kind"])],
    )
    lib_enums_only = proto_file(
        "google/example/lib/v1/enums_only.proto", P2,
        enums=[enum("Only", [("ONLY_UNSPECIFIED", 0)])],
    )
    lib_service = proto_file(
        "google/example/lib/v1/library.proto", P2,
        deps=["google/example/lib/v1/common.proto", "google/api/annotations.proto",
              "google/api/client.proto", "google/protobuf/empty.proto"],
        services=[
            service("Library", [
                method("GetBook", q2 + "Book", q2 + "Book",
                       http=("get", "/v1/{name=books/*}", None)),
                method("Ping", ".google.protobuf.Empty", ".google.protobuf.Empty",
                       http=("post", "/v1/ping", "*")),
            ], host="lib.example.com"),
            service("Archive", [
                method("Store", q2 + "Book", ".google.protobuf.Empty",
                       http=("post", "/v1/archive", "*")),
            ], host="lib.example.com"),
        ],
    )
    lib_admin_service = proto_file(
        "google/example/lib/v1/admin/admin.proto", P2 + ".admin",
        deps=["google/example/lib/v1/admin/shelf.proto", "google/example/lib/v1/common.proto",
              "google/api/annotations.proto", "google/api/client.proto"],
        messages=[message("MoveRequest", fields=[
            field("shelf", 1, "message", type_name=q2 + "admin.Shelf"),
            field("book", 2, "message", type_name=q2 + "Book"),
            field("genre", 3, "enum", type_name=q2 + "Genre"),
        ])],
        services=[service("Admin", [
            method("Move", q2 + "admin.MoveRequest", q2 + "admin.Shelf",
                   http=("post", "/v1/admin:move", "*")),
        ], host="lib.example.com")],
    )
    lib_files = common + [other_one, other_two, lib_shelf, lib_common, lib_enums_only,
                          lib_service, lib_admin_service]
    cases.append(dict(name="lib-subpackages", package=P2, opts="transport=grpc+rest,autogen-snippets=false",
                      files=lib_files))
    cases.append(dict(name="lib-old-naming", package=P2,
                      opts="old-naming,autogen-snippets=false", files=lib_files))

    # ------------------------------------------------------------------
    # Case 3: REST only with extended operations (the `done` property in
    # all its variants).
    # ------------------------------------------------------------------
    P3 = "google.cloud.minicompute.v1"
    q3 = "." + P3 + "."

    def op_field(name, number, type_, mapping, type_name=None):
        f = field(name, number, type_, type_name=type_name)
        f.options.Extensions[ex_ops_pb2.operation_field] = mapping
        return f

    M = ex_ops_pb2.OperationResponseMapping
    operation = message(
        "Operation",
        fields=[
            op_field("name", 1, "string", M.NAME),
            op_field("status", 2, "enum", M.STATUS, type_name=q3 + "Operation.Status"),
            op_field("http_error_status_code", 3, "int32", M.ERROR_CODE),
            op_field("http_error_message", 4, "string", M.ERROR_MESSAGE),
            field("zone", 5, "string", oneof=0, optional=True),
        ],
        enums=[enum("Status", [("UNDEFINED_STATUS", 0), ("DONE", 2104194),
                               ("PENDING", 35394935), ("RUNNING", 121282975)])],
        oneofs=["_zone"],
    )
    str_status = message("StrStatus", fields=[op_field("state", 1, "string", M.STATUS)])
    bool_status = message("BoolStatus", fields=[op_field("finished", 1, "bool", M.STATUS)])
    odd_status = message("OddStatus", fields=[op_field("code", 1, "int32", M.STATUS)])
    get_op_req = message("GetZoneOperationRequest", fields=[
        field("operation", 1, "string"), field("project", 2, "string"),
        field("zone", 3, "string")])
    get_op_req.field[0].options.Extensions[ex_ops_pb2.operation_response_field] = "name"
    for f_ in get_op_req.field:
        f_.options.Extensions[field_behavior_pb2.field_behavior].append(
            field_behavior_pb2.REQUIRED)
    insert_req = message("InsertAddressRequest", fields=[
        field("project", 1, "string"), field("zone", 2, "string"),
        field("address_resource", 3, "message", type_name=q3 + "Address"),
        field("request_id", 4, "string", oneof=0, optional=True)],
        oneofs=["_request_id"])
    insert_req.field[0].options.Extensions[ex_ops_pb2.operation_request_field] = "project"
    insert_req.field[1].options.Extensions[ex_ops_pb2.operation_request_field] = "zone"
    address = message("Address", fields=[
        field("name", 1, "string", oneof=0, optional=True),
        field("labels", 2, "message", label=REP, type_name=q3 + "Address.LabelsEntry"),
        field("status", 3, "string", oneof=1, optional=True),
        field("users", 4, "string", label=REP),
        field("str_status", 5, "message", type_name=q3 + "StrStatus"),
        field("bool_status", 6, "message", type_name=q3 + "BoolStatus"),
        field("odd_status", 7, "message", type_name=q3 + "OddStatus"),
    ], nested=[map_entry("labels", "string", "string")],
        enums=[enum("AddressType", [("UNDEFINED_ADDRESS_TYPE", 0), ("EXTERNAL", 35607499)])],
        oneofs=["_name", "_status"])

    zone_ops = service("ZoneOperations", [
        method("Get", q3 + "GetZoneOperationRequest", q3 + "Operation",
               http=("get", "/compute/v1/projects/{project}/zones/{zone}/operations/{operation}", None),
               signature=["project,zone,operation"]),
    ], host="compute.googleapis.com")
    zone_ops.method[0].options.Extensions[ex_ops_pb2.operation_polling_method] = True
    addresses = service("Addresses", [
        method("Insert", q3 + "InsertAddressRequest", q3 + "Operation",
               http=("post", "/compute/v1/projects/{project}/zones/{zone}/addresses", "address_resource"),
               signature=["project,zone,address_resource"]),
    ], host="compute.googleapis.com")
    addresses.method[0].options.Extensions[ex_ops_pb2.operation_service] = "ZoneOperations"
    compute = proto_file(
        "google/cloud/minicompute/v1/compute.proto", P3,
        deps=["google/api/annotations.proto", "google/api/client.proto",
              "google/api/field_behavior.proto", "google/cloud/extended_operations.proto"],
        messages=[operation, str_status, bool_status, odd_status, get_op_req,
                  insert_req, address],
        services=[zone_ops, addresses],
    )
    cases.append(dict(name="minicompute-rest", package=P3,
                      opts="transport=rest,rest-numeric-enums",
                      files=common + [compute]))

    # ------------------------------------------------------------------
    # Case 4: minimal shapes - no messages at all in the service file,
    # empty message, no annotations, no documentation.
    # ------------------------------------------------------------------
    P4 = "acme.tiny.v2"
    q4 = "." + P4 + "."
    tiny = d.FileDescriptorProto(name="acme/tiny/v2/tiny.proto", package=P4, syntax="proto3")
    tiny.dependency.append("google/protobuf/empty.proto")
    tiny.service.add(name="Tiny").method.add(
        name="Poke", input_type=".google.protobuf.Empty", output_type=".google.protobuf.Empty")
    tiny_types = d.FileDescriptorProto(name="acme/tiny/v2/stuff.proto", package=P4, syntax="proto3")
    tiny_types.message_type.extend([
        message("Blank"),
        message("Holder", fields=[field("blank", 1, "message", type_name=q4 + "Blank"),
                                  field("proto", 2, "message", label=REP, type_name=q4 + "Holder")],
                enums=[enum("Nested", [("ZERO", 0)])]),
    ])
    cases.append(dict(name="tiny", package=P4, opts="autogen-snippets=false",
                      files=closure(empty_pb2) + [tiny_types, tiny]))

    for c in cases:
        c["files"] = [f.SerializeToString(deterministic=True) for f in c["files"]]
    return cases


def run_worker(tree, in_path, out_path, worker_path):
    env = dict(os.environ)
    env.pop("PYTHONPATH", None)
    env["PYTHONHASHSEED"] = "0"
    env["PYTHONDONTWRITEBYTECODE"] = "1"
    proc = subprocess.run(
        [PY, worker_path, tree, in_path, out_path],
        cwd=os.path.dirname(in_path), env=env,
        stdout=subprocess.PIPE, stderr=subprocess.STDOUT, text=True,
    )
    if proc.returncode != 0:
        print(proc.stdout)
        raise SystemExit("worker failed for tree %s (exit %d)" % (tree, proc.returncode))
    with open(out_path, "rb") as fh:
        return pickle.load(fh)


def main():
    if len(sys.argv) != 2:
        print(__doc__)
        return 2
    checkout = os.path.realpath(sys.argv[1])
    tmp = tempfile.mkdtemp(prefix="twin-demo-V02-")
    try:
        pristine = os.path.join(tmp, "pristine")
        changed = os.path.join(tmp, "changed")
        work = os.path.join(tmp, "work")
        for p in (pristine, changed, work):
            os.mkdir(p)
        # pristine export of HEAD
        archive = subprocess.Popen(["git", "-C", checkout, "archive", "HEAD"],
                                   stdout=subprocess.PIPE)
        subprocess.check_call(["tar", "-x", "-C", pristine], stdin=archive.stdout)
        archive.stdout.close()
        if archive.wait() != 0:
            raise SystemExit("git archive failed")
        # The tree with the change is the checkout's working tree itself.
        os.rmdir(changed)
        changed = checkout

        cases = build_cases()
        in_path = os.path.join(work, "cases.pickle")
        with open(in_path, "wb") as fh:
            pickle.dump(cases, fh)
        worker_path = os.path.join(work, "worker.py")
        with open(worker_path, "w") as fh:
            fh.write(WORKER)

        before = run_worker(pristine, in_path, os.path.join(work, "before.pickle"), worker_path)
        after = run_worker(changed, in_path, os.path.join(work, "after.pickle"), worker_path)

        differing, total, types_files = [], 0, 0
        for case in cases:
            name = case["name"]
            b, a = before[name], after[name]
            for fname in sorted(set(b) | set(a)):
                total += 1
                if "/types/" in fname:
                    types_files += 1
                if fname not in b:
                    differing.append("%s: %s only with the change" % (name, fname))
                elif fname not in a:
                    differing.append("%s: %s only in pristine" % (name, fname))
                elif b[fname] != a[fname]:
                    differing.append("%s: %s differs" % (name, fname))
            if not b:
                differing.append("%s: no output at all" % name)
        if types_files < 10:
            differing.append("too few types/ files generated (%d)" % types_files)
        if differing:
            print("DIFFERENT: %d problem(s)" % len(differing))
            for line in differing:
                print("  " + line)
            return 1
        print("IDENTICAL: %d cases, %d files (%d under types/) byte-for-byte equal"
              % (len(cases), total, types_files))
        return 0
    finally:
        shutil.rmtree(tmp, ignore_errors=True)


if __name__ == "__main__":
    sys.exit(main())
