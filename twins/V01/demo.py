#!/usr/bin/env python
"""Twin demo V01 (property C01): the refactoring does not change the output.

Usage:  /venv/bin/python demo.py <path-to-a-checkout-with-the-change>

  1. Exports the checkout's HEAD (`git archive HEAD | tar -x`) into a temp
     directory: that is the pristine tree.  The checkout's working tree is the
     refactored tree.
  2. Builds several API descriptions as FileDescriptorProtos (no protoc) plus
     option strings, and pickles them.
  3. Runs the generator over every case with BOTH trees, one subprocess per
     tree.  In the worker the tree under test is first on sys.path, the
     venv's editable install of the generator (meta path finder / path hook /
     path entries) is removed, and every loaded `gapic.*` module and every
     template search path is asserted to live inside the tree under test.
  4. Compares output file names, their order and their contents byte for
     byte, plus direct probes of `fix_whitespace` and of the loaded schema.

Exit 0 with a one-line summary when identical, exit 1 listing differences.
"""
import os
import pickle
import shutil
import subprocess
import sys
import tempfile


# ---------------------------------------------------------------------------
# Worker side
# ---------------------------------------------------------------------------
def _only_this_tree(tree):
    tree = os.path.realpath(tree)
    assert not [m for m in sys.modules if m == "gapic" or m.startswith("gapic.")]

    def other_provider(entry):
        if "__editable__" in entry:
            return True
        real = os.path.realpath(entry or os.getcwd())
        return real != tree and os.path.isdir(os.path.join(real, "gapic"))

    sys.path[:] = [tree] + [
        p for p in sys.path
        if os.path.realpath(p or os.getcwd()) != tree and not other_provider(p)
    ]

    def editable(obj):
        text = " ".join(
            str(getattr(obj, a, "") or "")
            for a in ("__module__", "__name__", "__qualname__")
        ) + " " + type(obj).__name__
        return "editable" in text.lower()

    sys.meta_path[:] = [f for f in sys.meta_path if not editable(f)]
    sys.path_hooks[:] = [h for h in sys.path_hooks if not editable(h)]
    sys.path_importer_cache.clear()
    for name in [m for m in sys.modules if "__editable__" in m]:
        del sys.modules[name]
    assert sys.path[0] == tree


def _check_provenance(tree, template_dirs):
    root = os.path.realpath(tree) + os.sep
    count = 0
    for name, mod in sorted(sys.modules.items()):
        if mod is None or not (name == "gapic" or name.startswith("gapic.")):
            continue
        fname = getattr(mod, "__file__", None)
        if fname:
            assert os.path.realpath(fname).startswith(root), (name, fname)
        else:  # `gapic` itself is a namespace package
            places = list(mod.__path__)
            assert places, name
            for place in places:
                assert os.path.realpath(place).startswith(root), (name, place)
        count += 1
    assert count > 20, count
    assert template_dirs
    for t in template_dirs:
        assert os.path.realpath(t).startswith(root), t
    return count


def worker(tree, cases_path, out_path):
    os.chdir(tree)
    _only_this_tree(tree)

    # pandoc is not installed here; stub identically for both trees.
    import pypandoc

    def convert_text(text, to=None, format=None, extra_args=(), **kwargs):
        return "\n".join(line.rstrip() for line in str(text).splitlines())

    pypandoc.convert_text = convert_text

    from google.protobuf import descriptor_pb2
    from gapic.schema import api
    from gapic.generator import generator, formatter
    from gapic.utils import Options

    with open(cases_path, "rb") as fh:
        cases = pickle.load(fh)

    template_dirs = set()
    results = {}
    for case in cases:
        label = case["label"]
        try:
            protos = [
                descriptor_pb2.FileDescriptorProto.FromString(b) for b in case["files"]
            ]
            opts = Options.build(case["options"])
            template_dirs.update(opts.templates)
            package = os.path.commonprefix(
                [p.package for p in protos if p.name in case["to_generate"]]
            ).rstrip(".")
            schema = api.API.build(protos, opts=opts, package=package)
            gen = generator.Generator(opts)
            template_dirs.update(gen._env.loader.searchpath)
            response = gen.get_response(schema, opts)
            files = {}
            for f in response.file:
                assert f.name not in files, f.name
                files[f.name] = f.content
            # A dump of the context-bound schema (exercises _ProtoBuilder.proto
            # and the documentation paths computed by _load_children).
            dump = []
            for pname, proto in schema.all_protos.items():
                dump.append(("proto", pname, proto.file_to_generate,
                             list(proto.all_enums), list(proto.all_messages),
                             list(proto.services),
                             sorted(proto.meta.address.collisions)))
                for ename, e in proto.all_enums.items():
                    dump.append(("enum", ename, str(e.ident), e.meta.doc,
                                 sorted(e.meta.address.collisions),
                                 [(v.name, v.number, v.meta.doc) for v in e.values]))
                for mname, m in proto.all_messages.items():
                    dump.append(("message", mname, str(m.ident), m.meta.doc,
                                 sorted(m.meta.address.collisions),
                                 [(f.name, str(f.ident), f.meta.doc,
                                   sorted(f.meta.address.collisions))
                                  for f in m.fields.values()]))
                for sname, s in proto.services.items():
                    dump.append(("service", sname, s.meta.doc,
                                 sorted(s.meta.address.collisions),
                                 [(m.name, str(m.input.ident), str(m.output.ident),
                                   m.meta.doc,
                                   sorted(m.input.meta.address.collisions))
                                  for m in s.methods.values()]))
            files["__schema_dump__"] = repr(dump)
            results[label] = {
                "files": files,
                "order": [f.name for f in response.file],
            }
        except Exception as exc:  # recorded, and compared like any output
            import traceback
            results[label] = {
                "error": "%s: %s" % (type(exc).__name__, exc),
                "trace": traceback.format_exc().replace(os.path.realpath(tree), "<tree>"),
            }

    # Direct probes of fix_whitespace over awkward inputs.
    samples = [
        "", "\n", " ", "   \n", "x", "x   ", "x   \n\n\n\n",
        "a = 1   \n\n\n\n\nclass B:\n    pass\n",
        "a = 1\n\n\n\n\ndef f():\n\n\n\n    @deco\n    def g(): pass\n",
        "import os\n \n \n \n@decorator\nclass C: pass\n\n\n\n\n# comment\n\n\n\n_private = 1\n",
        "class A:\n    x = 1\n\n\n\n    y = 2\n\n\n\n        z = 3\n\n\n  odd = 4\n",
        "class A:\n\t\n\t\n\tdef f(self): pass\n",
        "x = 1 \t\n\n\n\nclass D: pass",
        "a\n\n\n\nb\n\n\n\n    #c\n\n\n\n    _d\n\n\n\n    @e\n\n\n\n     five\n",
        "s = '''\n\n\n\nclass inside string\n\n\n    indented in string\n'''\n",
        "a\r\n\r\n\r\nclass E: pass\r\n",
        "a\n\f\n\v\n\nclass F: pass\n",
        "\n\n\n\nclass G: pass\n\n\n\n",
        "a\n\n\n\u00e9 = 1\n\n\n    \u00e9 = 2\n",
        "trailing\u00a0\n\n\n\ndef h(): pass\n",
    ]
    results["__fix_whitespace__"] = {
        "files": {"probe-%02d" % i: formatter.fix_whitespace(s)
                  for i, s in enumerate(samples)},
        "order": [],
    }

    checked = _check_provenance(tree, template_dirs)
    results["__meta__"] = {"files": {}, "order": [], "modules_checked": checked}
    with open(out_path, "wb") as fh:
        pickle.dump(results, fh)
    return 0


# ---------------------------------------------------------------------------
# Case construction (parent process; uses protobuf / googleapis pb2 only)
# ---------------------------------------------------------------------------
def build_cases():
    from google.protobuf import descriptor_pb2 as d
    from google.protobuf import descriptor_pool
    from google.api import annotations_pb2, client_pb2, resource_pb2
    from google.api import field_behavior_pb2
    from google.longrunning import operations_pb2
    from google.protobuf import empty_pb2, field_mask_pb2, timestamp_pb2  # noqa: F401
    from google.protobuf import duration_pb2, any_pb2  # noqa: F401

    F = d.FieldDescriptorProto
    STR, I32, I64, BOOL, MSG, ENUM, DBL, BYTES = (
        F.TYPE_STRING, F.TYPE_INT32, F.TYPE_INT64, F.TYPE_BOOL,
        F.TYPE_MESSAGE, F.TYPE_ENUM, F.TYPE_DOUBLE, F.TYPE_BYTES,
    )
    REP = F.LABEL_REPEATED

    pool = descriptor_pool.Default()

    def closure(names):
        """FileDescriptorProtos of `names` and their deps, deps first."""
        seen, ordered = set(), []

        def visit(fd):
            if fd.name in seen:
                return
            seen.add(fd.name)
            for dep in fd.dependencies:
                visit(dep)
            ordered.append(d.FileDescriptorProto.FromString(fd.serialized_pb))

        for n in names:
            visit(pool.FindFileByName(n))
        return ordered

    std = closure([
        "google/api/annotations.proto", "google/api/client.proto",
        "google/api/field_behavior.proto", "google/api/resource.proto",
        "google/longrunning/operations.proto", "google/protobuf/empty.proto",
        "google/protobuf/field_mask.proto", "google/protobuf/timestamp.proto",
    ])
    std_names = [f.name for f in std]

    def field(name, number, type_=STR, type_name=None, label=F.LABEL_OPTIONAL,
              oneof=None, optional=False, required=False, ref=None):
        f = F(name=name, number=number, type=type_, label=label)
        head, *rest = name.split("_")
        f.json_name = head + "".join(p.capitalize() for p in rest)
        if type_name:
            f.type_name = type_name
        if oneof is not None:
            f.oneof_index = oneof
        if optional:
            f.proto3_optional = True
        if required:
            f.options.Extensions[field_behavior_pb2.field_behavior].append(
                field_behavior_pb2.REQUIRED)
        if ref:
            f.options.Extensions[resource_pb2.resource_reference].type = ref
        return f

    def message(name, fields=(), nested=(), enums=(), oneofs=(), resource=None):
        m = d.DescriptorProto(name=name)
        m.field.extend(fields)
        m.nested_type.extend(nested)
        m.enum_type.extend(enums)
        for o in oneofs:
            m.oneof_decl.add(name=o)
        if resource:
            r = m.options.Extensions[resource_pb2.resource]
            r.type = resource[0]
            r.pattern.extend(resource[1:])
        return m

    def map_entry(name, value_type=STR, value_type_name=None, key_type=STR):
        m = message(name, [field("key", 1, key_type),
                           field("value", 2, value_type, value_type_name)])
        m.options.map_entry = True
        return m

    def enum(name, values, alias=False):
        e = d.EnumDescriptorProto(name=name)
        for v, n in values:
            e.value.add(name=v, number=n)
        if alias:
            e.options.allow_alias = True
        return e

    def method(name, inp, out, http=None, sig=(), cs=False, ss=False, lro=None,
               more=()):
        m = d.MethodDescriptorProto(name=name, input_type=inp, output_type=out,
                                    client_streaming=cs, server_streaming=ss)
        if http:
            rule = m.options.Extensions[annotations_pb2.http]
            verb, path, body = http
            setattr(rule, verb, path)
            if body:
                rule.body = body
            for verb2, path2, body2 in more:
                extra = rule.additional_bindings.add()
                setattr(extra, verb2, path2)
                if body2:
                    extra.body = body2
        for s in sig:
            m.options.Extensions[client_pb2.method_signature].append(s)
        if lro:
            info = m.options.Extensions[operations_pb2.operation_info]
            info.response_type, info.metadata_type = lro
        return m

    def service(name, methods, host=None, scopes=None):
        s = d.ServiceDescriptorProto(name=name)
        s.method.extend(methods)
        if host:
            s.options.Extensions[client_pb2.default_host] = host
        if scopes:
            s.options.Extensions[client_pb2.oauth_scopes] = scopes
        return s

    def document(fdp, skip_every=3):
        """Attach a comment to (almost) every element, naming the element.

        A wrong documentation path would therefore show up in the output.
        Every `skip_every`-th element stays undocumented on purpose.
        """
        counter = [0]

        def add(path, what):
            counter[0] += 1
            if counter[0] % skip_every == 0:
                return
            loc = fdp.source_code_info.location.add()
            loc.path.extend(path)
            kind = counter[0] % 4
            if kind == 0:
                loc.trailing_comments = " Trailing words about %s. " % what
            elif kind == 1:
                loc.leading_detached_comments.append(" Detached: %s " % what)
                loc.leading_detached_comments.append(" second paragraph ")
            else:
                loc.leading_comments = (
                    " The %s.\n Wraps onto a second line with `code` and a\n"
                    " list:\n\n - one\n - two\n" % what)

        def walk_enum(e, path):
            add(path, "enum " + e.name)
            for j, v in enumerate(e.value):
                add(path + [2, j], "value " + v.name)

        def walk_message(m, path):
            add(path, "message " + m.name)
            for j, f in enumerate(m.field):
                add(path + [2, j], "field %s.%s" % (m.name, f.name))
            for j, n in enumerate(m.nested_type):
                walk_message(n, path + [3, j])
            for j, e in enumerate(m.enum_type):
                walk_enum(e, path + [4, j])
            for j, o in enumerate(m.oneof_decl):
                add(path + [8, j], "oneof " + o.name)

        for i, m in enumerate(fdp.message_type):
            walk_message(m, [4, i])
        for i, e in enumerate(fdp.enum_type):
            walk_enum(e, [5, i])
        for i, s in enumerate(fdp.service):
            add([6, i], "service " + s.name)
            for j, meth in enumerate(s.method):
                add([6, i, 2, j], "method %s.%s" % (s.name, meth.name))
        return fdp

    def proto_file(name, package, deps, messages=(), enums=(), services=(),
                   docs=True):
        f = d.FileDescriptorProto(name=name, package=package, syntax="proto3")
        f.dependency.extend(deps)
        f.message_type.extend(messages)
        f.enum_type.extend(enums)
        f.service.extend(services)
        return document(f) if docs else f

    # ----------------------------------------------------------------- A ---
    # One rich file: nested types, maps, oneofs, proto3 optional, recursion,
    # reserved words, enum options, all streaming kinds, paging, LRO, REST.
    pkg = "google.example.library.v1"
    P = "." + pkg
    book = message(
        "Book",
        fields=[
            field("name", 1),
            field("genre", 2, ENUM, P + ".Genre"),
            field("labels", 3, MSG, P + ".Book.LabelsEntry", REP),
            field("editions", 4, MSG, P + ".Book.EditionsEntry", REP),
            field("tags", 5, STR, label=REP),
            field("hardcover", 6, STR, oneof=0),
            field("ebook", 7, MSG, P + ".Book.Ebook", oneof=0),
            field("only_choice", 8, I32, oneof=1),
            field("rating", 9, I32, oneof=2, optional=True),
            field("sequel", 10, MSG, P + ".Book"),
            field("class", 11, STR),
            field("from", 12, BOOL),
            field("condition", 13, ENUM, P + ".Book.Condition", REP),
            field("created", 14, MSG, ".google.protobuf.Timestamp"),
            field("ratings_by_year", 15, MSG, P + ".Book.RatingsByYearEntry", REP),
            field("genre_by_reader", 16, MSG, P + ".Book.GenreByReaderEntry", REP),
        ],
        nested=[
            map_entry("LabelsEntry"),
            map_entry("EditionsEntry", MSG, P + ".Book.Ebook"),
            message("Ebook",
                    fields=[field("format", 1, ENUM, P + ".Book.Ebook.Format"),
                            field("size_bytes", 2, I64),
                            field("drm", 3, MSG, P + ".Book.Ebook.Drm")],
                    nested=[message("Drm", [field("vendor", 1)])],
                    enums=[enum("Format", [("FORMAT_UNSPECIFIED", 0), ("EPUB", 1),
                                           ("PDF", 2)])]),
            map_entry("RatingsByYearEntry", DBL, key_type=I32),
            map_entry("GenreByReaderEntry", ENUM, P + ".Genre"),
        ],
        enums=[enum("Condition", [("CONDITION_UNSPECIFIED", 0), ("NEW", 1),
                                  ("USED", 2), ("MINT", 1)], alias=True)],
        oneofs=["format", "single", "_rating"],
        resource=("library.example.com/Book", "shelves/{shelf}/books/{book}"),
    )
    shelf = message(
        "Shelf", [field("name", 1), field("theme", 2),
                  field("books", 3, MSG, P + ".Book", REP)],
        resource=("library.example.com/Shelf", "shelves/{shelf}"))
    msgs_a = [
        book, shelf,
        message("GetBookRequest", [field("name", 1, required=True,
                                         ref="library.example.com/Book")]),
        message("ListBooksRequest", [
            field("parent", 1, required=True, ref="library.example.com/Shelf"),
            field("page_size", 2, I32), field("page_token", 3),
            field("filter", 4, optional=True, oneof=0)], oneofs=["_filter"]),
        message("ListBooksResponse", [field("books", 1, MSG, P + ".Book", REP),
                                      field("next_page_token", 2)]),
        message("ListTagsRequest", [field("parent", 1), field("page_size", 2, I32),
                                    field("page_token", 3)]),
        message("ListTagsResponse", [field("tags", 1, STR, label=REP),
                                     field("next_page_token", 2)]),
        message("CreateBookRequest", [
            field("parent", 1, required=True), field("book", 2, MSG, P + ".Book"),
            field("update_mask", 3, MSG, ".google.protobuf.FieldMask")]),
        message("DeleteBookRequest", [field("name", 1)]),
        message("WriteBookRequest", [field("name", 1), field("chunk", 2, BYTES)]),
        message("WriteMetadata", [field("progress", 1, DBL)]),
        message("Nothing"),
    ]
    enums_a = [
        enum("Genre", [("GENRE_UNSPECIFIED", 0), ("FICTION", 1), ("NONFICTION", 2),
                       ("POETRY", 5)]),
        enum("Any", [("ANY_UNSPECIFIED", 0), ("SOME", 1)]),
    ]
    library = service("Library", [
        method("GetBook", P + ".GetBookRequest", P + ".Book",
               ("get", "/v1/{name=shelves/*/books/*}", None), sig=["name"]),
        method("ListBooks", P + ".ListBooksRequest", P + ".ListBooksResponse",
               ("get", "/v1/{parent=shelves/*}/books", None), sig=["parent"]),
        method("ListTags", P + ".ListTagsRequest", P + ".ListTagsResponse",
               ("get", "/v1/{parent=shelves/*}/tags", None)),
        method("CreateBook", P + ".CreateBookRequest", P + ".Book",
               ("post", "/v1/{parent=shelves/*}/books", "book"),
               sig=["parent,book", "parent"],
               more=[("post", "/v1/{parent=shelves/*}/books:create", "*")]),
        method("DeleteBook", P + ".DeleteBookRequest", ".google.protobuf.Empty",
               ("delete", "/v1/{name=shelves/*/books/*}", None)),
        method("WriteBook", P + ".WriteBookRequest", ".google.longrunning.Operation",
               ("post", "/v1/{name=shelves/*/books/*}:write", "*"),
               lro=("Book", "WriteMetadata")),
        method("StreamBooks", P + ".ListBooksRequest", P + ".Book",
               ("get", "/v1/{parent=shelves/*}/books:stream", None), ss=True),
        method("UploadBooks", P + ".Book", P + ".Nothing", cs=True),
        method("Chat", P + ".Book", P + ".Book", cs=True, ss=True),
    ], host="library.example.com",
        scopes="https://www.googleapis.com/auth/cloud-platform,"
               "https://www.googleapis.com/auth/books")
    file_a = proto_file("google/example/library/v1/library.proto", pkg, std_names,
                        msgs_a, enums_a, [library])
    set_a = std + [file_a]
    gen_a = [file_a.name]

    # ----------------------------------------------------------------- B ---
    # Several files and services, a proto sub-package, an enum-only file, a
    # service-only file, a file without anything, and a dependency package
    # whose module name clashes with local names.
    common_pkg = "google.example.common"
    common = proto_file(
        "google/example/common/money.proto", common_pkg, [],
        [message("Money", [field("units", 1, I64), field("currency", 2)])],
        [enum("Rounding", [("ROUNDING_UNSPECIFIED", 0), ("UP", 1)])], docs=False)
    other_common = proto_file(
        "google/example/other/money.proto", "google.example.other", [],
        [message("Coin", [field("cents", 1, I32)])], docs=False)

    mpkg = "google.example.multi.v1"
    M = "." + mpkg
    kinds = proto_file(
        "google/example/multi/v1/kinds.proto", mpkg, [],
        enums=[enum("Kind", [("KIND_UNSPECIFIED", 0), ("SMALL", 1), ("LARGE", 2)]),
               enum("Shade", [("SHADE_UNSPECIFIED", 0)])])
    nothing = proto_file("google/example/multi/v1/nothing.proto", mpkg, [])
    things = proto_file(
        "google/example/multi/v1/things.proto", mpkg,
        ["google/example/multi/v1/kinds.proto", "google/example/common/money.proto",
         "google/example/other/money.proto", "google/protobuf/empty.proto"],
        [
            message("Thing", [
                field("name", 1), field("kind", 2, ENUM, M + ".Kind"),
                field("price", 3, MSG, ".google.example.common.Money"),
                field("change", 4, MSG, ".google.example.other.Coin", REP),
                field("money", 5, STR),
                field("later", 6, MSG, M + ".Later"),
                field("rounding", 7, ENUM, ".google.example.common.Rounding"),
            ], resource=("multi.example.com/Thing", "things/{thing}",
                         "folders/{folder}/things/{thing}")),
            message("GetThingRequest", [field("name", 1)]),
            message("ListThingsRequest", [field("page_size", 1, I32),
                                          field("page_token", 2)]),
            message("ListThingsResponse", [
                field("things", 1, MSG, M + ".ListThingsResponse.ThingsEntry", REP),
                field("next_page_token", 2)],
                nested=[map_entry("ThingsEntry", MSG, M + ".Thing")]),
            message("Later", [field("thing", 1, MSG, M + ".Thing")]),
        ])
    svc_only = proto_file(
        "google/example/multi/v1/thing_service.proto", mpkg,
        ["google/example/multi/v1/things.proto", "google/api/annotations.proto",
         "google/api/client.proto", "google/protobuf/empty.proto"],
        services=[
            service("ThingService", [
                method("GetThing", M + ".GetThingRequest", M + ".Thing",
                       ("get", "/v1/{name=things/*}", None), sig=["name"],
                       more=[("get", "/v1/{name=folders/*/things/*}", None)]),
                method("ListThings", M + ".ListThingsRequest",
                       M + ".ListThingsResponse", ("get", "/v1/things", None)),
                method("Ping", ".google.protobuf.Empty", ".google.protobuf.Empty",
                       ("post", "/v1/ping", "*")),
            ], host="multi.example.com"),
            service("Bare", [
                method("Touch", M + ".GetThingRequest", M + ".Thing"),
            ], host="bare.example.com:443"),
        ])
    sub_pkg = mpkg + ".admin"
    S = "." + sub_pkg
    admin = proto_file(
        "google/example/multi/v1/admin/admin.proto", sub_pkg,
        ["google/example/multi/v1/things.proto", "google/api/annotations.proto",
         "google/api/client.proto"],
        [message("Audit", [field("thing", 1, MSG, M + ".Thing"),
                           field("level", 2, ENUM, S + ".Level"),
                           field("note", 3, oneof=0), field("code", 4, I32, oneof=0)],
                 oneofs=["detail"]),
         message("AuditRequest", [field("name", 1)])],
        [enum("Level", [("LEVEL_UNSPECIFIED", 0), ("HIGH", 1)])],
        [service("Admin", [
            method("RunAudit", S + ".AuditRequest", S + ".Audit",
                   ("post", "/v1/{name=things/*}:audit", "*")),
            method("WatchAudits", S + ".AuditRequest", S + ".Audit", ss=True),
        ], host="multi.example.com")])
    set_b = std + [common, other_common, kinds, nothing, things, svc_only, admin]
    gen_b = [kinds.name, nothing.name, things.name, svc_only.name, admin.name]

    # ----------------------------------------------------------------- C ---
    # Types only: empty messages, optional-only message, single-member oneof,
    # deep nesting, undocumented everything, names that are Python keywords.
    tpkg = "example.shapes.v1beta1"
    T = "." + tpkg
    shapes = proto_file(
        "example/shapes/v1beta1/shapes.proto", tpkg, [],
        [
            message("Empty"),
            message("OnlyOptional", [field("a", 1, I32, oneof=0, optional=True),
                                     field("b", 2, STR, oneof=1, optional=True)],
                    oneofs=["_a", "_b"]),
            message("Single", [field("lonely", 1, STR, oneof=0)], oneofs=["pick"]),
            message("Mixed", [field("x", 1, STR, oneof=0),
                              field("y", 2, I32, oneof=1),
                              field("z", 3, BOOL, oneof=1),
                              field("w", 4, BOOL, oneof=2, optional=True)],
                    oneofs=["first", "second", "_w"]),
            message("Outer", [field("inner", 1, MSG, T + ".Outer.Middle.Inner"),
                              field("lookup", 2, MSG, T + ".Outer.LookupEntry", REP)],
                    nested=[
                        message("Middle", nested=[
                            message("Inner", [field("value", 1, ENUM,
                                                    T + ".Outer.Middle.Inner.Deep")],
                                    enums=[enum("Deep", [("DEEP_UNSPECIFIED", 0)])])]),
                        map_entry("LookupEntry", MSG, T + ".Outer.Middle")]),
            message("Next", [field("next_page_token", 1), field("import", 2),
                             field("lambda", 3, MSG, T + ".Empty")]),
            message("Forward", [field("later", 1, MSG, T + ".ZLast"),
                                field("when", 2, ENUM, T + ".ZEnum")]),
            message("ZLast", [field("back", 1, MSG, T + ".Forward", REP)]),
        ],
        [enum("ZEnum", [("Z_UNSPECIFIED", 0), ("Z_ONE", 1)]),
         enum("Sparse", [("SPARSE_UNSPECIFIED", 0), ("NEGATIVE", -1),
                         ("BIG", 2147483647)])],
        docs=False)
    set_c = [shapes]
    gen_c = [shapes.name]
    shapes_doc = d.FileDescriptorProto()
    shapes_doc.CopyFrom(shapes)
    document(shapes_doc, skip_every=2)

    def case(label, files, to_generate, options):
        return {"label": label, "files": [f.SerializeToString() for f in files],
                "to_generate": to_generate, "options": options}

    return [
        case("library/default", set_a, gen_a, ""),
        case("library/rest-numeric-nosnippets", set_a, gen_a,
             "transport=rest,rest-numeric-enums,autogen-snippets=false"),
        case("library/grpc+rest-metadata", set_a, gen_a,
             "transport=grpc+rest,metadata,autogen-snippets=false"),
        case("multi/grpc+rest", set_b, gen_b,
             "transport=grpc+rest,metadata,autogen-snippets=false,"
             "python-gapic-namespace=Acme.Cloud,python-gapic-name=multi_thing,"
             "warehouse-package-name=acme-multi-thing"),
        # (snippet generation cannot cope with a service in a proto
        # sub-package, in either tree, so snippets are on only without it)
        case("multi/grpc-subpackage", set_b, gen_b,
             "transport=grpc,autogen-snippets=false"),
        case("multi/grpc-snippets", set_b[:-1], gen_b[:-1], "transport=grpc"),
        case("multi/rest", set_b, gen_b, "transport=rest,autogen-snippets=false"),
        case("shapes/types-only", set_c, gen_c, "autogen-snippets=false"),
        case("shapes/types-only-documented-rest", [shapes_doc], gen_c,
             "transport=rest"),
        case("library/ads-templates", set_a, gen_a,
             "old-naming,python-gapic-templates=ads-templates"),
    ]


# ---------------------------------------------------------------------------
# Parent side
# ---------------------------------------------------------------------------
def main(argv):
    if len(argv) >= 2 and argv[1] == "--worker":
        return worker(argv[2], argv[3], argv[4])
    if len(argv) != 2:
        print(__doc__)
        return 2
    checkout = os.path.realpath(argv[1])
    scratch = tempfile.mkdtemp(prefix="twin-V01-")
    try:
        pristine = os.path.join(scratch, "pristine")
        os.mkdir(pristine)
        archive = subprocess.Popen(["git", "-C", checkout, "archive", "HEAD"],
                                   stdout=subprocess.PIPE)
        subprocess.check_call(["tar", "-x", "-C", pristine], stdin=archive.stdout)
        archive.stdout.close()
        assert archive.wait() == 0

        cases = build_cases()
        cases_path = os.path.join(scratch, "cases.pkl")
        with open(cases_path, "wb") as fh:
            pickle.dump(cases, fh)

        env = dict(os.environ)
        env.pop("PYTHONPATH", None)
        env["PYTHONDONTWRITEBYTECODE"] = "1"
        env["PYTHONHASHSEED"] = "0"
        procs = {}
        for tag, tree in (("pristine", pristine), ("changed", checkout)):
            out = os.path.join(scratch, tag + ".pkl")
            procs[tag] = (out, subprocess.Popen(
                [sys.executable, os.path.abspath(__file__), "--worker", tree,
                 cases_path, out],
                env=env, cwd=scratch, stdout=subprocess.PIPE,
                stderr=subprocess.STDOUT))
        outputs = {}
        for tag, (out, proc) in procs.items():
            log = proc.communicate()[0].decode("utf-8", "replace")
            if proc.returncode != 0:
                print("worker for the %s tree failed:\n%s" % (tag, log))
                return 1
            with open(out, "rb") as fh:
                outputs[tag] = pickle.load(fh)

        before, after = outputs["pristine"], outputs["changed"]
        problems = []
        n_files = n_errors = 0
        for label in sorted(set(before) | set(after)):
            a, b = before.get(label), after.get(label)
            if a is None or b is None:
                problems.append("%s: missing in one run" % label)
                continue
            if "error" in a or "error" in b:
                n_errors += 1
                if a.get("error") != b.get("error"):
                    problems.append("%s: errors differ: %r vs %r"
                                    % (label, a.get("error"), b.get("error")))
                continue
            if a["order"] != b["order"]:
                problems.append("%s: file list/order differs" % label)
            for name in sorted(set(a["files"]) | set(b["files"])):
                n_files += 1
                if name not in a["files"]:
                    problems.append("%s: only after: %s" % (label, name))
                elif name not in b["files"]:
                    problems.append("%s: only before: %s" % (label, name))
                elif a["files"][name] != b["files"][name]:
                    problems.append("%s: differs: %s" % (label, name))
        # The demo is only meaningful if the main cases really generate.
        for label in sorted(before):
            if "error" in before[label]:
                problems.append("%s: generation failed in the pristine tree: %s"
                                % (label, before[label]["error"]))
        if problems:
            print("DIFFERENT: %d problem(s)" % len(problems))
            for p in problems:
                print("  " + p)
            return 1
        print("IDENTICAL: %d cases (%d raised the same error), %d outputs compared "
              "byte for byte; gapic modules checked: %d / %d"
              % (len(cases), n_errors, n_files,
                 before["__meta__"]["modules_checked"],
                 after["__meta__"]["modules_checked"]))
        return 0
    finally:
        shutil.rmtree(scratch, ignore_errors=True)


if __name__ == "__main__":
    sys.exit(main(sys.argv))
