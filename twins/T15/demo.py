#!/usr/bin/env python
"""Equivalence demo for the T15 refactoring (property C15: gapic_metadata.json
and the keyword fix-up script).

Usage:  /venv/bin/python demo.py <path-to-a-checkout-with-the-change>

The checkout's HEAD is exported to a temp dir (pristine tree); the checkout's
working tree is the refactored tree.  Several API descriptions are generated
with both trees (in separate subprocesses) and every output file is compared
byte for byte.
"""
import hashlib
import json
import os
import pickle
import shutil
import subprocess
import sys
import tempfile


# --------------------------------------------------------------------------
# Worker: runs inside a subprocess with exactly one `gapic` tree on sys.path.
# --------------------------------------------------------------------------
def worker(tree, cases_path, out_path):
    tree = os.path.realpath(tree)
    sys.path.insert(0, tree)
    os.chdir(tree)

    # pandoc is not installed: stub the conversion identically for both runs.
    import pypandoc

    def _convert_text(source, to, format=None, extra_args=(), **kw):
        return source

    pypandoc.convert_text = _convert_text

    import gapic.generator.generator
    import gapic.schema.api
    import gapic.schema.wrappers
    import gapic.utils

    for mod in (gapic.generator.generator, gapic.schema.api, gapic.schema.wrappers,
                gapic.utils):
        # (`gapic` itself is a namespace package, so check real modules.)
        assert os.path.realpath(mod.__file__).startswith(tree + os.sep), mod.__file__

    from google.protobuf import descriptor_pb2
    from gapic.generator import Generator
    from gapic.schema.api import API
    from gapic.utils import Options

    with open(cases_path, "rb") as f:
        cases = pickle.load(f)

    results = {}
    for case in cases:
        fds = []
        for blob in case["files"]:
            fd = descriptor_pb2.FileDescriptorProto()
            fd.ParseFromString(blob)
            fds.append(fd)
        opts = Options.build(case["options"])
        api = API.build(fds, package=case["package"], opts=opts)
        response = Generator(opts).get_response(api, opts)
        files = {}
        for out in response.file:
            assert out.name not in files, ("duplicate output", out.name)
            files[out.name] = out.content
        # Sanity: the two artefacts of the property must be there.
        assert any(n.endswith("gapic_metadata.json") for n in files), case["name"]
        assert any("fixup_" in n and n.endswith("_keywords.py") for n in files), case[
            "name"
        ]
        # Extra observations straight from the schema API (stored as pseudo
        # files): the metadata for every transport selection, including one the
        # templates cannot render ("custom": no grpc, no rest).
        for tprt in ("grpc", "rest", "grpc+rest", "rest+grpc", "custom", "custom+rest"):
            files[f"<gapic_metadata_json transport={tprt}>"] = api.gapic_metadata_json(
                Options.build("transport=" + tprt)
            )
        for sub_name, sub_api in sorted(api.subpackages.items()):
            files[f"<gapic_metadata_json subpackage={sub_name}>"] = (
                sub_api.gapic_metadata_json(opts)
            )
        results[case["name"]] = files

    with open(out_path, "wb") as f:
        pickle.dump(results, f)


# --------------------------------------------------------------------------
# API descriptions (built with descriptor_pb2 only; no gapic import here).
# --------------------------------------------------------------------------
def build_cases(tmpdir):
    from google.api import annotations_pb2, client_pb2, field_behavior_pb2
    from google.api import resource_pb2  # noqa: F401
    from google.longrunning import operations_pb2
    from google.protobuf import descriptor_pb2 as pb
    from google.protobuf import empty_pb2, field_mask_pb2  # noqa: F401

    F = pb.FieldDescriptorProto
    REQUIRED = field_behavior_pb2.REQUIRED

    def dep_closure(modules):
        """Serialized FileDescriptorProtos of the modules and their
        transitive dependencies, dependencies first."""
        seen, ordered = set(), []

        def visit(file_desc):
            if file_desc.name in seen:
                return
            seen.add(file_desc.name)
            for dep in file_desc.dependencies:
                visit(dep)
            fdp = pb.FileDescriptorProto()
            file_desc.CopyToProto(fdp)
            ordered.append(fdp.SerializeToString(deterministic=True))

        for mod in modules:
            visit(mod.DESCRIPTOR)
        return ordered

    COMMON_DEPS = dep_closure(
        [
            annotations_pb2,
            client_pb2,
            field_behavior_pb2,
            resource_pb2,
            operations_pb2,
            empty_pb2,
            field_mask_pb2,
        ]
    )
    COMMON_DEP_NAMES = [
        "google/api/annotations.proto",
        "google/api/client.proto",
        "google/api/field_behavior.proto",
        "google/api/resource.proto",
        "google/longrunning/operations.proto",
        "google/protobuf/empty.proto",
        "google/protobuf/field_mask.proto",
    ]

    def field(name, number, type_=F.TYPE_STRING, *, label=F.LABEL_OPTIONAL,
              type_name=None, required=False, oneof=None, proto3_optional=False):
        f = F(name=name, number=number, type=type_, label=label)
        f.json_name = "".join(
            p if i == 0 else p.capitalize() for i, p in enumerate(name.split("_"))
        )
        if type_name:
            f.type_name = type_name
        if required:
            f.options.Extensions[field_behavior_pb2.field_behavior].append(REQUIRED)
        if oneof is not None:
            f.oneof_index = oneof
        if proto3_optional:
            f.proto3_optional = True
        return f

    def message(name, fields=(), *, oneofs=(), nested=(), map_entries=()):
        m = pb.DescriptorProto(name=name)
        m.field.extend(fields)
        for o in oneofs:
            m.oneof_decl.add(name=o)
        m.nested_type.extend(nested)
        for entry_name, val_type, val_type_name in map_entries:
            e = m.nested_type.add(name=entry_name)
            e.options.map_entry = True
            e.field.append(field("key", 1))
            e.field.append(field("value", 2, val_type, type_name=val_type_name))
        return m

    def method(name, inp, out, *, http=None, signature=None, client_streaming=False,
               server_streaming=False, lro=None):
        m = pb.MethodDescriptorProto(
            name=name, input_type=inp, output_type=out,
            client_streaming=client_streaming, server_streaming=server_streaming,
        )
        if http:
            verb, uri, body = http
            rule = m.options.Extensions[annotations_pb2.http]
            setattr(rule, verb, uri)
            if body:
                rule.body = body
        for sig in signature or ():
            m.options.Extensions[client_pb2.method_signature].append(sig)
        if lro:
            info = m.options.Extensions[operations_pb2.operation_info]
            info.response_type, info.metadata_type = lro
        return m

    def service(name, methods, host="example.googleapis.com"):
        s = pb.ServiceDescriptorProto(name=name)
        s.method.extend(methods)
        s.options.Extensions[client_pb2.default_host] = host
        s.options.Extensions[client_pb2.oauth_scopes] = (
            "https://www.googleapis.com/auth/cloud-platform"
        )
        return s

    def file_(name, package, *, messages=(), services=(), enums=(), deps=()):
        fd = pb.FileDescriptorProto(name=name, package=package, syntax="proto3")
        fd.dependency.extend(list(COMMON_DEP_NAMES) + list(deps))
        fd.message_type.extend(messages)
        fd.service.extend(services)
        fd.enum_type.extend(enums)
        return fd.SerializeToString(deterministic=True)

    def enum(name, values):
        e = pb.EnumDescriptorProto(name=name)
        for i, v in enumerate(values):
            e.value.add(name=v, number=i)
        return e

    # ---- Library API: two services, keyword-named RPCs, reserved-word
    # fields, required fields declared late, maps, repeated, oneofs, paging,
    # LRO, all streaming kinds, an RPC name shared by both services, an RPC
    # whose names differ only by case ordering, empty request message.
    def library_files(pkg, with_http):
        P = "." + pkg
        path = pkg.replace(".", "/")

        def h(verb, uri, body=None):
            return (verb, uri, body) if with_http else None

        msgs = [
            message("Book", [
                field("name", 1),
                field("title", 2),
                field("class", 3),
                field("rating", 4, F.TYPE_ENUM, type_name=P + ".Rating"),
                field("labels", 5, F.TYPE_MESSAGE, label=F.LABEL_REPEATED,
                      type_name=P + ".Book.LabelsEntry"),
            ], map_entries=[("LabelsEntry", F.TYPE_STRING, None)]),
            message("GetBookRequest", [
                field("name", 1, required=True),
            ]),
            # required fields are NOT declared first: order must be
            # (parent, book, in), then (from, validate_only, page_size, tags, kind...).
            message("ImportRequest", [
                field("from", 1),
                field("parent", 2, required=True),
                field("validate_only", 3, F.TYPE_BOOL),
                field("book", 4, F.TYPE_MESSAGE, type_name=P + ".Book", required=True),
                field("page_size", 5, F.TYPE_INT32),
                field("in", 6, required=True),
                field("tags", 7, label=F.LABEL_REPEATED),
                field("by_isbn", 8, oneof=0),
                field("by_title", 9, oneof=0),
                field("note", 10, oneof=1, proto3_optional=True),
                field("extra", 11, F.TYPE_MESSAGE, label=F.LABEL_REPEATED,
                      type_name=P + ".ImportRequest.ExtraEntry"),
                field("update_mask", 12, F.TYPE_MESSAGE,
                      type_name=".google.protobuf.FieldMask"),
            ], oneofs=["kind", "_note"],
                map_entries=[("ExtraEntry", F.TYPE_MESSAGE, P + ".Book")]),
            message("ImportResponse", [field("count", 1, F.TYPE_INT32)]),
            message("ImportMetadata", [field("progress", 1, F.TYPE_INT32)]),
            message("ListBooksRequest", [
                field("page_token", 1),
                field("page_size", 2, F.TYPE_INT32),
                field("parent", 3, required=True),
                field("filter", 4),
            ]),
            message("ListBooksResponse", [
                field("books", 1, F.TYPE_MESSAGE, label=F.LABEL_REPEATED,
                      type_name=P + ".Book"),
                field("next_page_token", 2),
            ]),
            message("PingRequest"),  # no fields at all
            message("PingResponse", [field("ok", 1, F.TYPE_BOOL)]),
            message("StreamRequest", [
                field("chunk", 1, F.TYPE_BYTES),
                field("stream_id", 2, required=True),
            ]),
            message("StreamResponse", [field("chunk", 1, F.TYPE_BYTES)]),
            message("DeleteBookRequest", [
                field("force", 1, F.TYPE_BOOL),
                field("name", 2, required=True),
                field("etag", 3, required=True),
            ]),
        ]
        library = service("Library", [
            method("GetBook", P + ".GetBookRequest", P + ".Book",
                   http=h("get", "/v1/{name=shelves/*/books/*}"), signature=["name"]),
            method("Import", P + ".ImportRequest", ".google.longrunning.Operation",
                   http=h("post", "/v1/{parent=shelves/*}/books:import", "*"),
                   signature=["parent,book", ""],
                   lro=("ImportResponse", "ImportMetadata")),
            method("ListBooks", P + ".ListBooksRequest", P + ".ListBooksResponse",
                   http=h("get", "/v1/{parent=shelves/*}/books"), signature=["parent"]),
            method("DeleteBook", P + ".DeleteBookRequest", ".google.protobuf.Empty",
                   http=h("delete", "/v1/{name=shelves/*/books/*}")),
            method("Ping", P + ".PingRequest", P + ".PingResponse",
                   http=h("get", "/v1/ping")),
            method("ReadStream", P + ".StreamRequest", P + ".StreamResponse",
                   http=h("get", "/v1/stream/{stream_id}"), server_streaming=True),
        ] + ([] if with_http else [
            method("WriteStream", P + ".StreamRequest", P + ".StreamResponse",
                   client_streaming=True),
            method("Chat", P + ".StreamRequest", P + ".StreamResponse",
                   client_streaming=True, server_streaming=True),
        ]))
        archive = service("Archive", [
            # keyword-named RPCs and a name shared with the other service
            method("Return", P + ".GetBookRequest", P + ".Book",
                   http=h("post", "/v1/{name=shelves/*/books/*}:return", "*")),
            method("Class", P + ".DeleteBookRequest", P + ".Book",
                   http=h("post", "/v1/{name=shelves/*/books/*}:class", "*")),
            method("Ping", P + ".StreamRequest", P + ".PingResponse",
                   http=h("get", "/v1/archive/{stream_id}:ping")),
            method("GetBook", P + ".ListBooksRequest", P + ".Book",
                   http=h("get", "/v1/{parent=archive/*}/book")),
        ], host="archive.example.com")
        operations_dep = []
        return COMMON_DEPS + operations_dep + [
            file_(path + "/library.proto", pkg, messages=msgs,
                  services=[library, archive],
                  enums=[enum("Rating", ["RATING_UNSPECIFIED", "GOOD", "BAD"])]),
        ]

    # ---- API with a sub-package and a service without methods.
    def subpkg_files():
        pkg = "acme.storage.v2"
        P = "." + pkg
        top = file_("acme/storage/v2/buckets.proto", pkg, messages=[
            message("Bucket", [field("name", 1), field("global", 2)]),
            message("CreateBucketRequest", [
                field("bucket_id", 1),
                field("bucket", 2, F.TYPE_MESSAGE, type_name=P + ".Bucket",
                      required=True),
                field("parent", 3, required=True),
            ]),
            message("LambdaRequest", [
                field("lambda", 1), field("not", 2, required=True),
                field("with", 3), field("is", 4, required=True),
            ]),
        ], services=[
            service("Buckets", [
                method("CreateBucket", P + ".CreateBucketRequest", P + ".Bucket",
                       http=("post", "/v2/{parent=projects/*}/buckets", "bucket"),
                       signature=["parent,bucket,bucket_id"]),
                method("Lambda", P + ".LambdaRequest", P + ".Bucket",
                       http=("post", "/v2/lambda", "*")),
                method("Global", P + ".LambdaRequest", ".google.protobuf.Empty",
                       http=("post", "/v2/global", "*")),
            ], host="storage.acme.test"),
            service("Idle", [], host="idle.acme.test"),
        ])
        sub = file_("acme/storage/v2/admin/admin.proto", pkg + ".admin", messages=[
            message("PurgeRequest", [
                field("dry_run", 1, F.TYPE_BOOL),
                field("bucket", 2, F.TYPE_MESSAGE, type_name=P + ".Bucket",
                      required=True),
            ]),
            message("PurgeResponse"),
        ], services=[
            service("Admin", [
                method("Purge", P + ".admin.PurgeRequest", P + ".admin.PurgeResponse",
                       http=("post", "/v2/admin:purge", "*")),
                method("CreateBucket", P + ".CreateBucketRequest", P + ".Bucket",
                       http=("post", "/v2/admin/{parent=projects/*}/buckets", "*")),
            ], host="admin.acme.test"),
        ], deps=["acme/storage/v2/buckets.proto"])
        return COMMON_DEPS + [top, sub]

    def write_yaml(name, doc):
        import yaml
        path = os.path.join(tmpdir, name)
        with open(path, "w") as f:
            yaml.safe_dump(doc, f)
        return path

    internal_yaml = write_yaml("internal.yaml", {
        "apis": [{"name": "google.cloud.library.v1.Library"},
                 {"name": "google.cloud.library.v1.Archive"}],
        "publishing": {"library_settings": [{
            "version": "google.cloud.library.v1",
            "python_settings": {"common": {"selective_gapic_generation": {
                "methods": [
                    "google.cloud.library.v1.Library.GetBook",
                    "google.cloud.library.v1.Library.Ping",
                    "google.cloud.library.v1.Archive.Class",
                ],
                "generate_omitted_as_internal": True,
            }}},
        }]},
    })
    selective_yaml = write_yaml("selective.yaml", {
        "apis": [{"name": "google.cloud.library.v1.Library"},
                 {"name": "google.cloud.library.v1.Archive"}],
        "publishing": {"library_settings": [{
            "version": "google.cloud.library.v1",
            "python_settings": {"common": {"selective_gapic_generation": {
                "methods": [
                    "google.cloud.library.v1.Library.Import",
                    "google.cloud.library.v1.Archive.Return",
                ],
                "generate_omitted_as_internal": False,
            }}},
        }]},
    })

    lib_grpc = library_files("google.cloud.library.v1", with_http=False)
    lib_http = library_files("google.cloud.library.v1", with_http=True)
    lib_plain = library_files("bookstore", with_http=True)  # unversioned, no namespace
    sub = subpkg_files()

    return [
        dict(name="library-grpc-default", package="google.cloud.library.v1",
             files=lib_grpc, options="metadata"),
        dict(name="library-rest-numeric", package="google.cloud.library.v1",
             files=lib_http, options="metadata,transport=rest,rest-numeric-enums"),
        dict(name="library-grpc+rest-nosnippets", package="google.cloud.library.v1",
             files=lib_http,
             options="metadata,transport=grpc+rest,autogen-snippets=false"),
        dict(name="library-internal-methods", package="google.cloud.library.v1",
             files=lib_http,
             options="metadata,transport=grpc+rest,service-yaml=" + internal_yaml),
        dict(name="library-internal-grpc-iam", package="google.cloud.library.v1",
             files=lib_grpc,
             options="metadata,add-iam-methods,service-yaml=" + internal_yaml),
        dict(name="library-selective-omit", package="google.cloud.library.v1",
             files=lib_http,
             options="metadata,transport=rest+grpc,autogen-snippets=false,service-yaml="
             + selective_yaml),
        dict(name="bookstore-unversioned", package="bookstore",
             files=lib_plain,
             options="metadata,transport=grpc,autogen-snippets=false"),
        dict(name="storage-subpackage", package="acme.storage.v2",
             # (snippet generation cannot handle sub-package services at HEAD)
             files=sub, options="metadata,transport=grpc+rest,autogen-snippets=false,"
             "python-gapic-namespace=acme,python-gapic-name=storage"),
        dict(name="storage-subpackage-rest-oldnaming", package="acme.storage.v2",
             files=sub, options="metadata,transport=rest,old-naming"),
    ]


# --------------------------------------------------------------------------
def main(argv):
    if len(argv) >= 2 and argv[1] == "--worker":
        worker(*argv[2:5])
        return 0
    if len(argv) != 2:
        print(__doc__)
        return 2

    checkout = os.path.realpath(argv[1])
    tmpdir = tempfile.mkdtemp(prefix="twin-demo-T15-")
    try:
        pristine = os.path.join(tmpdir, "pristine")
        os.mkdir(pristine)
        archive = subprocess.Popen(
            ["git", "-C", checkout, "archive", "HEAD"], stdout=subprocess.PIPE
        )
        subprocess.check_call(["tar", "-x", "-C", pristine], stdin=archive.stdout)
        archive.stdout.close()
        if archive.wait() != 0:
            raise RuntimeError("git archive failed")

        cases = build_cases(tmpdir)
        cases_path = os.path.join(tmpdir, "cases.pkl")
        with open(cases_path, "wb") as f:
            pickle.dump(cases, f)

        env = dict(os.environ)
        env.pop("PYTHONPATH", None)
        env["PYTHONDONTWRITEBYTECODE"] = "1"
        env["PYTHONHASHSEED"] = "0"
        outputs = {}
        procs = {}
        for label, tree in (("pristine", pristine), ("changed", checkout)):
            out_path = os.path.join(tmpdir, label + ".pkl")
            procs[label] = (
                subprocess.Popen(
                    [sys.executable, os.path.abspath(__file__), "--worker", tree,
                     cases_path, out_path],
                    env=env, cwd=tmpdir,
                ),
                out_path,
            )
        for label, (proc, out_path) in procs.items():
            if proc.wait() != 0:
                print(f"FAIL: generator run on the {label} tree exited {proc.returncode}")
                return 1
            with open(out_path, "rb") as f:
                outputs[label] = pickle.load(f)

        differing = []
        n_files = 0
        digest = hashlib.sha256()
        for case in cases:
            name = case["name"]
            a, b = outputs["pristine"][name], outputs["changed"][name]
            for fname in sorted(set(a) | set(b)):
                n_files += 1
                if fname not in a:
                    differing.append(f"{name}: {fname} (only with the change)")
                elif fname not in b:
                    differing.append(f"{name}: {fname} (only in pristine)")
                elif a[fname] != b[fname]:
                    differing.append(f"{name}: {fname} (content differs)")
                else:
                    digest.update(fname.encode() + b"\0" + a[fname].encode() + b"\0")
        if differing:
            print(f"DIFFERENT: {len(differing)} of {n_files} output files differ")
            for d in differing:
                print("  " + d)
            return 1
        print(
            f"IDENTICAL: {len(cases)} APIs, {n_files} output files byte-for-byte equal "
            f"(sha256 {digest.hexdigest()[:16]})"
        )
        return 0
    finally:
        shutil.rmtree(tmpdir, ignore_errors=True)


if __name__ == "__main__":
    sys.exit(main(sys.argv))
