#!/usr/bin/env python
"""Equivalence demo for the V03 refactoring (property C03: gRPC call path).

Usage:  /venv/bin/python demo.py <path-to-a-checkout-with-the-change>

The script
  1. exports the pristine HEAD of the checkout into a temp directory
     (`git archive HEAD | tar -x`),
  2. builds several API descriptions in Python (no protoc), plus a gRPC
     service config (retry settings) and a service yaml (mixins),
  3. runs the generator once with the pristine tree and once with the
     checkout's working tree -- each in its own subprocess, in which the tree
     under test is the only provider of the `gapic` package (the editable
     install of the venv is switched off and this is asserted),
  4. compares the sets of output files and their contents byte for byte.

Exit status 0 and a one-line summary when everything is identical; exit
status 1 and a list of the differing files otherwise (2 = demo broken).
"""
import hashlib
import json
import os
import pickle
import shutil
import subprocess
import sys
import tempfile


# --------------------------------------------------------------------------
# Worker: runs inside a subprocess with exactly one `gapic` tree importable.
# --------------------------------------------------------------------------
def _isolate(tree: str) -> None:
    """Make `tree` the only possible provider of the `gapic` package.

    The venv has an editable install of another checkout: a meta path finder
    (`__editable___*_finder._EditableFinder`), a path hook and a placeholder
    entry on sys.path. `gapic` has no `__init__.py` (namespace package), so a
    left-over provider would silently be merged into `gapic.__path__`.
    """
    import importlib

    assert not any(m == "gapic" or m.startswith("gapic.") for m in sys.modules), \
        "gapic imported too early"

    def is_editable(obj) -> bool:
        mod = getattr(obj, "__module__", "") or ""
        owner = getattr(obj, "__self__", None)
        owner_mod = getattr(owner, "__module__", "") or ""
        return mod.startswith("__editable__") or owner_mod.startswith("__editable__")

    sys.meta_path[:] = [f for f in sys.meta_path if not is_editable(f)]
    sys.path_hooks[:] = [h for h in sys.path_hooks if not is_editable(h)]

    kept = []
    for entry in sys.path:
        if entry in ("", ".") or "__editable__" in entry:
            continue
        real = os.path.realpath(entry)
        if real == tree or real == os.getcwd():
            continue
        if os.path.isdir(os.path.join(real, "gapic")):
            continue  # some other checkout that provides `gapic`
        kept.append(entry)
    sys.path[:] = [tree] + kept
    sys.path_importer_cache.clear()
    importlib.invalidate_caches()


def _check_origins(tree: str, template_dirs) -> list:
    problems = []
    prefix = tree + os.sep
    for name, mod in sorted(sys.modules.items()):
        if mod is None or not (name == "gapic" or name.startswith("gapic.")):
            continue
        origin = getattr(mod, "__file__", None)
        if origin is not None:
            if not os.path.realpath(origin).startswith(prefix):
                problems.append("%s loaded from %s" % (name, origin))
        for entry in list(getattr(mod, "__path__", [])):
            if not os.path.realpath(entry).startswith(prefix):
                problems.append("%s.__path__ contains %s" % (name, entry))
    expected_templates = os.path.join(tree, "gapic", "templates")
    for entry in template_dirs:
        if os.path.realpath(entry) != expected_templates:
            problems.append("templates read from %s, expected %s" % (entry, expected_templates))
    return problems


def worker(tree: str, cases_path: str, out_path: str) -> int:
    tree = os.path.realpath(tree)
    _isolate(tree)

    # pandoc is not available here: stub the conversion identically for both
    # runs with a deterministic pure-python function.
    import pypandoc  # type: ignore

    def fake_convert_text(text, to, format=None, extra_args=(), **kwargs):
        return "[rst:%s]\n%s" % (",".join(extra_args), text)

    pypandoc.convert_text = fake_convert_text

    import gapic  # noqa: F401
    from gapic.generator import generator as generator_mod
    from gapic.schema import api as api_mod
    from gapic.schema import wrappers as wrappers_mod  # noqa: F401
    from gapic.utils import Options
    from google.protobuf import descriptor_pb2

    with open(cases_path, "rb") as f:
        cases = pickle.load(f)

    results = {}
    for case in cases:
        fdps = []
        for blob in case["files"]:
            fdp = descriptor_pb2.FileDescriptorProto()
            fdp.ParseFromString(blob)
            fdps.append(fdp)
        opts = Options.build(case["opts"])
        api_schema = api_mod.API.build(fdps, package=case["package"], opts=opts)
        gen = generator_mod.Generator(opts)
        response = gen.get_response(api_schema, opts)
        if response.error:
            print("worker: generator reported an error for %s: %s" % (case["name"], response.error))
            return 2
        problems = _check_origins(tree, list(opts.templates) + list(gen._env.loader.searchpath))
        if problems:
            print("worker: the tree under test is not the only source of gapic:")
            for p in problems:
                print("   " + p)
            return 2
        files = {}
        for out_file in response.file:
            if out_file.name in files:
                print("worker: duplicate output file %s" % out_file.name)
                return 2
            files[out_file.name] = out_file.content.encode("utf-8")
        results[case["name"]] = files

    with open(out_path, "wb") as f:
        pickle.dump(results, f)
    return 0


# --------------------------------------------------------------------------
# API descriptions.
# --------------------------------------------------------------------------
def build_cases(retry_path, all_mixins_yaml, ops_mixin_yaml):
    from google.api import annotations_pb2, client_pb2, field_behavior_pb2, resource_pb2
    from google.cloud import extended_operations_pb2 as ex_ops_pb2
    from google.longrunning import operations_pb2
    from google.protobuf import descriptor_pb2 as d
    from google.protobuf import empty_pb2, struct_pb2, timestamp_pb2, field_mask_pb2

    F = d.FieldDescriptorProto
    OPT, REP = F.LABEL_OPTIONAL, F.LABEL_REPEATED

    # ---- dependency closure of the well-known / common protos -------------
    def closure(*modules):
        seen, ordered = set(), []

        def visit(file_desc):
            if file_desc.name in seen:
                return
            seen.add(file_desc.name)
            for dep in file_desc.dependencies:
                visit(dep)
            fdp = d.FileDescriptorProto()
            file_desc.CopyToProto(fdp)
            ordered.append(fdp)

        for module in modules:
            visit(module.DESCRIPTOR)
        return ordered

    common = closure(
        annotations_pb2,
        client_pb2,
        field_behavior_pb2,
        resource_pb2,
        operations_pb2,
        empty_pb2,
        struct_pb2,
        timestamp_pb2,
        field_mask_pb2,
        ex_ops_pb2,
    )
    common_names = [f.name for f in common]

    # ---- small builders ----------------------------------------------------
    def field(name, number, ftype, label=OPT, type_name=None, oneof_index=None,
              proto3_optional=False, required=False):
        fd = F(name=name, number=number, type=ftype, label=label,
               json_name="".join(w if i == 0 else w.capitalize()
                                 for i, w in enumerate(name.split("_"))))
        if type_name:
            fd.type_name = type_name
        if oneof_index is not None:
            fd.oneof_index = oneof_index
        if proto3_optional:
            fd.proto3_optional = True
        if required:
            fd.options.Extensions[field_behavior_pb2.field_behavior].append(
                field_behavior_pb2.REQUIRED)
        return fd

    def message(name, fields, nested=(), oneofs=(), enums=(), resource=None):
        m = d.DescriptorProto(name=name)
        m.field.extend(fields)
        m.nested_type.extend(nested)
        m.enum_type.extend(enums)
        for oneof in oneofs:
            m.oneof_decl.add(name=oneof)
        if resource:
            res = m.options.Extensions[resource_pb2.resource]
            res.type = resource[0]
            res.pattern.extend(resource[1])
        return m

    def map_entry(name, value_type, value_type_name=None):
        m = d.DescriptorProto(name=name)
        m.field.extend([
            field("key", 1, F.TYPE_STRING),
            field("value", 2, value_type, type_name=value_type_name),
        ])
        m.options.map_entry = True
        return m

    def enum(name, *values):
        e = d.EnumDescriptorProto(name=name)
        for i, v in enumerate(values):
            e.value.add(name=v, number=i)
        return e

    def method(name, inp, out, client_streaming=False, server_streaming=False,
               http=None, signatures=(), lro=None, deprecated=False):
        m = d.MethodDescriptorProto(name=name, input_type=inp, output_type=out)
        if client_streaming:
            m.client_streaming = True
        if server_streaming:
            m.server_streaming = True
        if http:
            verb, uri, body = http
            rule = m.options.Extensions[annotations_pb2.http]
            setattr(rule, verb, uri)
            if body:
                rule.body = body
        for sig in signatures:
            m.options.Extensions[client_pb2.method_signature].append(sig)
        if lro:
            info = m.options.Extensions[operations_pb2.operation_info]
            info.response_type, info.metadata_type = lro
        if deprecated:
            m.options.deprecated = True
        return m

    def service(name, methods, host=None, scopes=None):
        s = d.ServiceDescriptorProto(name=name)
        s.method.extend(methods)
        if host:
            s.options.Extensions[client_pb2.default_host] = host
        if scopes:
            s.options.Extensions[client_pb2.oauth_scopes] = scopes
        return s

    def proto_file(name, package, messages=(), services=(), enums=(), deps=(), comments=()):
        f = d.FileDescriptorProto(name=name, package=package, syntax="proto3")
        f.dependency.extend(deps)
        f.message_type.extend(messages)
        f.enum_type.extend(enums)
        f.service.extend(services)
        for path, text in comments:
            loc = f.source_code_info.location.add()
            loc.path.extend(path)
            loc.leading_comments = text
        return f

    def paged_pair(pkg, item, prefix):
        req = message("List%ssRequest" % prefix, [
            field("parent", 1, F.TYPE_STRING, required=True),
            field("page_size", 2, F.TYPE_INT32),
            field("page_token", 3, F.TYPE_STRING),
        ])
        resp = message("List%ssResponse" % prefix, [
            field("%ss" % prefix.lower(), 1, F.TYPE_MESSAGE, REP, ".%s.%s" % (pkg, item)),
            field("next_page_token", 2, F.TYPE_STRING),
        ])
        return req, resp

    def blobs(*fdps):
        return [f.SerializeToString(deterministic=True) for f in fdps]

    cases = []

    # ======================================================================
    # Case 1: a "library" API: two services, every streaming arity, void,
    # names that collide with transport members / keywords, paging, LRO,
    # request/response types from dependency packages, maps/oneofs/enums,
    # http annotations, documentation comments (incl. markdown).
    # ======================================================================
    pkg = "google.example.library.v1"
    P = "." + pkg + "."
    book = message(
        "Book",
        [
            field("name", 1, F.TYPE_STRING),
            field("title", 2, F.TYPE_STRING),
            field("labels", 3, F.TYPE_MESSAGE, REP, P + "Book.LabelsEntry"),
            field("genre", 4, F.TYPE_ENUM, type_name=P + "Genre"),
            field("isbn", 5, F.TYPE_STRING, oneof_index=0),
            field("serial", 6, F.TYPE_INT64, oneof_index=0),
            field("tags", 7, F.TYPE_STRING, REP),
            field("rating", 8, F.TYPE_DOUBLE, oneof_index=1, proto3_optional=True),
            field("create_time", 9, F.TYPE_MESSAGE, type_name=".google.protobuf.Timestamp"),
            field("class", 10, F.TYPE_STRING),
        ],
        nested=[map_entry("LabelsEntry", F.TYPE_STRING)],
        oneofs=["identifier", "_rating"],
        resource=("library.example.com/Book", ["shelves/{shelf}/books/{book}"]),
    )
    get_book = message("GetBookRequest", [field("name", 1, F.TYPE_STRING, required=True)])
    create_book = message("CreateBookRequest", [
        field("parent", 1, F.TYPE_STRING, required=True),
        field("book", 2, F.TYPE_MESSAGE, type_name=P + "Book", required=True),
    ])
    delete_book = message("DeleteBookRequest", [field("name", 1, F.TYPE_STRING)])
    update_book = message("UpdateBookRequest", [
        field("book", 1, F.TYPE_MESSAGE, type_name=P + "Book"),
        field("update_mask", 2, F.TYPE_MESSAGE, type_name=".google.protobuf.FieldMask"),
    ])
    list_req, list_resp = paged_pair(pkg, "Book", "Book")
    import_req = message("ImportBooksRequest", [
        field("parent", 1, F.TYPE_STRING),
        field("from", 2, F.TYPE_STRING),
    ])
    import_resp = message("ImportBooksResponse", [field("count", 1, F.TYPE_INT32)])
    import_meta = message("ImportBooksMetadata", [field("progress", 1, F.TYPE_FLOAT)])
    chat = message("ChatMessage", [field("text", 1, F.TYPE_STRING)])
    # Same-package request whose flattened fields cover every assignment shape:
    # scalar, repeated google.protobuf.Value, map, repeated scalar, message,
    # reserved word.
    set_values = message(
        "SetValuesRequest",
        [
            field("name", 1, F.TYPE_STRING, required=True),
            field("values", 2, F.TYPE_MESSAGE, REP, ".google.protobuf.Value"),
            field("labels", 3, F.TYPE_MESSAGE, REP, P + "SetValuesRequest.LabelsEntry"),
            field("tags", 4, F.TYPE_STRING, REP),
            field("book", 5, F.TYPE_MESSAGE, type_name=P + "Book"),
            field("global", 6, F.TYPE_BOOL),
            field("single", 7, F.TYPE_MESSAGE, type_name=".google.protobuf.Value"),
        ],
        nested=[map_entry("LabelsEntry", F.TYPE_STRING)],
    )
    library_msgs = [book, get_book, create_book, delete_book, update_book, list_req,
                    list_resp, import_req, import_resp, import_meta, chat, set_values]

    library_service = service(
        "Library",
        [
            method("GetBook", P + "GetBookRequest", P + "Book",
                   http=("get", "/v1/{name=shelves/*/books/*}", None), signatures=["name"]),
            method("CreateBook", P + "CreateBookRequest", P + "Book",
                   http=("post", "/v1/{parent=shelves/*}/books", "book"),
                   signatures=["parent,book"]),
            method("DeleteBook", P + "DeleteBookRequest", ".google.protobuf.Empty",
                   http=("delete", "/v1/{name=shelves/*/books/*}", None), signatures=["name"]),
            method("UpdateBook", P + "UpdateBookRequest", P + "Book",
                   http=("patch", "/v1/{book.name=shelves/*/books/*}", "book"),
                   signatures=["book,update_mask"]),
            method("ListBooks", P + "ListBooksRequest", P + "ListBooksResponse",
                   http=("get", "/v1/{parent=shelves/*}/books", None), signatures=["parent"]),
            method("ImportBooks", P + "ImportBooksRequest", ".google.longrunning.Operation",
                   http=("post", "/v1/{parent=shelves/*}/books:import", "*"),
                   lro=("ImportBooksResponse", "ImportBooksMetadata")),
            # Names that collide with transport members or python keywords.
            method("Import", P + "ImportBooksRequest", P + "ImportBooksResponse",
                   http=("post", "/v1/{parent=shelves/*}:import", "*")),
            method("CreateChannel", P + "GetBookRequest", P + "Book",
                   http=("post", "/v1/{name=shelves/*/books/*}:createChannel", "*")),
            method("GrpcChannel", P + "GetBookRequest", ".google.protobuf.Empty",
                   http=("post", "/v1/{name=shelves/*/books/*}:grpcChannel", "*")),
            method("OperationsClient", ".google.protobuf.Empty", ".google.protobuf.Struct",
                   http=("get", "/v1/operationsClient", None)),
            method("Close", P + "GetBookRequest", P + "Book", deprecated=True,
                   http=("post", "/v1/{name=shelves/*/books/*}:close", "*")),
            # Streaming arities.
            method("StreamBooks", P + "ListBooksRequest", P + "Book", server_streaming=True,
                   http=("get", "/v1/{parent=shelves/*}/books:stream", None)),
            method("UploadBooks", P + "CreateBookRequest", P + "ImportBooksResponse",
                   client_streaming=True),
            method("Chat", P + "ChatMessage", P + "ChatMessage",
                   client_streaming=True, server_streaming=True),
            method("DrainBooks", P + "DeleteBookRequest", ".google.protobuf.Empty",
                   client_streaming=True),
            method("SetValues", P + "SetValuesRequest", P + "Book",
                   http=("post", "/v1/{name=shelves/*/books/*}:setValues", "*"),
                   signatures=["name,values,labels,tags,book,global,single"]),
            method("ClearValues", P + "SetValuesRequest", ".google.protobuf.Empty",
                   http=("post", "/v1/{name=shelves/*/books/*}:clearValues", "*"),
                   signatures=["tags", "name,tags"]),
        ],
        host="library.example.com",
        scopes="https://www.googleapis.com/auth/cloud-platform,"
               "https://www.googleapis.com/auth/library.readonly",
    )
    archive_service = service(
        "ArchiveService",
        [
            method("Yield", P + "GetBookRequest", P + "Book"),
            method("Lambda", ".google.protobuf.Struct", ".google.protobuf.Empty"),
            method("ListArchivedBooks", P + "ListBooksRequest", P + "ListBooksResponse"),
        ],
        host="archive.example.com:8443",
    )
    library_file = proto_file(
        "google/example/library/v1/library.proto", pkg,
        messages=library_msgs, services=[library_service, archive_service],
        enums=[enum("Genre", "GENRE_UNSPECIFIED", "FICTION", "None")],
        deps=common_names,
        comments=[
            ([4, 0], " A single *book* in the `library`.\n"),
            ([4, 8], " The result of an import; see [Book][google.example.library.v1.Book].\n"),
            ([6, 0], " The library service.\n Manages books on shelves.\n"),
            ([6, 0, 2, 0], " Gets a book. Returns NOT_FOUND if the book does not exist.\n"),
            ([6, 0, 2, 5], " Imports books in *bulk*.\n\n The operation is long running.\n"),
            ([6, 0, 2, 6], " Plain import with \"\"\" quotes and a trailing backslash \\\n"),
            ([6, 0, 2, 13], " Bidirectional chat.\n"),
        ],
    )
    for opts in ("",
                 "transport=grpc+rest,metadata,retry-config=%s,service-yaml=%s"
                 % (retry_path, all_mixins_yaml),
                 "autogen-snippets=false,add-iam-methods,retry-config=%s" % retry_path):
        cases.append(dict(name="library[%s]" % opts, package=pkg, opts=opts,
                          files=blobs(*(common + [library_file]))))

    # ======================================================================
    # Case 2: no annotations at all, API with a sub-package, several files,
    # proto2-free plain messages, lazy-import / old-naming options.
    # ======================================================================
    pkg = "acme.widgets.v2beta1"
    P = "." + pkg + "."
    types_file = proto_file(
        "acme/widgets/v2beta1/types.proto", pkg,
        messages=[
            message("Widget", [
                field("id", 1, F.TYPE_UINT64),
                field("payload", 2, F.TYPE_BYTES),
                field("children", 3, F.TYPE_MESSAGE, REP, P + "Widget"),
                field("attrs", 4, F.TYPE_MESSAGE, REP, P + "Widget.AttrsEntry"),
            ], nested=[map_entry("AttrsEntry", F.TYPE_MESSAGE, P + "Widget")]),
            message("WidgetQuery", []),
        ],
    )
    svc_file = proto_file(
        "acme/widgets/v2beta1/widget_service.proto", pkg,
        services=[service("Widgets", [
            method("Make", P + "Widget", P + "Widget"),
            method("Query", P + "WidgetQuery", P + "Widget", server_streaming=True),
            method("Return", P + "Widget", ".google.protobuf.Empty"),
        ])],
        deps=["acme/widgets/v2beta1/types.proto", "google/protobuf/empty.proto"],
    )
    SP = P + "admin."
    admin_file = proto_file(
        "acme/widgets/v2beta1/admin/admin.proto", pkg + ".admin",
        messages=[
            message("PurgeRequest", [field("force", 1, F.TYPE_BOOL)]),
            message("PurgeReport", [field("purged", 1, F.TYPE_MESSAGE, REP, P + "Widget")]),
            message("ListPurgesRequest", [
                field("page_size", 1, F.TYPE_INT32),
                field("page_token", 2, F.TYPE_STRING),
            ]),
            message("ListPurgesResponse", [
                field("reports", 1, F.TYPE_MESSAGE, REP, SP + "PurgeReport"),
                field("next_page_token", 2, F.TYPE_STRING),
            ]),
        ],
        services=[service("AdminService", [
            method("Purge", SP + "PurgeRequest", SP + "PurgeReport"),
            method("PurgeAll", SP + "PurgeRequest", SP + "PurgeReport",
                   client_streaming=True, server_streaming=True),
            method("Global", P + "Widget", ".google.protobuf.Empty"),
            method("ListPurges", SP + "ListPurgesRequest", SP + "ListPurgesResponse"),
        ])],
        deps=["acme/widgets/v2beta1/types.proto", "google/protobuf/empty.proto"],
    )
    empty_only = closure(empty_pb2)
    # (snippet generation cannot handle services in a sub-package at this commit,
    # in either tree, so it is switched off for this API.)
    for opts in ("autogen-snippets=false", "lazy-import,autogen-snippets=false", "old-naming"):
        cases.append(dict(name="widgets[%s]" % opts, package=pkg, opts=opts,
                          files=blobs(*(empty_only + [types_file, svc_file, admin_file]))))

    # ======================================================================
    # Case 3: REST only / REST + numeric enums (the gRPC transports are not
    # rendered for transport=rest; checks nothing else depends on the edits).
    # ======================================================================
    pkg = "google.cloud.gizmo.v1"
    P = "." + pkg + "."
    gz_list_req, gz_list_resp = paged_pair(pkg, "Gizmo", "Gizmo")
    gizmo_file = proto_file(
        "google/cloud/gizmo/v1/gizmo.proto", pkg,
        messages=[
            message("Gizmo", [
                field("name", 1, F.TYPE_STRING),
                field("state", 2, F.TYPE_ENUM, type_name=P + "Gizmo.State"),
                field("sizes", 3, F.TYPE_INT32, REP),
            ], enums=[enum("State", "STATE_UNSPECIFIED", "ON", "OFF")]),
            message("GetGizmoRequest", [field("name", 1, F.TYPE_STRING, required=True)]),
            message("DeleteGizmoRequest", [field("name", 1, F.TYPE_STRING, required=True)]),
            gz_list_req, gz_list_resp,
        ],
        services=[service("GizmoService", [
            method("GetGizmo", P + "GetGizmoRequest", P + "Gizmo",
                   http=("get", "/v1/{name=gizmos/*}", None), signatures=["name"]),
            method("DeleteGizmo", P + "DeleteGizmoRequest", ".google.protobuf.Empty",
                   http=("delete", "/v1/{name=gizmos/*}", None)),
            method("ListGizmos", P + "ListGizmosRequest", P + "ListGizmosResponse",
                   http=("get", "/v1/{parent=projects/*}/gizmos", None)),
            method("WatchGizmos", P + "ListGizmosRequest", P + "Gizmo", server_streaming=True,
                   http=("get", "/v1/{parent=projects/*}/gizmos:watch", None)),
            method("Pass", P + "GetGizmoRequest", P + "Gizmo",
                   http=("post", "/v1/{name=gizmos/*}:pass", "*")),
        ], host="gizmo.googleapis.com")],
        deps=common_names,
    )
    for opts in ("transport=rest", "transport=rest,rest-numeric-enums", "transport=grpc+rest"):
        cases.append(dict(name="gizmo[%s]" % opts, package=pkg, opts=opts,
                          files=blobs(*(common + [gizmo_file]))))

    # ======================================================================
    # Case 4: request / response / LRO result types taken from another
    # (non-google) package: decides `_pb2` vs proto-plus (de)serializers,
    # with and without the proto-plus-deps option.
    # ======================================================================
    dep_pkg = "example.shared.types.v1"
    DP = "." + dep_pkg + "."
    shared_file = proto_file(
        "example/shared/types/v1/shared.proto", dep_pkg,
        messages=[
            message("Ticket", [
                field("id", 1, F.TYPE_STRING),
                field("tags", 2, F.TYPE_STRING, REP),
                field("seats", 3, F.TYPE_INT32, REP),
                field("holder", 4, F.TYPE_MESSAGE, type_name=DP + "Progress"),
                field("class", 5, F.TYPE_STRING),
            ]),
            message("Receipt", [field("ticket", 1, F.TYPE_MESSAGE, type_name=DP + "Ticket")]),
            message("Progress", [field("percent", 1, F.TYPE_INT32)]),
        ],
        comments=[([4, 1], " A receipt for a `Ticket`.\n")],
    )
    pkg = "example.booking.v3"
    P = "." + pkg + "."
    booking_file = proto_file(
        "example/booking/v3/booking.proto", pkg,
        messages=[message("BookRequest", [
            field("ticket", 1, F.TYPE_MESSAGE, type_name=DP + "Ticket"),
            field("async", 2, F.TYPE_BOOL),
        ])],
        services=[service("Booking", [
            method("Book", P + "BookRequest", DP + "Receipt", signatures=["ticket,async"]),
            method("Redeem", DP + "Ticket", DP + "Receipt",
                   signatures=["id,tags,seats,holder"]),
            method("RedeemMany", DP + "Ticket", DP + "Receipt",
                   client_streaming=True, server_streaming=True),
            method("Cancel", DP + "Ticket", ".google.protobuf.Empty", signatures=["id"]),
            method("BookLater", P + "BookRequest", ".google.longrunning.Operation",
                   lro=(dep_pkg + ".Receipt", dep_pkg + ".Progress")),
            method("CancelLater", DP + "Ticket", ".google.longrunning.Operation",
                   lro=("google.protobuf.Empty", dep_pkg + ".Progress")),
            method("GetOperation", ".google.longrunning.GetOperationRequest",
                   ".google.longrunning.Operation",
                   lro=("google.protobuf.Struct", "google.protobuf.Struct")),
        ], host="booking.example.com")],
        deps=common_names + ["example/shared/types/v1/shared.proto"],
    )
    for opts in ("retry-config=%s" % retry_path,
                 "proto-plus-deps=" + dep_pkg,
                 "transport=grpc+rest,proto-plus-deps=%s,service-yaml=%s" % (dep_pkg, ops_mixin_yaml)):
        cases.append(dict(name="booking[%s]" % opts, package=pkg, opts=opts,
                          files=blobs(*(common + [shared_file, booking_file]))))

    # ======================================================================
    # Case 5: extended operations (Compute style): methods with an
    # `operation_service` get a "<name>_unary" flavour plus the full one that
    # returns an api-core ExtendedOperation; one operation message uses the
    # default field names, the polling service itself has plain methods,
    # a reserved-word method name ("Delete" is fine, "Import" is not).
    # ======================================================================
    pkg = "google.cloud.machines.v1"
    P = "." + pkg + "."
    ORM = ex_ops_pb2.OperationResponseMapping

    def op_field(fd, mapping=None, request_field=None, response_field=None):
        if mapping is not None:
            fd.options.Extensions[ex_ops_pb2.operation_field] = mapping
        if request_field:
            fd.options.Extensions[ex_ops_pb2.operation_request_field] = request_field
        if response_field:
            fd.options.Extensions[ex_ops_pb2.operation_response_field] = response_field
        return fd

    def ext_method(m, operation_service=None, polling=False):
        if operation_service:
            m.options.Extensions[ex_ops_pb2.operation_service] = operation_service
        if polling:
            m.options.Extensions[ex_ops_pb2.operation_polling_method] = True
        return m

    operation_msg = message("Operation", [
        op_field(field("name", 1, F.TYPE_STRING), ORM.NAME),
        op_field(field("status", 2, F.TYPE_ENUM, type_name=P + "Operation.Status"), ORM.STATUS),
        op_field(field("http_error_status_code", 3, F.TYPE_INT32), ORM.ERROR_CODE),
        op_field(field("http_error_message", 4, F.TYPE_STRING), ORM.ERROR_MESSAGE),
        field("zone", 5, F.TYPE_STRING),
        field("target_link", 6, F.TYPE_STRING),
    ], enums=[enum("Status", "UNDEFINED_STATUS", "DONE", "PENDING", "RUNNING")])
    get_op_req = message("GetZoneOperationRequest", [
        op_field(field("operation", 1, F.TYPE_STRING, required=True), response_field="name"),
        op_field(field("project", 2, F.TYPE_STRING, required=True)),
        op_field(field("zone", 3, F.TYPE_STRING, required=True)),
    ])
    delete_machine = message("DeleteMachineRequest", [
        op_field(field("machine", 1, F.TYPE_STRING, required=True)),
        op_field(field("project", 2, F.TYPE_STRING, required=True), request_field="project"),
        op_field(field("zone", 3, F.TYPE_STRING, required=True), request_field="zone"),
    ])
    import_machine = message("ImportMachineRequest", [
        op_field(field("project", 1, F.TYPE_STRING), request_field="project"),
        op_field(field("zone", 2, F.TYPE_STRING), request_field="zone"),
        field("labels", 3, F.TYPE_MESSAGE, REP, P + "ImportMachineRequest.LabelsEntry"),
    ], nested=[map_entry("LabelsEntry", F.TYPE_STRING)])
    machine = message("Machine", [field("name", 1, F.TYPE_STRING), field("cpus", 2, F.TYPE_INT32)])
    get_machine = message("GetMachineRequest", [field("machine", 1, F.TYPE_STRING, required=True)])
    machines_service = service("Machines", [
        ext_method(method("Delete", P + "DeleteMachineRequest", P + "Operation",
                          http=("delete", "/v1/projects/{project}/zones/{zone}/machines/{machine}", None),
                          signatures=["project,zone,machine"]),
                   operation_service="ZoneOperations"),
        ext_method(method("Import", P + "ImportMachineRequest", P + "Operation",
                          http=("post", "/v1/projects/{project}/zones/{zone}/machines:import", "*"),
                          signatures=["project,zone,labels"]),
                   operation_service="ZoneOperations"),
        method("Get", P + "GetMachineRequest", P + "Machine",
               http=("get", "/v1/machines/{machine}", None), signatures=["machine"]),
        # Returns the operation message but is not polled: plain method.
        method("Reset", P + "GetMachineRequest", P + "Operation",
               http=("post", "/v1/machines/{machine}:reset", None)),
    ], host="machines.googleapis.com",
        scopes="https://www.googleapis.com/auth/cloud-platform")
    zone_ops_service = service("ZoneOperations", [
        ext_method(method("Get", P + "GetZoneOperationRequest", P + "Operation",
                          http=("get", "/v1/projects/{project}/zones/{zone}/operations/{operation}", None),
                          signatures=["project,zone,operation"]),
                   polling=True),
        method("Delete", P + "GetZoneOperationRequest", ".google.protobuf.Empty",
               http=("delete", "/v1/projects/{project}/zones/{zone}/operations/{operation}", None)),
    ], host="machines.googleapis.com")
    machines_file = proto_file(
        "google/cloud/machines/v1/machines.proto", pkg,
        messages=[operation_msg, get_op_req, delete_machine, import_machine, machine, get_machine],
        services=[machines_service, zone_ops_service],
        deps=common_names,
        comments=[([6, 0, 2, 0], " Deletes the machine; returns an extended operation.\n")],
    )
    for opts in ("", "transport=rest", "transport=grpc+rest,rest-numeric-enums,autogen-snippets=false"):
        cases.append(dict(name="machines[%s]" % opts, package=pkg, opts=opts,
                          files=blobs(*(common + [machines_file]))))

    return cases


# --------------------------------------------------------------------------
# Auxiliary inputs: gRPC service config (retry/timeouts) and service yaml.
# --------------------------------------------------------------------------
def write_aux_files(tmp):
    lib = "google.example.library.v1.Library"
    booking = "example.booking.v3.Booking"
    retry_cfg = {
        "methodConfig": [
            {   # full policy, several status codes (sorted by the template), timeout
                "name": [{"service": lib, "method": "GetBook"},
                         {"service": lib, "method": "ListBooks"},
                         {"service": lib, "method": "Import"},
                         {"service": booking, "method": "Redeem"}],
                "timeout": "60s",
                "retryPolicy": {
                    "maxAttempts": 5, "initialBackoff": "0.1s", "maxBackoff": "60s",
                    "backoffMultiplier": 1.3,
                    "retryableStatusCodes": ["UNAVAILABLE", "DEADLINE_EXCEEDED", "ABORTED"],
                },
            },
            {   # timeout only: no default_retry
                "name": [{"service": lib, "method": "CreateBook"},
                         {"service": booking, "method": "BookLater"}],
                "timeout": "30.5s",
            },
            {   # policy with all numeric knobs absent (falsy) and no timeout
                "name": [{"service": lib, "method": "DeleteBook"},
                         {"service": lib, "method": "Chat"}],
                "retryPolicy": {"retryableStatusCodes": ["UNKNOWN"]},
            },
            {   # some knobs zero, empty exception list
                "name": [{"service": lib, "method": "StreamBooks"},
                         {"service": lib, "method": "UploadBooks"},
                         {"service": booking, "method": "Cancel"}],
                "timeout": "5s",
                "retryPolicy": {"initialBackoff": "1s", "maxBackoff": "0s",
                                "backoffMultiplier": 2, "retryableStatusCodes": []},
            },
        ]
    }
    retry_path = os.path.join(tmp, "service_config.json")
    with open(retry_path, "w") as f:
        json.dump(retry_cfg, f, sort_keys=True)

    def yaml_text(apis, rules):
        lines = ["type: google.api.Service", "config_version: 3", "name: library.example.com", "apis:"]
        lines += ["- name: %s" % a for a in apis]
        lines += ["http:", "  rules:"]
        for selector, verb, uri, body in rules:
            lines += ["  - selector: %s" % selector, "    %s: '%s'" % (verb, uri)]
            if body:
                lines.append("    body: '%s'" % body)
        return "\n".join(lines) + "\n"

    loc_rules = [
        ("google.cloud.location.Locations.GetLocation", "get", "/v1/{name=projects/*/locations/*}", None),
        ("google.cloud.location.Locations.ListLocations", "get", "/v1/{name=projects/*}/locations", None),
    ]
    ops_rules = [
        ("google.longrunning.Operations.GetOperation", "get", "/v1/{name=operations/*}", None),
        ("google.longrunning.Operations.ListOperations", "get", "/v1/{name=operations}", None),
        ("google.longrunning.Operations.CancelOperation", "post", "/v1/{name=operations/*}:cancel", "*"),
        ("google.longrunning.Operations.DeleteOperation", "delete", "/v1/{name=operations/*}", None),
    ]
    iam_rules = [
        ("google.iam.v1.IAMPolicy.GetIamPolicy", "get", "/v1/{resource=shelves/*}:getIamPolicy", None),
        ("google.iam.v1.IAMPolicy.SetIamPolicy", "post", "/v1/{resource=shelves/*}:setIamPolicy", "*"),
        ("google.iam.v1.IAMPolicy.TestIamPermissions", "post", "/v1/{resource=shelves/*}:testIamPermissions", "*"),
    ]
    all_yaml = os.path.join(tmp, "library_all_mixins.yaml")
    with open(all_yaml, "w") as f:
        f.write(yaml_text(
            ["google.example.library.v1.Library", "google.cloud.location.Locations",
             "google.longrunning.Operations", "google.iam.v1.IAMPolicy"],
            loc_rules + ops_rules + iam_rules))
    ops_yaml = os.path.join(tmp, "ops_only_mixin.yaml")
    with open(ops_yaml, "w") as f:
        f.write(yaml_text(["example.booking.v3.Booking", "google.longrunning.Operations"], ops_rules[:2]))
    return retry_path, all_yaml, ops_yaml


# --------------------------------------------------------------------------
# Coverage sanity: make sure the inputs actually reach the refactored code.
# --------------------------------------------------------------------------
def coverage_problems(results):
    texts = {}
    for case, files in results.items():
        for name, content in files.items():
            texts[(case, name)] = content.decode("utf-8")

    def joined(suffix):
        return "\n".join(t for (case, name), t in sorted(texts.items()) if name.endswith(suffix))

    expectations = {
        # grpc.py.j2 / grpc_asyncio.py.j2: method path; wrappers.Method.grpc_stub_type
        "transports/grpc.py": [
            "self._logged_channel.unary_unary(\n                '/google.example.library.v1.Library/GetBook',",
            "self._logged_channel.unary_stream(\n                '/google.example.library.v1.Library/StreamBooks',",
            "self._logged_channel.stream_unary(\n                '/google.example.library.v1.Library/UploadBooks',",
            "self._logged_channel.stream_stream(\n                '/google.example.library.v1.Library/Chat',",
            "'/acme.widgets.v2beta1.admin.AdminService/PurgeAll',",
            "'/acme.widgets.v2beta1.Widgets/Return',",
            "'/example.booking.v3.Booking/RedeemMany',",
            "'/google.cloud.machines.v1.Machines/Delete',",
            "'/google.cloud.machines.v1.ZoneOperations/Get',",
        ],
        "transports/grpc_asyncio.py": [
            "self._logged_channel.unary_unary(\n                '/google.example.library.v1.Library/Import',",
            "self._logged_channel.unary_stream(\n                '/acme.widgets.v2beta1.Widgets/Query',",
            "self._logged_channel.stream_unary(\n                '/google.example.library.v1.Library/DrainBooks',",
            "self._logged_channel.stream_stream(\n                '/acme.widgets.v2beta1.admin.AdminService/PurgeAll',",
            "'/google.cloud.machines.v1.Machines/Import',",
        ],
        # client.py.j2 (method loop) and _client_macros.j2: client_method
        "/client.py": [
            "    def delete_unary(self,", "    def delete(self,", "    def import__unary(self,",
            "    def import_(self,", "    def get(self,", "    def reset(self,",
            ") -> machines.Operation:", ") -> extended_operation.ExtendedOperation:",
            "response = _CustomOperation.make(get_operation, cancel_operation, response)",
            "class _CustomOperation(extended_operation.ExtendedOperation):",
            ") -> pagers.ListBooksPager:", ") -> pagers.ListPurgesPager:",
            ") -> operation.Operation:", ") -> Iterable[library.Book]:", ") -> None:",
            ") -> Iterable[shared.Receipt]:", ") -> struct_pb2.Struct:",
            "            Iterable[google.example.library_v1.types.Book]:",
            "            google.api_core.operation.Operation:",
            "            google.api_core.extended_operation.ExtendedOperation:",
            "An object representing a extended\n                long-running operation.",
            "        response = rpc(\n            requests,\n", "        response = rpc(\n            request,\n",
            "        rpc(\n            requests,\n", "        rpc(\n            request,\n",
            "        response = operation.from_gapic(", "        response = pagers.ListBooksPager(",
        ],
        # async_client.py.j2
        "/async_client.py": [
            "    async def delete_unary(self,", "    async def import__unary(self,",
            "    def stream_books(self,", "    async def upload_books(self,",
            ") -> pagers.ListBooksAsyncPager:", ") -> pagers.ListPurgesAsyncPager:",
            ") -> operation_async.AsyncOperation:", ") -> Awaitable[AsyncIterable[library.Book]]:",
            ") -> None:", ") -> machines.Operation:", ") -> library.ImportBooksResponse:",
            "            AsyncIterable[google.example.library_v1.types.Book]:",
            "            google.api_core.operation_async.AsyncOperation:",
            "        response = await rpc(\n            requests,\n", "        response = await rpc(\n            request,\n",
            "        response = rpc(\n            requests,\n", "        response = rpc(\n            request,\n",
            "        await rpc(\n            requests,\n", "        await rpc(\n            request,\n",
            "        response = operation_async.from_gapic(", "        response = pagers.ListBooksAsyncPager(",
        ],
    }
    problems = []
    for suffix, tokens in expectations.items():
        text = joined(suffix)
        for token in tokens:
            if token not in text:
                problems.append("token %r never rendered in any *%s" % (token, suffix))
    return problems


# --------------------------------------------------------------------------
def main(argv):
    if len(argv) == 5 and argv[1] == "--worker":
        return worker(argv[2], argv[3], argv[4])
    if len(argv) != 2:
        print("usage: demo.py <checkout-with-the-change>")
        return 2

    checkout = os.path.realpath(argv[1])
    tmp = os.path.realpath(tempfile.mkdtemp(prefix="twin-demo-V03-"))
    try:
        pristine = os.path.join(tmp, "pristine")
        os.mkdir(pristine)
        archive = subprocess.Popen(["git", "-C", checkout, "archive", "HEAD"],
                                   stdout=subprocess.PIPE)
        subprocess.check_call(["tar", "-x", "-C", pristine], stdin=archive.stdout)
        archive.stdout.close()
        if archive.wait() != 0:
            print("git archive failed")
            return 2

        cases = build_cases(*write_aux_files(tmp))
        for case in cases:  # keep the labels free of the random temp dir
            case["name"] = case["name"].replace(tmp + os.sep, "")
        if len({case["name"] for case in cases}) != len(cases):
            print("duplicate case names")
            return 2
        cases_path = os.path.join(tmp, "cases.pkl")
        with open(cases_path, "wb") as f:
            pickle.dump(cases, f)

        env = dict(os.environ)
        env.pop("PYTHONPATH", None)
        env["PYTHONDONTWRITEBYTECODE"] = "1"
        env["PYTHONHASHSEED"] = "0"
        workdir = os.path.join(tmp, "cwd")
        os.mkdir(workdir)
        procs = {}
        for label, tree in (("pristine", pristine), ("changed", checkout)):
            out_path = os.path.join(tmp, label + ".pkl")
            procs[label] = (out_path, subprocess.Popen(
                [sys.executable, os.path.abspath(__file__), "--worker", tree, cases_path, out_path],
                cwd=workdir, env=env))
        outputs = {}
        failed = False
        for label, (out_path, proc) in procs.items():
            if proc.wait() != 0:
                print("generator run failed for the %s tree" % label)
                failed = True
                continue
            with open(out_path, "rb") as f:
                outputs[label] = pickle.load(f)
        if failed:
            return 2

        differing = []
        total = 0
        digest = hashlib.sha256()
        for case in cases:
            name = case["name"]
            before, after = outputs["pristine"][name], outputs["changed"][name]
            if list(before) != list(after):
                for fname in sorted(set(before) - set(after)):
                    differing.append("%s: %s only produced by the pristine tree" % (name, fname))
                for fname in sorted(set(after) - set(before)):
                    differing.append("%s: %s only produced by the changed tree" % (name, fname))
                if set(before) == set(after):
                    differing.append("%s: same files but emitted in a different order" % name)
            for fname in before:
                if fname in after:
                    total += 1
                    digest.update(fname.encode("utf-8") + b"\0" + before[fname] + b"\0")
                    if before[fname] != after[fname]:
                        differing.append("%s: %s differs" % (name, fname))

        # Is there a change at all? (informational)
        diff = subprocess.run(["git", "-C", checkout, "diff", "--quiet", "HEAD", "--", "gapic"])
        changed_note = "working tree differs from HEAD" if diff.returncode else \
            "NOTE: working tree has no change under gapic/"

        if differing:
            print("DIFFERENT: %d problem(s) in %d cases (%s)" % (len(differing), len(cases), changed_note))
            for line in differing:
                print("  " + line)
            return 1
        problems = coverage_problems(outputs["changed"])
        if problems:
            print("demo inputs do not exercise the refactored code:")
            for p in problems:
                print("  " + p)
            return 2

        print("IDENTICAL: %d cases, %d output files byte-for-byte equal (sha256 %s; %s)"
              % (len(cases), total, digest.hexdigest()[:16], changed_note))
        return 0
    finally:
        shutil.rmtree(tmp, ignore_errors=True)


if __name__ == "__main__":
    sys.exit(main(sys.argv))
