#!/usr/bin/env python
"""Behaviour-preservation demo for the V18 refactoring of the C18 code
(auto-populated UUID4 request ids, AIP-4235).

Usage:  /venv/bin/python demo.py <path-to-a-checkout-with-the-change>

* exports the pristine HEAD of the checkout (`git archive HEAD | tar -x`),
* builds a set of API descriptions (valid and invalid method settings,
  optional / plain / reserved-word fields, flattened scalar / repeated / map /
  `google.protobuf.Value` fields with the request in the same and in another
  package, routing headers, API version header, streaming, LRO, paging, void
  methods, several services, a sub-package, gRPC / REST transports, options),
* runs the generator on each description with BOTH trees (one subprocess per
  tree, so the two copies of the `gapic` package never mix),
* compares file names + file contents byte for byte; for rejected inputs the
  exception type and message; and `API.all_methods` / `API.all_method_settings`;
  six of the accepted inputs are rendered a second time with the generator's
  whitespace post-processing (`formatter.fix_whitespace`) disabled, and that raw template
  output is compared byte for byte, too.

Exit 0 + a one-line summary when everything is identical, exit 1 otherwise.
"""
import os
import pickle
import shutil
import subprocess
import sys
import tempfile


# --------------------------------------------------------------------------
# Worker: runs in a subprocess with exactly one `gapic` tree importable.
# --------------------------------------------------------------------------
def _isolate(tree: str) -> None:
    """Make `tree` the only provider of the `gapic` package.

    The venv has an editable install of another checkout (a meta-path finder,
    a path hook and a pseudo entry on sys.path).  `gapic` is a namespace
    package, so every provider would otherwise contribute to `gapic.__path__`.
    """
    import importlib

    assert not [m for m in sys.modules if m == "gapic" or m.startswith("gapic.")]

    def is_editable(obj) -> bool:
        text = " ".join(
            str(x)
            for x in (
                getattr(obj, "__module__", ""),
                getattr(obj, "__qualname__", ""),
                type(obj).__module__,
                type(obj).__qualname__,
                getattr(getattr(obj, "__self__", None), "__module__", ""),
            )
        )
        return "__editable__" in text

    sys.meta_path[:] = [f for f in sys.meta_path if not is_editable(f)]
    sys.path_hooks[:] = [h for h in sys.path_hooks if not is_editable(h)]
    kept = []
    for entry in sys.path:
        if "__editable__" in entry:
            continue
        if os.path.isdir(os.path.join(entry or os.curdir, "gapic")):
            continue  # some other checkout (cwd, script dir, PYTHONPATH...)
        kept.append(entry)
    sys.path[:] = [tree] + kept
    sys.path_importer_cache.clear()
    importlib.invalidate_caches()


def _assert_isolated(tree: str, template_dirs) -> None:
    root = os.path.realpath(os.path.join(tree, "gapic")) + os.sep
    seen = 0
    for name, mod in sorted(sys.modules.items()):
        if mod is None or not (name == "gapic" or name.startswith("gapic.")):
            continue
        seen += 1
        origin = getattr(mod, "__file__", None)
        if origin is not None:
            assert os.path.realpath(origin).startswith(root), (name, origin)
        for entry in list(getattr(mod, "__path__", [])):
            assert (os.path.realpath(entry) + os.sep).startswith(root), (name, entry)
    assert seen > 10, seen
    assert template_dirs
    for d in template_dirs:
        assert (os.path.realpath(d) + os.sep).startswith(root), d


# Cases which are additionally rendered without whitespace post-processing.
RAW_CASES = (
    "valid_grpc_rest",
    "valid_routing_version",
    "no_service_yaml_version",
    "settings_without_fields_rest",
    "two_services_subpackage",
    "two_services_subpackage_plain",
    "two_services_one_package",
    "repeated_uuid4_field",
)


def worker(tree: str, cases_path: str, out_path: str) -> None:
    tree = os.path.realpath(tree)
    _isolate(tree)
    os.chdir(tree)

    # pandoc is not installed: stub the conversion identically for both runs.
    import pypandoc  # type: ignore

    def _convert_text(text, to, format=None, extra_args=(), **kw):
        return text

    pypandoc.convert_text = _convert_text

    from google.protobuf import descriptor_pb2

    from gapic.generator import Generator, formatter
    from gapic.schema.api import API
    from gapic.utils import Options

    with open(cases_path, "rb") as f:
        cases = pickle.load(f)

    template_dirs = set()
    results = {}
    for case in cases:
        fds = []
        for blob in case["fds"]:
            fd = descriptor_pb2.FileDescriptorProto()
            fd.ParseFromString(blob)
            fds.append(fd)
        outcome = {}
        try:
            opts = Options.build(case["opts"])
            template_dirs.update(opts.templates)
            api = API.build(fds, package=case["package"], opts=opts)

            # Observe the refactored Python directly (independent of templates).
            all_methods = api.all_methods
            outcome["all_methods"] = [
                (k, type(v).__name__, v.SerializeToString(deterministic=True))
                for k, v in all_methods.items()
            ]
            try:
                settings = api.all_method_settings
                outcome["settings"] = [
                    (k, v.SerializeToString(deterministic=True))
                    for k, v in settings.items()
                ]
            except Exception as exc:  # noqa
                outcome["settings_error"] = (type(exc).__name__, str(exc))
            try:
                outcome["enforce"] = api.enforce_valid_method_settings(
                    api.service_yaml_config.publishing.method_settings
                )
            except Exception as exc:  # noqa
                outcome["enforce"] = (type(exc).__name__, str(exc))

            response = Generator(opts).get_response(api, opts)
            outcome["files"] = {f.name: f.content for f in response.file}
            outcome["file_order"] = [f.name for f in response.file]

            # Once more without the whitespace post-processing, so that the
            # raw template output (blank lines included) is compared as well.
            if case["name"] in RAW_CASES:
                saved = formatter.fix_whitespace
                formatter.fix_whitespace = lambda code: code
                try:
                    raw = Generator(opts).get_response(api, opts)
                finally:
                    formatter.fix_whitespace = saved
                outcome["raw_files"] = [(f.name, f.content) for f in raw.file]
        except Exception as exc:  # noqa
            outcome["error"] = (type(exc).__module__, type(exc).__name__, str(exc))
        results[case["name"]] = outcome

    _assert_isolated(tree, template_dirs)

    with open(out_path, "wb") as f:
        pickle.dump(results, f)


# --------------------------------------------------------------------------
# Descriptor construction (parent process; `gapic` is never imported here).
# --------------------------------------------------------------------------
def build_cases(tmpdir: str):
    import yaml
    from google.api import annotations_pb2, client_pb2, routing_pb2
    from google.api import field_behavior_pb2, field_info_pb2
    from google.longrunning import operations_pb2
    from google.protobuf import descriptor_pb2
    from google.protobuf import empty_pb2
    from google.protobuf import struct_pb2

    T = descriptor_pb2.FieldDescriptorProto

    def closure(*modules):
        """Serialized FileDescriptorProtos of the modules + deps, deps first."""
        seen, out = set(), []

        def visit(fdesc):
            if fdesc.name in seen:
                return
            seen.add(fdesc.name)
            for dep in fdesc.dependencies:
                visit(dep)
            out.append(fdesc.serialized_pb)

        for m in modules:
            visit(m.DESCRIPTOR)
        return out

    dep_modules = (
        annotations_pb2,
        client_pb2,
        routing_pb2,
        field_behavior_pb2,
        field_info_pb2,
        operations_pb2,
        empty_pb2,
        struct_pb2,
    )
    DEPS = closure(*dep_modules)
    DEP_NAMES = [m.DESCRIPTOR.name for m in dep_modules]

    def new_file(name, package):
        fd = descriptor_pb2.FileDescriptorProto(
            name=name, package=package, syntax="proto3"
        )
        fd.dependency.extend(DEP_NAMES)
        return fd

    def add_field(msg, name, number, type_=T.TYPE_STRING, *, optional=False,
                  uuid4=False, required=False, repeated=False, type_name=None):
        f = msg.field.add(
            name=name,
            number=number,
            type=type_,
            label=T.LABEL_REPEATED if repeated else T.LABEL_OPTIONAL,
        )
        if type_name:
            f.type_name = type_name
        if optional:
            f.proto3_optional = True
            msg.oneof_decl.add(name="_" + name)
            f.oneof_index = len(msg.oneof_decl) - 1
        if uuid4:
            f.options.Extensions[field_info_pb2.field_info].format = (
                field_info_pb2.FieldInfo.UUID4
            )
        if required:
            f.options.Extensions[field_behavior_pb2.field_behavior].append(
                field_behavior_pb2.REQUIRED
            )
        return f

    def add_method(svc, name, inp, out, *, http=None, body=None, cs=False,
                   ss=False, lro=None, signature=None, routing=None,
                   deprecated=False):
        m = svc.method.add(
            name=name,
            input_type=inp,
            output_type=out,
            client_streaming=cs,
            server_streaming=ss,
        )
        if http:
            verb, path = http
            rule = m.options.Extensions[annotations_pb2.http]
            setattr(rule, verb, path)
            if body:
                rule.body = body
        if lro:
            info = m.options.Extensions[operations_pb2.operation_info]
            info.response_type, info.metadata_type = lro
        if signature is not None:
            m.options.Extensions[client_pb2.method_signature].append(signature)
        for field, template in routing or ():
            m.options.Extensions[routing_pb2.routing].routing_parameters.add(
                field=field, path_template=template
            )
        if deprecated:
            m.options.deprecated = True
        return m

    def add_service(fd, name, host, version=None):
        svc = fd.service.add(name=name)
        svc.options.Extensions[client_pb2.default_host] = host
        if version:
            svc.options.Extensions[client_pb2.api_version] = version
        return svc

    def yaml_file(case_name, method_settings):
        cfg = {
            "type": "google.api.Service",
            "config_version": 3,
            "name": "example.googleapis.com",
            "publishing": {"method_settings": method_settings},
        }
        path = os.path.join(tmpdir, f"{case_name}_service.yaml")
        with open(path, "w") as f:
            yaml.safe_dump(cfg, f)
        return path

    # ---------------------------------------------------------------- library
    def library_file(package="google.example.library.v1", version=None,
                     routing=False):
        """One service with every shape the property talks about."""
        fd = new_file("google/example/library/v1/library.proto", package)
        p = "." + package

        book = fd.message_type.add(name="Book")
        add_field(book, "name", 1)
        add_field(book, "title", 2)
        add_field(book, "request_id", 3, uuid4=True)  # nested candidate

        create = fd.message_type.add(name="CreateBookRequest")
        add_field(create, "parent", 1, required=True)
        add_field(create, "book", 2, T.TYPE_MESSAGE, type_name=p + ".Book")
        add_field(create, "request_id", 3, optional=True, uuid4=True)
        add_field(create, "client_token", 4, uuid4=True)
        add_field(create, "plain_id", 5)  # string, no UUID4 annotation
        add_field(create, "numeric_id", 6, T.TYPE_INT64, uuid4=True)
        add_field(create, "required_id", 7, uuid4=True, required=True)
        add_field(create, "many_ids", 8, uuid4=True, repeated=True)
        add_field(create, "from", 9, uuid4=True)  # reserved word -> `from_`
        add_field(create, "opt_plain", 10, optional=True)  # optional, not UUID4
        lab = create.nested_type.add(name="LabelsEntry")
        lab.options.map_entry = True
        add_field(lab, "key", 1)
        add_field(lab, "value", 2)
        add_field(create, "labels", 11, T.TYPE_MESSAGE, repeated=True,
                  type_name=p + ".CreateBookRequest.LabelsEntry")
        # violates all three field criteria at once
        add_field(create, "bad_count", 12, T.TYPE_INT32, required=True)
        # violates two of them
        add_field(create, "required_plain", 13, required=True)

        get = fd.message_type.add(name="GetBookRequest")
        add_field(get, "name", 1, required=True)
        add_field(get, "request_id", 2, uuid4=True)

        delete = fd.message_type.add(name="DeleteBookRequest")
        add_field(delete, "name", 1)
        add_field(delete, "request_id", 2, optional=True, uuid4=True)

        lst = fd.message_type.add(name="ListBooksRequest")
        add_field(lst, "parent", 1)
        add_field(lst, "page_size", 2, T.TYPE_INT32)
        add_field(lst, "page_token", 3)
        add_field(lst, "request_id", 4, uuid4=True)
        lstr = fd.message_type.add(name="ListBooksResponse")
        add_field(lstr, "books", 1, T.TYPE_MESSAGE, repeated=True,
                  type_name=p + ".Book")
        add_field(lstr, "next_page_token", 2)

        imp = fd.message_type.add(name="ImportBooksRequest")
        add_field(imp, "parent", 1)
        add_field(imp, "request_id", 2, optional=True, uuid4=True)
        impr = fd.message_type.add(name="ImportBooksResponse")
        add_field(impr, "count", 1, T.TYPE_INT32)
        impm = fd.message_type.add(name="ImportBooksMetadata")
        add_field(impm, "progress", 1, T.TYPE_INT32)

        stream = fd.message_type.add(name="StreamBooksRequest")
        add_field(stream, "parent", 1)
        add_field(stream, "request_id", 2, uuid4=True)

        svc = add_service(fd, "Library", "library.googleapis.com", version)
        add_method(
            svc, "CreateBook", p + ".CreateBookRequest", p + ".Book",
            http=("post", "/v1/{parent=shelves/*}/books"), body="book",
            signature="parent,book",
            routing=[("parent", "{shelf=shelves/*}"), ("client_token", "")]
            if routing else None,
        )
        add_method(
            svc, "GetBook", p + ".GetBookRequest", p + ".Book",
            http=("get", "/v1/{name=shelves/*/books/*}"), signature="name",
            deprecated=routing,
        )
        add_method(
            svc, "DeleteBook", p + ".DeleteBookRequest", ".google.protobuf.Empty",
            http=("delete", "/v1/{name=shelves/*/books/*}"),
        )
        add_method(
            svc, "ListBooks", p + ".ListBooksRequest", p + ".ListBooksResponse",
            http=("get", "/v1/{parent=shelves/*}/books"),
        )
        add_method(
            svc, "ImportBooks", p + ".ImportBooksRequest",
            ".google.longrunning.Operation",
            http=("post", "/v1/{parent=shelves/*}/books:import"), body="*",
            lro=("ImportBooksResponse", "ImportBooksMetadata"),
        )
        add_method(
            svc, "StreamBooks", p + ".StreamBooksRequest", p + ".Book",
            http=("get", "/v1/{parent=shelves/*}/books:stream"), ss=True,
        )
        add_method(svc, "UploadBooks", p + ".StreamBooksRequest", p + ".Book",
                   cs=True,
                   routing=[("parent", "")] if routing else None)
        add_method(svc, "ChatBooks", p + ".StreamBooksRequest", p + ".Book",
                   cs=True, ss=True)
        # client-streaming and void
        add_method(svc, "DumpBooks", p + ".StreamBooksRequest",
                   ".google.protobuf.Empty", cs=True)
        return fd

    # ------------------------------------------------------- two services/sub
    def fleet_files(subpackage=True, version=None):
        """Two files (one of them optionally in a sub-package), two services."""
        pkg = "google.example.fleet.v2"
        p = "." + pkg
        fd1 = new_file("google/example/fleet/v2/cars.proto", pkg)
        car = fd1.message_type.add(name="Car")
        add_field(car, "name", 1)
        mk = fd1.message_type.add(name="MakeCarRequest")
        add_field(mk, "car", 1, T.TYPE_MESSAGE, type_name=p + ".Car")
        add_field(mk, "request_id", 2, uuid4=True)
        add_field(mk, "idempotency_key", 3, optional=True, uuid4=True)
        add_field(mk, "tags", 4, repeated=True)
        ent = mk.nested_type.add(name="LabelsEntry")
        ent.options.map_entry = True
        add_field(ent, "key", 1)
        add_field(ent, "value", 2)
        add_field(mk, "labels", 5, T.TYPE_MESSAGE, repeated=True,
                  type_name=p + ".MakeCarRequest.LabelsEntry")
        add_field(mk, "extras", 6, T.TYPE_MESSAGE, repeated=True,
                  type_name=".google.protobuf.Value")
        add_field(mk, "spare", 7, T.TYPE_MESSAGE, type_name=".google.protobuf.Value")
        add_field(mk, "class", 8, uuid4=True)  # reserved word -> `class_`
        scrap = fd1.message_type.add(name="ScrapCarRequest")
        add_field(scrap, "name", 1)
        s1 = add_service(fd1, "Cars", "fleet.googleapis.com", version)
        add_method(s1, "MakeCar", p + ".MakeCarRequest", p + ".Car",
                   http=("post", "/v2/cars"), body="car",
                   signature="car,tags,labels,extras,spare,request_id")
        add_method(s1, "RemakeCar", p + ".MakeCarRequest", p + ".Car",
                   http=("post", "/v2/cars:remake"), body="*",
                   signature="tags")
        add_method(s1, "ScrapCar", p + ".ScrapCarRequest",
                   ".google.protobuf.Empty",
                   http=("delete", "/v2/{name=cars/*}"))

        sub = pkg + ".depots" if subpackage else pkg
        q = "." + sub
        fd2 = new_file("google/example/fleet/v2/depots/depots.proto", sub)
        fd2.dependency.append("google/example/fleet/v2/cars.proto")
        depot = fd2.message_type.add(name="Depot")
        add_field(depot, "name", 1)
        add_field(depot, "cars", 2, T.TYPE_MESSAGE, repeated=True,
                  type_name=p + ".Car")
        op = fd2.message_type.add(name="OpenDepotRequest")
        add_field(op, "depot", 1, T.TYPE_MESSAGE, type_name=q + ".Depot")
        add_field(op, "request_id", 2, optional=True, uuid4=True)
        s2 = add_service(fd2, "Depots", "fleet.googleapis.com")
        add_method(s2, "OpenDepot", q + ".OpenDepotRequest", q + ".Depot",
                   http=("post", "/v2/depots"), body="depot")
        # the request type lives in another proto package / same package
        add_method(s2, "AdoptCar", p + ".MakeCarRequest", p + ".Car",
                   http=("post", "/v2/depots:adopt"), body="*",
                   signature="car,tags,labels,extras,spare,request_id")
        # request from another package, flattened repeated field only
        add_method(s2, "RetagCar", p + ".MakeCarRequest", p + ".Car",
                   http=("post", "/v2/depots:retag"), body="*",
                   signature="tags")
        # request from another package, nothing flattened, void
        add_method(s2, "DropCar", p + ".MakeCarRequest",
                   ".google.protobuf.Empty",
                   http=("post", "/v2/depots:drop"), body="*")
        return [fd1, fd2]

    def parts_files(version=None):
        """Service in the top-level package, requests in a sub-package."""
        pkg = "google.example.fleet.v2"
        sub = pkg + ".parts"
        q = "." + sub
        fd0 = new_file("google/example/fleet/v2/parts/parts.proto", sub)
        part = fd0.message_type.add(name="Part")
        add_field(part, "name", 1)
        order = fd0.message_type.add(name="OrderPartRequest")
        add_field(order, "part", 1, T.TYPE_MESSAGE, type_name=q + ".Part")
        add_field(order, "request_id", 2, uuid4=True)
        add_field(order, "idempotency_key", 3, optional=True, uuid4=True)
        add_field(order, "tags", 4, repeated=True)
        ent = order.nested_type.add(name="LabelsEntry")
        ent.options.map_entry = True
        add_field(ent, "key", 1)
        add_field(ent, "value", 2)
        add_field(order, "labels", 5, T.TYPE_MESSAGE, repeated=True,
                  type_name=q + ".OrderPartRequest.LabelsEntry")
        add_field(order, "extras", 6, T.TYPE_MESSAGE, repeated=True,
                  type_name=".google.protobuf.Value")
        add_field(order, "spare", 7, T.TYPE_MESSAGE,
                  type_name=".google.protobuf.Value")
        add_field(order, "class", 8, uuid4=True)
        fd1, _ = fleet_files(subpackage=False, version=version)
        fd1.dependency.append(fd0.name)
        s1 = fd1.service[0]
        add_method(s1, "OrderPart", q + ".OrderPartRequest", q + ".Part",
                   http=("post", "/v2/parts"), body="*",
                   signature="part,tags,labels,extras,spare,request_id")
        add_method(s1, "ReturnPart", q + ".OrderPartRequest",
                   ".google.protobuf.Empty",
                   http=("post", "/v2/parts:return"), body="*",
                   signature="tags")
        add_method(s1, "CountParts", q + ".OrderPartRequest", q + ".Part",
                   http=("post", "/v2/parts:count"), body="*")
        add_method(s1, "WatchParts", q + ".OrderPartRequest", q + ".Part",
                   ss=True, signature="labels,extras")
        add_method(s1, "PushParts", q + ".OrderPartRequest", q + ".Part",
                   cs=True)
        return [fd0, fd1]

    cases = []

    def case(name, fds, package, opts, method_settings=None):
        opt_string = opts
        if method_settings is not None:
            path = yaml_file(name, method_settings)
            opt_string = (opts + "," if opts else "") + "service-yaml=" + path
        cases.append(
            dict(
                name=name,
                fds=DEPS + [fd.SerializeToString(deterministic=True) for fd in fds],
                package=package,
                opts=opt_string,
            )
        )

    LIB = "google.example.library.v1"
    L = LIB + ".Library."
    VALID = [
        {"selector": L + "CreateBook",
         "auto_populated_fields": ["request_id", "client_token"]},
        {"selector": L + "GetBook", "auto_populated_fields": ["request_id"]},
        {"selector": L + "DeleteBook", "auto_populated_fields": ["request_id"]},
        {"selector": L + "ListBooks", "auto_populated_fields": ["request_id"]},
        {"selector": L + "ImportBooks",
         "auto_populated_fields": ["request_id"],
         "long_running": {"initial_poll_delay": "3s",
                          "poll_delay_multiplier": 1.5,
                          "max_poll_delay": "60s",
                          "total_poll_timeout": "600s"}},
        # streaming method with settings but WITHOUT auto-populated fields
        {"selector": L + "StreamBooks"},
    ]

    # 1. valid settings, optional + plain fields, LRO, paging, streaming, void;
    #    implicit routing headers, no API version; grpc + rest.
    case("valid_grpc_rest", [library_file()], LIB, "transport=grpc+rest", VALID)
    # 2. the same settings with explicit routing (incl. a client-streaming
    #    method), the API version header and a deprecated method.
    case(
        "valid_routing_version",
        [library_file(version="v1_20240506", routing=True)],
        LIB,
        "transport=grpc+rest",
        VALID,
    )
    # 3. no service yaml at all (no `import uuid`, macro renders nothing), but
    #    with the API version header; grpc only.
    case("no_service_yaml_version", [library_file(version="2024-05-06")], LIB,
         "transport=grpc,autogen-snippets=false")
    # 4. method settings present but none has auto-populated fields; REST only.
    case(
        "settings_without_fields_rest",
        [library_file()],
        LIB,
        "transport=rest,rest-numeric-enums",
        [
            {"selector": L + "ImportBooks",
             "long_running": {"initial_poll_delay": "1s"}},
            {"selector": L + "GetBook", "auto_populated_fields": []},
        ],
    )
    # 5. empty list of method settings; explicit routing; no snippets.
    case("empty_settings_routing", [library_file(routing=True)], LIB,
         "transport=grpc,autogen-snippets=false", [])
    # 6. two services, one in a sub-package; only the sub-package method has
    #    settings (generation succeeds).
    FL = "google.example.fleet.v2"
    case(
        "two_services_subpackage",
        fleet_files(),
        FL,
        "transport=grpc+rest,autogen-snippets=false",
        [{"selector": FL + ".depots.Depots.OpenDepot",
          "auto_populated_fields": ["request_id"]},
         {"selector": FL + ".depots.Depots.RetagCar"}],
    )
    # 6a. the same API without any service yaml, REST only.
    case("two_services_subpackage_plain", fleet_files(), FL,
         "transport=rest,autogen-snippets=false")
    # 6c. auto-populated fields for a sub-package method whose request message
    #     lives in the parent package: the sub-package view of the API does not
    #     know the message, generation fails with a KeyError - identically.
    case(
        "two_services_subpackage_foreign_request",
        fleet_files(),
        FL,
        "transport=grpc+rest,autogen-snippets=false",
        [{"selector": FL + ".depots.Depots.AdoptCar",
          "auto_populated_fields": ["idempotency_key", "request_id"]}],
    )
    # 6d. service in the top-level package, request messages in a service-less
    #     sub-package (so `method.input.ident.package != method.ident.package`)
    #     with auto-populated fields and flattened scalar / repeated / map /
    #     Value fields; next to same-package methods of the same shapes.
    PARTS = [
        {"selector": FL + ".Cars.OrderPart",
         "auto_populated_fields": ["idempotency_key", "request_id"]},
        {"selector": FL + ".Cars.ReturnPart",
         "auto_populated_fields": ["request_id"]},
        {"selector": FL + ".Cars.MakeCar",
         "auto_populated_fields": ["request_id", "idempotency_key"]},
        {"selector": FL + ".Cars.RemakeCar",
         "auto_populated_fields": ["idempotency_key"]},
        {"selector": FL + ".Cars.ScrapCar"},
    ]
    case("foreign_request_grpc_rest", parts_files(version="v2"), FL,
         "transport=grpc+rest", PARTS)
    case("foreign_request_rest_numeric", parts_files(), FL,
         "transport=rest,rest-numeric-enums,autogen-snippets=false", PARTS[:2])
    case("foreign_request_no_yaml", parts_files(), FL,
         "transport=grpc,autogen-snippets=false")
    # 6e. reserved-word field names are renamed by the schema (`class` ->
    #     `class_`); whatever the outcome for either spelling, it is identical.
    case("reserved_word_renamed", parts_files(), FL,
         "transport=grpc+rest,autogen-snippets=false",
         [{"selector": FL + ".Cars.MakeCar",
           "auto_populated_fields": ["class_"]}])
    case("reserved_word_original", parts_files(), FL,
         "transport=grpc+rest,autogen-snippets=false",
         [{"selector": FL + ".Cars.OrderPart",
           "auto_populated_fields": ["class"]}])
    # 6b. settings for both services: the sub-package view of the API does not
    #     know `Cars.MakeCar`, generation is rejected - identically.
    case(
        "two_services_subpackage_rejected",
        fleet_files(),
        FL,
        "transport=grpc+rest,autogen-snippets=false",
        [
            {"selector": FL + ".depots.Depots.OpenDepot",
             "auto_populated_fields": ["request_id"]},
            {"selector": FL + ".Cars.MakeCar",
             "auto_populated_fields": ["idempotency_key", "request_id"]},
        ],
    )
    # 7. two services in two files of the SAME package, settings for three
    #    methods, only one service has an API version.
    case(
        "two_services_one_package",
        fleet_files(subpackage=False, version="v2beta"),
        FL,
        "transport=grpc+rest",
        [
            {"selector": FL + ".Depots.OpenDepot",
             "auto_populated_fields": ["request_id"]},
            {"selector": FL + ".Cars.MakeCar",
             "auto_populated_fields": ["idempotency_key", "request_id"]},
            {"selector": FL + ".Depots.AdoptCar",
             "auto_populated_fields": ["request_id"]},
            {"selector": FL + ".Cars.RemakeCar",
             "auto_populated_fields": ["idempotency_key"]},
        ],
    )
    # 8. a single valid setting, `metadata` + `old-naming` options.
    case(
        "valid_single_metadata",
        [library_file()],
        LIB,
        "metadata,old-naming",
        [{"selector": L + "GetBook", "auto_populated_fields": ["request_id"]}],
    )
    # 9. repeated string with UUID4: accepted by the validation (type `str`).
    case(
        "repeated_uuid4_field",
        [library_file()],
        LIB,
        "transport=grpc+rest,autogen-snippets=false",
        [{"selector": L + "CreateBook", "auto_populated_fields": ["many_ids"]}],
    )

    # ---- invalid settings: every single violation, and combinations -------
    invalid = {
        "err_duplicate": [
            {"selector": L + "GetBook", "auto_populated_fields": ["request_id"]},
            {"selector": L + "GetBook", "auto_populated_fields": ["request_id"]},
        ],
        "err_duplicate_after_errors": [
            {"selector": L + "CreateBook", "auto_populated_fields": ["plain_id"]},
            {"selector": L + "CreateBook", "auto_populated_fields": ["request_id"]},
            {"selector": L + "CreateBook"},
        ],
        "err_method_not_found": [
            {"selector": L + "NoSuchMethod", "auto_populated_fields": ["request_id"]},
        ],
        "err_method_not_found_no_fields": [
            {"selector": "google.example.library.v1.Nope.GetBook"},
        ],
        "err_empty_selector": [{"auto_populated_fields": ["request_id"]}],
        "err_server_streaming": [
            {"selector": L + "StreamBooks", "auto_populated_fields": ["request_id"]},
        ],
        "err_client_streaming": [
            {"selector": L + "UploadBooks", "auto_populated_fields": ["request_id"]},
        ],
        "err_bidi_streaming": [
            {"selector": L + "ChatBooks", "auto_populated_fields": ["nope"]},
        ],
        "err_field_not_found": [
            {"selector": L + "CreateBook", "auto_populated_fields": ["missing"]},
        ],
        "err_nested_field": [
            {"selector": L + "CreateBook",
             "auto_populated_fields": ["book.request_id"]},
        ],
        "err_reserved_word_field": [
            {"selector": L + "CreateBook", "auto_populated_fields": ["from"]},
        ],
        "err_not_string": [
            {"selector": L + "CreateBook", "auto_populated_fields": ["numeric_id"]},
        ],
        "err_message_typed": [
            {"selector": L + "CreateBook", "auto_populated_fields": ["book"]},
        ],
        "err_map_field": [
            {"selector": L + "CreateBook", "auto_populated_fields": ["labels"]},
        ],
        "err_required": [
            {"selector": L + "CreateBook", "auto_populated_fields": ["required_id"]},
        ],
        "err_not_uuid4": [
            {"selector": L + "CreateBook", "auto_populated_fields": ["plain_id"]},
        ],
        "err_optional_not_uuid4": [
            {"selector": L + "CreateBook", "auto_populated_fields": ["opt_plain"]},
        ],
        "err_two_criteria": [
            {"selector": L + "CreateBook",
             "auto_populated_fields": ["required_plain"]},
        ],
        "err_three_criteria": [
            {"selector": L + "CreateBook", "auto_populated_fields": ["bad_count"]},
        ],
        "err_many": [
            {"selector": L + "CreateBook",
             "auto_populated_fields": ["request_id", "missing", "numeric_id",
                                       "parent", "client_token", "plain_id",
                                       "bad_count", "book", "missing",
                                       "required_plain", "bad_count"]},
            {"selector": L + "StreamBooks", "auto_populated_fields": ["request_id"]},
            {"selector": L + "Zzz"},
            {"selector": L + "GetBook", "auto_populated_fields": ["request_id"]},
            {"selector": L + "GetBook"},
            {"selector": L + "DeleteBook", "auto_populated_fields": ["name"]},
        ],
    }
    for name, settings in invalid.items():
        case(name, [library_file()], LIB, "transport=grpc+rest", settings)
    return cases


# --------------------------------------------------------------------------
def main(argv) -> int:
    if len(argv) == 5 and argv[1] == "--worker":
        worker(argv[2], argv[3], argv[4])
        return 0
    if len(argv) != 2:
        print(__doc__)
        return 2

    checkout = os.path.abspath(argv[1])
    tmpdir = tempfile.mkdtemp(prefix="twin-demo-V18-")
    try:
        pristine = os.path.join(tmpdir, "pristine")
        os.mkdir(pristine)
        archive = subprocess.Popen(
            ["git", "-C", checkout, "archive", "HEAD"], stdout=subprocess.PIPE
        )
        subprocess.check_call(["tar", "-x", "-C", pristine], stdin=archive.stdout)
        archive.stdout.close()
        if archive.wait() != 0:
            print("git archive failed")
            return 1

        cases = build_cases(tmpdir)
        cases_path = os.path.join(tmpdir, "cases.pkl")
        with open(cases_path, "wb") as f:
            pickle.dump(cases, f)

        env = dict(os.environ)
        env.pop("PYTHONPATH", None)
        env["PYTHONDONTWRITEBYTECODE"] = "1"
        env["PYTHONHASHSEED"] = "0"
        outs = {}
        procs = []
        for label, tree in (("pristine", pristine), ("changed", checkout)):
            out_path = os.path.join(tmpdir, f"out_{label}.pkl")
            outs[label] = out_path
            procs.append(
                (
                    label,
                    subprocess.Popen(
                        [sys.executable, os.path.abspath(__file__), "--worker",
                         tree, cases_path, out_path],
                        env=env,
                        cwd=tmpdir,
                    ),
                )
            )
        failed = [label for label, proc in procs if proc.wait() != 0]
        if failed:
            print(f"worker(s) failed for: {', '.join(failed)}")
            return 1

        with open(outs["pristine"], "rb") as f:
            before = pickle.load(f)
        with open(outs["changed"], "rb") as f:
            after = pickle.load(f)

        problems = []
        n_files = n_ok = n_err = n_raw = 0
        for c in cases:
            name = c["name"]
            a, b = before[name], after[name]
            for key in sorted(set(a) | set(b)):
                if key == "files":
                    continue
                if key == "raw_files" and key in a and key in b:
                    ra, rb = a[key], b[key]
                    n_raw += len(ra)
                    if [n for n, _ in ra] != [n for n, _ in rb]:
                        problems.append(f"{name}: raw file names/order differ")
                    else:
                        problems.extend(
                            f"{name}: {n} differs before whitespace post-processing"
                            for (n, ca), (_, cb) in zip(ra, rb)
                            if ca != cb
                        )
                    continue
                if a.get(key, "<absent>") != b.get(key, "<absent>"):
                    problems.append(
                        f"{name}: {key} differs: {a.get(key)!r} != {b.get(key)!r}"
                    )
            fa, fb = a.get("files"), b.get("files")
            if (fa is None) != (fb is None):
                problems.append(f"{name}: only one tree generated files")
            elif fa is not None:
                n_ok += 1
                for fname in sorted(set(fa) | set(fb)):
                    n_files += 1
                    if fname not in fa:
                        problems.append(f"{name}: {fname} only in changed tree")
                    elif fname not in fb:
                        problems.append(f"{name}: {fname} only in pristine tree")
                    elif fa[fname] != fb[fname]:
                        problems.append(f"{name}: {fname} content differs")
            else:
                n_err += 1

        if os.environ.get("DEMO_VERBOSE"):
            for c in cases:
                o = after[c["name"]]
                print(c["name"], "->", len(o["files"]) if "files" in o else
                      o.get("error") or o.get("settings_error"))

        # Sanity: the cases must really exercise the code under test.
        def has(case_name, fname_part, text):
            files = after[case_name].get("files") or {}
            return any(
                fname_part in n and text in content for n, content in files.items()
            )

        three = after["err_three_criteria"].get("settings_error", ("", ""))[1]
        sanity = [
            has("valid_grpc_rest", "services/library/client.py",
                "if 'request_id' not in request:"),
            has("valid_grpc_rest", "services/library/async_client.py",
                "if not request.client_token:"),
            has("valid_grpc_rest", "services/library/async_client.py", "import uuid"),
            has("valid_grpc_rest", "services/library/client.py",
                "            requests,\n            retry=retry,"),
            has("valid_grpc_rest", "services/library/async_client.py",
                "            request,\n            retry=retry,"),
            has("valid_routing_version", "services/library/client.py",
                "routing_param_regex = "),
            has("valid_routing_version", "services/library/async_client.py",
                'version_header.to_api_version_header("v1_20240506")'),
            has("valid_routing_version", "services/library/async_client.py",
                "request.request_id = str(uuid.uuid4())"),
            not has("no_service_yaml_version", "services/library/async_client.py",
                    "import uuid"),
            has("settings_without_fields_rest", "services/library/client.py",
                "import uuid"),
            not has("settings_without_fields_rest", "services/library/client.py",
                    "uuid.uuid4()"),
            has("two_services_subpackage", "depots/services/depots/async_client.py",
                "if 'request_id' not in request:"),
            has("two_services_one_package", "services/cars/async_client.py",
                "if not request.request_id:"),
            has("two_services_one_package", "services/depots/client.py",
                "if not request.request_id:"),
            after["two_services_subpackage_rejected"].get("error", ("", ""))[1]
            == "MethodSettingsError",
            after["err_many"].get("settings_error", ("",))[0] == "MethodSettingsError",
            after["err_duplicate"].get("enforce", ("",))[0] == "MethodSettingsError",
            three.find("not of type string") < three.find("is a required field")
            < three.find("is not annotated with") and "not of type string" in three,
            len(after["valid_grpc_rest"]["all_methods"]) == 9,
            # request in another package: keyword expansion, `extend`, and
            # the auto-populated fields (optional first, then plain).
            has("foreign_request_grpc_rest", "services/cars/client.py",
                "request = parts.OrderPartRequest(**request)"),
            has("foreign_request_grpc_rest", "services/cars/client.py",
                "            if tags:\n                request.tags.extend(tags)\n"),
            has("foreign_request_grpc_rest", "services/cars/client.py",
                "        if 'idempotency_key' not in request:\n"
                "            request.idempotency_key = str(uuid.uuid4())\n"
                "        if not request.request_id:\n"
                "            request.request_id = str(uuid.uuid4())\n"),
            has("foreign_request_grpc_rest", "services/cars/async_client.py",
                "parts.OrderPartRequest(tags=tags, request_id=request_id)"),
            # request in the same package: assignment / update / extend.
            has("foreign_request_grpc_rest", "services/cars/async_client.py",
                "request.labels.update(labels)"),
            has("foreign_request_grpc_rest", "services/cars/async_client.py",
                "request.extras.extend(extras)"),
            has("foreign_request_grpc_rest", "services/cars/async_client.py",
                "        if spare is not None:\n            request.spare = spare\n"),
            has("foreign_request_grpc_rest", "services/cars/client.py",
                "                request.tags = tags\n"),
            has("foreign_request_rest_numeric", "services/cars/client.py",
                "if not request.request_id:"),
            not has("foreign_request_no_yaml", "services/cars/client.py", "uuid"),
            has("two_services_subpackage_plain", "depots/services/depots/client.py",
                "request = cars.MakeCarRequest(**request)"),
            has("reserved_word_renamed", "services/cars/client.py",
                "if not request.class_:"),
            after["reserved_word_original"].get("error", ("", ""))[1]
            == "MethodSettingsError",
            after["two_services_subpackage_foreign_request"].get("error", ("", ""))[1]
            == "KeyError",
            n_ok >= 14 and n_err >= 23 and n_raw >= 450,
        ]
        if not all(sanity):
            problems.append(f"sanity checks failed: {sanity}")

        if problems:
            print(f"DIFFERENT: {len(problems)} problem(s)")
            for p in problems:
                print("  " + p)
            return 1
        print(
            f"IDENTICAL: {len(cases)} API descriptions "
            f"({n_ok} generated, {n_err} rejected with identical errors), "
            f"{n_files} output files compared byte for byte "
            f"(plus {n_raw} of them again without whitespace post-processing)"
        )
        return 0
    finally:
        shutil.rmtree(tmpdir, ignore_errors=True)


if __name__ == "__main__":
    sys.exit(main(sys.argv))
