#!/usr/bin/env python
"""Twin demo for T07 (property C07: pagination).

Usage:  /venv/bin/python demo.py <path-to-a-checkout-with-the-change>

Creates a pristine export of the checkout's HEAD, builds several API
descriptions around the AIP-4233 paging rules, runs the generator on each of
them with BOTH trees (pristine HEAD and working tree, each in its own
subprocess) and compares every generated file byte for byte.

Exit 0 + a one-line summary when everything is identical, exit 1 otherwise.
"""
import os
import pickle
import shutil
import subprocess
import sys
import tempfile


# --------------------------------------------------------------------------
# Worker: runs inside a subprocess, with exactly one copy of `gapic` visible.
# --------------------------------------------------------------------------
def worker(tree: str, cases_path: str, out_path: str) -> int:
    tree = os.path.realpath(tree)

    # Make sure that the only `gapic` that can be imported is <tree>/gapic
    # (the venv has an editable install pointing somewhere else).
    sys.meta_path[:] = [
        f for f in sys.meta_path if "editable" not in repr(f).lower()
    ]
    sys.path[:] = [
        p
        for p in sys.path
        if p not in ("", ".") and "__editable__" not in p
        and os.path.realpath(p) != os.path.realpath(os.getcwd())
    ]
    sys.path.insert(0, tree)
    sys.path_importer_cache.clear()

    import gapic  # namespace package

    gapic.__path__ = [os.path.join(tree, "gapic")]

    # pandoc is not installed here: stub it identically for both runs.
    import pypandoc

    def _fake_convert_text(text, to, format=None, extra_args=(), **kw):
        return text

    pypandoc.convert_text = _fake_convert_text

    from google.protobuf import descriptor_pb2
    from gapic.generator import Generator
    from gapic.schema.api import API
    from gapic.utils import Options

    with open(cases_path, "rb") as f:
        cases = pickle.load(f)

    results = {}
    for case in cases:
        fds = [
            descriptor_pb2.FileDescriptorProto.FromString(blob)
            for blob in case["files"]
        ]
        opts = Options.build(case["opts"])
        for t in opts.templates:
            assert os.path.realpath(t).startswith(tree + os.sep), (t, tree)
        api = API.build(fds, package=case["package"], opts=opts)
        response = Generator(opts).get_response(api, opts)
        files = {}
        for out in response.file:
            assert out.name not in files, ("duplicate output", out.name)
            files[out.name] = out.content.encode("utf-8")
        # A little introspection so that the schema-level classification is
        # compared as well (not only what the templates happen to print).
        classification = []
        for svc_name, svc in sorted(api.services.items()):
            for m_name, m in svc.methods.items():
                f = m.paged_result_field
                classification.append(
                    "%s/%s -> %s" % (svc_name, m_name, None if f is None else f.name)
                )
        files["<classification>"] = "\n".join(classification).encode("utf-8")
        results[case["name"]] = files

    # Nothing from outside the tree may have been picked up.
    for name, mod in list(sys.modules.items()):
        if name == "gapic" or name.startswith("gapic."):
            origin = getattr(mod, "__file__", None)
            if origin is not None:
                assert os.path.realpath(origin).startswith(tree + os.sep), (
                    name,
                    origin,
                )

    with open(out_path, "wb") as f:
        pickle.dump(results, f)
    return 0


# --------------------------------------------------------------------------
# Descriptor construction helpers (parent process).
# --------------------------------------------------------------------------
def _build_cases():
    from google.api import annotations_pb2, client_pb2, http_pb2  # noqa: F401
    from google.longrunning import operations_pb2
    from google.protobuf import descriptor_pb2 as pb
    from google.protobuf import empty_pb2, struct_pb2, wrappers_pb2

    F = pb.FieldDescriptorProto

    def dep_closure(*file_descriptors):
        """Serialized FileDescriptorProtos of the transitive deps, deps first."""
        seen, ordered = set(), []

        def visit(fd):
            if fd.name in seen:
                return
            seen.add(fd.name)
            for d in fd.dependencies:
                visit(d)
            ordered.append(pb.FileDescriptorProto.FromString(fd.serialized_pb))

        for fd in file_descriptors:
            visit(fd)
        return ordered

    well_known = dep_closure(
        annotations_pb2.DESCRIPTOR,
        client_pb2.DESCRIPTOR,
        operations_pb2.DESCRIPTOR,
        empty_pb2.DESCRIPTOR,
        struct_pb2.DESCRIPTOR,
        wrappers_pb2.DESCRIPTOR,
    )
    well_known_names = [f.name for f in well_known]

    def field(name, number, type_, type_name=None, repeated=False, oneof=None):
        f = F(
            name=name,
            number=number,
            type=type_,
            label=F.LABEL_REPEATED if repeated else F.LABEL_OPTIONAL,
            json_name=name,
        )
        if type_name:
            f.type_name = type_name
        if oneof is not None:
            f.oneof_index = oneof
        return f

    def message(name, fields, nested=(), oneofs=(), doc=None):
        m = pb.DescriptorProto(name=name)
        m.field.extend(fields)
        m.nested_type.extend(nested)
        for o in oneofs:
            m.oneof_decl.add(name=o)
        return m

    def map_entry(name, value_type, value_type_name=None):
        e = pb.DescriptorProto(name=name)
        e.field.append(field("key", 1, F.TYPE_STRING))
        e.field.append(field("value", 2, value_type, value_type_name))
        e.options.map_entry = True
        return e

    def method(name, inp, out, http=None, client_streaming=False,
               server_streaming=False, lro=None, signature=None):
        m = pb.MethodDescriptorProto(
            name=name,
            input_type=inp,
            output_type=out,
            client_streaming=client_streaming,
            server_streaming=server_streaming,
        )
        if http:
            verb, uri, body = http
            rule = m.options.Extensions[annotations_pb2.http]
            setattr(rule, verb, uri)
            if body:
                rule.body = body
        if lro:
            info = m.options.Extensions[operations_pb2.operation_info]
            info.response_type, info.metadata_type = lro
        if signature:
            m.options.Extensions[client_pb2.method_signature].append(signature)
        return m

    def service(name, host, methods):
        s = pb.ServiceDescriptorProto(name=name)
        s.method.extend(methods)
        s.options.Extensions[client_pb2.default_host] = host
        s.options.Extensions[client_pb2.oauth_scopes] = (
            "https://www.googleapis.com/auth/cloud-platform"
        )
        return s

    def proto_file(name, package, messages=(), enums=(), services=(), deps=()):
        f = pb.FileDescriptorProto(name=name, package=package, syntax="proto3")
        f.dependency.extend(deps)
        f.message_type.extend(messages)
        f.enum_type.extend(enums)
        f.service.extend(services)
        return f

    def req(name, *extra, token_type=F.TYPE_STRING, size=("page_size", F.TYPE_INT32, None),
            token=True):
        fields = [field("parent", 1, F.TYPE_STRING)]
        n = 2
        if size is not None:
            fields.append(field(size[0], n, size[1], size[2]))
            n += 1
        if token:
            fields.append(field("page_token", n, token_type))
            n += 1
        for e in extra:
            e.number = n
            fields.append(e)
            n += 1
        return message(name, fields)

    # ------------------------------------------------------------------ #
    # Case family 1: a "library" API with every shape around the rules.   #
    # ------------------------------------------------------------------ #
    def library_files(package="google.example.library.v1", fname="library.proto",
                      rest_friendly=True, with_streaming=True):
        P = "." + package
        genre = pb.EnumDescriptorProto(name="Genre")
        genre.value.add(name="GENRE_UNSPECIFIED", number=0)
        genre.value.add(name="FICTION", number=1)

        book = message(
            "Book",
            [
                field("name", 1, F.TYPE_STRING),
                field("title", 2, F.TYPE_STRING),
                field("genre", 3, F.TYPE_ENUM, P + ".Genre"),
                field("class", 4, F.TYPE_STRING),
                field("isbn", 5, F.TYPE_INT64, oneof=0),
                field("ean", 6, F.TYPE_STRING, oneof=0),
                field("tags", 7, F.TYPE_STRING, repeated=True),
            ],
            oneofs=("code",),
        )
        msgs = [book, message("WriteMetadata", [field("done", 1, F.TYPE_BOOL)])]

        # plain: repeated message, int32 page_size
        msgs.append(req("ListBooksRequest", field("filter", 0, F.TYPE_STRING),
                        field("order_by", 0, F.TYPE_STRING)))
        msgs.append(message("ListBooksResponse", [
            field("books", 1, F.TYPE_MESSAGE, P + ".Book", repeated=True),
            field("next_page_token", 2, F.TYPE_STRING),
            field("total_size", 3, F.TYPE_INT32),
        ]))
        # repeated scalar; several repeated fields, next_page_token first
        msgs.append(req("ListNamesRequest"))
        msgs.append(message("ListNamesResponse", [
            field("next_page_token", 1, F.TYPE_STRING),
            field("names", 2, F.TYPE_STRING, repeated=True),
            field("books", 3, F.TYPE_MESSAGE, P + ".Book", repeated=True),
            field("unreachable", 4, F.TYPE_STRING, repeated=True),
        ]))
        # map items (message values)
        msgs.append(req("ListShelvesRequest"))
        msgs.append(message("ListShelvesResponse", [
            field("shelves", 1, F.TYPE_MESSAGE, P + ".ListShelvesResponse.ShelvesEntry",
                  repeated=True),
            field("next_page_token", 2, F.TYPE_STRING),
            field("warnings", 3, F.TYPE_STRING, repeated=True),
        ], nested=[map_entry("ShelvesEntry", F.TYPE_MESSAGE, P + ".Book")]))
        # map items (scalar values), after a singular field
        msgs.append(req("ListCountsRequest", size=("page_size", F.TYPE_INT64, None)))
        msgs.append(message("ListCountsResponse", [
            field("kind", 1, F.TYPE_STRING),
            field("counts", 2, F.TYPE_MESSAGE, P + ".ListCountsResponse.CountsEntry",
                  repeated=True),
            field("next_page_token", 3, F.TYPE_STRING),
        ], nested=[map_entry("CountsEntry", F.TYPE_INT32)]))
        # legacy: max_results as UInt32Value; a singular enum precedes the items
        # (repeated *enum* items are avoided on purpose: the pristine tree
        # itself crashes on them in pagers.py.j2, before and after the change)
        msgs.append(req("ListGenresRequest",
                        size=("max_results", F.TYPE_MESSAGE, ".google.protobuf.UInt32Value")))
        msgs.append(message("ListGenresResponse", [
            field("genre", 1, F.TYPE_ENUM, P + ".Genre"),
            field("next_page_token", 2, F.TYPE_STRING),
            field("books", 3, F.TYPE_MESSAGE, P + ".Book", repeated=True),
        ]))
        # legacy: max_results as Int32Value, items from another file, reserved name
        msgs.append(req("ListValuesRequest",
                        size=("max_results", F.TYPE_MESSAGE, ".google.protobuf.Int32Value")))
        msgs.append(message("ListValuesResponse", [
            field("class", 1, F.TYPE_MESSAGE, ".google.protobuf.Value", repeated=True),
            field("next_page_token", 2, F.TYPE_STRING),
        ]))
        # legacy: max_results int32 AND page_size present
        msgs.append(req("ListBothRequest", field("page_size", 0, F.TYPE_INT32),
                        size=("max_results", F.TYPE_INT32, None)))
        msgs.append(message("ListBothResponse", [
            field("items", 1, F.TYPE_BYTES, repeated=True),
            field("next_page_token", 2, F.TYPE_STRING),
        ]))
        # NOT paged: max_results mistyped (string) shadows a good page_size
        msgs.append(req("ListShadowRequest", field("page_size", 0, F.TYPE_INT32),
                        size=("max_results", F.TYPE_STRING, None)))
        msgs.append(message("ListShadowResponse", [
            field("items", 1, F.TYPE_STRING, repeated=True),
            field("next_page_token", 2, F.TYPE_STRING),
        ]))
        # NOT paged: wrapper of the wrong kind
        msgs.append(req("ListWrongWrapperRequest",
                        size=("page_size", F.TYPE_MESSAGE, ".google.protobuf.Int64Value")))
        msgs.append(message("ListWrongWrapperResponse", [
            field("items", 1, F.TYPE_STRING, repeated=True),
            field("next_page_token", 2, F.TYPE_STRING),
        ]))
        # NOT paged: page_token mistyped
        msgs.append(req("ListBadTokenRequest", token_type=F.TYPE_BYTES))
        msgs.append(message("ListBadTokenResponse", [
            field("items", 1, F.TYPE_STRING, repeated=True),
            field("next_page_token", 2, F.TYPE_STRING),
        ]))
        # NOT paged: next_page_token mistyped (int)
        msgs.append(req("ListBadNextRequest"))
        msgs.append(message("ListBadNextResponse", [
            field("items", 1, F.TYPE_STRING, repeated=True),
            field("next_page_token", 2, F.TYPE_INT32),
        ]))
        # NOT paged: no page size at all
        msgs.append(req("ListNoSizeRequest", size=None))
        msgs.append(message("ListNoSizeResponse", [
            field("items", 1, F.TYPE_STRING, repeated=True),
            field("next_page_token", 2, F.TYPE_STRING),
        ]))
        # NOT paged: no page_token
        msgs.append(req("ListNoTokenRequest", token=False))
        msgs.append(message("ListNoTokenResponse", [
            field("items", 1, F.TYPE_STRING, repeated=True),
            field("next_page_token", 2, F.TYPE_STRING),
        ]))
        # NOT paged: no next_page_token
        msgs.append(req("ListNoNextRequest"))
        msgs.append(message("ListNoNextResponse", [
            field("items", 1, F.TYPE_STRING, repeated=True),
        ]))
        # NOT paged: no repeated field
        msgs.append(req("ListNoItemsRequest"))
        msgs.append(message("ListNoItemsResponse", [
            field("item", 1, F.TYPE_MESSAGE, P + ".Book"),
            field("next_page_token", 2, F.TYPE_STRING),
        ]))
        # NOT paged: page_size float
        msgs.append(req("ListFloatSizeRequest", size=("page_size", F.TYPE_FLOAT, None)))
        msgs.append(message("ListFloatSizeResponse", [
            field("items", 1, F.TYPE_STRING, repeated=True),
            field("next_page_token", 2, F.TYPE_STRING),
        ]))
        msgs.append(message("GetBookRequest", [field("name", 1, F.TYPE_STRING)]))
        msgs.append(message("DeleteBookRequest", [field("name", 1, F.TYPE_STRING)]))
        msgs.append(message("WriteBookRequest", [
            field("name", 1, F.TYPE_STRING),
            field("book", 2, F.TYPE_MESSAGE, P + ".Book"),
        ]))

        def lst(short, verb="get"):
            return method(
                "List" + short,
                P + ".List%sRequest" % short,
                P + ".List%sResponse" % short,
                http=(verb, "/v1/{parent=shelves/*}/%s" % short.lower(),
                      "*" if verb == "post" else None) if rest_friendly else None,
                signature="parent",
            )

        methods = [
            lst("Books"), lst("Names"), lst("Shelves"), lst("Counts", "post"),
            lst("Genres"), lst("Values"), lst("Both"), lst("Shadow"),
            lst("WrongWrapper"), lst("BadToken"), lst("BadNext"), lst("NoSize"),
            lst("NoToken"), lst("NoNext"), lst("NoItems"), lst("FloatSize"),
            method("GetBook", P + ".GetBookRequest", P + ".Book",
                   http=("get", "/v1/{name=shelves/*/books/*}", None), signature="name"),
            method("DeleteBook", P + ".DeleteBookRequest", ".google.protobuf.Empty",
                   http=("delete", "/v1/{name=shelves/*/books/*}", None)),
            method("WriteBook", P + ".WriteBookRequest", ".google.longrunning.Operation",
                   http=("post", "/v1/{name=shelves/*/books/*}:write", "*"),
                   lro=(package + ".Book", package + ".WriteMetadata")),
        ]
        if with_streaming:
            # A server-streaming method whose messages have the paging shape,
            # and a bidi one.
            methods.append(method("StreamBooks", P + ".ListBooksRequest",
                                  P + ".ListBooksResponse", server_streaming=True,
                                  http=("get", "/v1/{parent=shelves/*}/books:stream", None)))
            methods.append(method("ChatBooks", P + ".ListNamesRequest",
                                  P + ".ListNamesResponse", server_streaming=True,
                                  client_streaming=True))
        target = proto_file(
            "google/example/%s" % fname if "/" not in fname else fname,
            package, messages=msgs, enums=[genre],
            services=[service("Library", "library.example.com", methods)],
            deps=well_known_names,
        )
        return target

    cases = []

    def add(name, package, opts, targets):
        cases.append({
            "name": name,
            "package": package,
            "opts": opts,
            "files": [f.SerializeToString(deterministic=True)
                      for f in list(well_known) + list(targets)],
        })

    lib = library_files()
    add("library-grpc-default", "google.example.library.v1", "", [lib])
    add("library-rest-numeric-enums", "google.example.library.v1",
        "transport=rest,rest-numeric-enums", [library_files(with_streaming=False)])
    add("library-grpc+rest-nosnippets-metadata", "google.example.library.v1",
        "transport=grpc+rest,autogen-snippets=false,metadata", [lib])
    add("library-ads-old-naming", "google.example.library.v1",
        "old-naming,python-gapic-templates=ads-templates",
        [library_files(rest_friendly=False)])

    # ------------------------------------------------------------------ #
    # Case family 2: several files, sub-package, two services, one of     #
    # which has no paged method at all (its pagers.py must stay empty).   #
    # ------------------------------------------------------------------ #
    pkg = "acme.inventory.v2"
    P = "." + pkg
    common = proto_file(
        "acme/inventory/v2/common.proto", pkg,
        messages=[
            message("Item", [field("name", 1, F.TYPE_STRING),
                             field("in", 2, F.TYPE_INT32)]),
            message("Empty2", []),
        ],
    )
    sub_pkg = pkg + ".admin"
    SP = "." + sub_pkg
    stock = proto_file(
        "acme/inventory/v2/stock.proto", pkg,
        messages=[
            req("ListItemsRequest", field("view", 0, F.TYPE_INT32)),
            message("ListItemsResponse", [
                field("next_page_token", 1, F.TYPE_STRING),
                field("items", 2, F.TYPE_MESSAGE, P + ".Item", repeated=True),
            ]),
            # request-less paging shape: page_token/page_size only
            message("ListAllRequest", [field("page_size", 1, F.TYPE_UINT32),
                                       field("page_token", 2, F.TYPE_STRING)]),
            message("ListAllResponse", [
                field("structs", 1, F.TYPE_MESSAGE, ".google.protobuf.Struct", repeated=True),
                field("items", 2, F.TYPE_MESSAGE, P + ".Item", repeated=True),
                field("next_page_token", 3, F.TYPE_STRING),
            ]),
            message("PingRequest", [field("payload", 1, F.TYPE_STRING)]),
        ],
        services=[
            service("Stock", "stock.acme.example", [
                method("ListItems", P + ".ListItemsRequest", P + ".ListItemsResponse",
                       http=("get", "/v2/{parent=warehouses/*}/items", None)),
                method("ListAll", P + ".ListAllRequest", P + ".ListAllResponse",
                       http=("get", "/v2/all", None)),
            ]),
            service("Health", "stock.acme.example", [
                method("Ping", P + ".PingRequest", P + ".Empty2",
                       http=("post", "/v2/ping", "*")),
                method("Watch", P + ".PingRequest", P + ".Item", server_streaming=True,
                       http=("get", "/v2/watch", None)),
            ]),
        ],
        deps=well_known_names + ["acme/inventory/v2/common.proto"],
    )
    admin = proto_file(
        "acme/inventory/v2/admin/admin.proto", sub_pkg,
        messages=[
            req("ListAuditsRequest"),
            message("ListAuditsResponse", [
                field("audits", 1, F.TYPE_MESSAGE, SP + ".ListAuditsResponse.AuditsEntry",
                      repeated=True),
                field("next_page_token", 2, F.TYPE_STRING),
            ], nested=[map_entry("AuditsEntry", F.TYPE_MESSAGE, P + ".Item")]),
            req("ListUsersRequest",
                size=("max_results", F.TYPE_MESSAGE, ".google.protobuf.UInt32Value")),
            message("ListUsersResponse", [
                field("users", 1, F.TYPE_MESSAGE, P + ".Item", repeated=True),
                field("next_page_token", 2, F.TYPE_STRING),
            ]),
        ],
        services=[
            service("Admin", "admin.acme.example", [
                method("ListAudits", SP + ".ListAuditsRequest", SP + ".ListAuditsResponse",
                       http=("get", "/v2/{parent=orgs/*}/audits", None)),
                method("ListUsers", SP + ".ListUsersRequest", SP + ".ListUsersResponse",
                       http=("get", "/v2/{parent=orgs/*}/users", None)),
            ]),
        ],
        deps=well_known_names + ["acme/inventory/v2/common.proto"],
    )
    # (snippet generation of the pristine tree cannot cope with services in a
    # sub-package, so the sub-package file is only used with snippets off)
    add("inventory-two-files-grpc-snippets", pkg, "", [common, stock])
    add("inventory-multi-grpc-nosnippets", pkg, "autogen-snippets=false",
        [common, stock, admin])
    add("inventory-multi-grpc+rest", pkg,
        "transport=grpc+rest,rest-numeric-enums,autogen-snippets=false",
        [common, stock, admin])
    add("inventory-multi-rest-nosnippets", pkg, "transport=rest,autogen-snippets=false",
        [common, stock, admin])

    # ------------------------------------------------------------------ #
    # Case family 3: no paged method anywhere.                            #
    # ------------------------------------------------------------------ #
    pkg3 = "tiny.echo.v1"
    echo = proto_file(
        "tiny/echo/v1/echo.proto", pkg3,
        messages=[
            message("EchoRequest", [field("content", 1, F.TYPE_STRING),
                                    field("page_token", 2, F.TYPE_STRING)]),
            message("EchoResponse", [field("content", 1, F.TYPE_STRING),
                                     field("next_page_token", 2, F.TYPE_STRING),
                                     field("words", 3, F.TYPE_STRING, repeated=True)]),
        ],
        services=[service("Echo", "echo.example.com", [
            method("Echo", ".tiny.echo.v1.EchoRequest", ".tiny.echo.v1.EchoResponse",
                   http=("post", "/v1/echo", "*")),
        ])],
        deps=well_known_names,
    )
    add("echo-nopaging-grpc+rest", pkg3, "transport=grpc+rest", [echo])
    return cases


# --------------------------------------------------------------------------
# Driver.
# --------------------------------------------------------------------------
def main(argv) -> int:
    if len(argv) >= 2 and argv[1] == "--worker":
        return worker(argv[2], argv[3], argv[4])
    if len(argv) != 2:
        print(__doc__)
        return 2
    checkout = os.path.realpath(argv[1])
    tmp = tempfile.mkdtemp(prefix="twin-demo-T07-")
    try:
        base = os.path.join(tmp, "base")
        os.mkdir(base)
        archive = subprocess.Popen(
            ["git", "-C", checkout, "archive", "HEAD"], stdout=subprocess.PIPE
        )
        subprocess.check_call(["tar", "-x", "-C", base], stdin=archive.stdout)
        archive.stdout.close()
        if archive.wait() != 0:
            print("git archive failed")
            return 1

        cases_path = os.path.join(tmp, "cases.pkl")
        with open(cases_path, "wb") as f:
            pickle.dump(_build_cases(), f)

        outputs = {}
        env = dict(os.environ, PYTHONHASHSEED="0", PYTHONDONTWRITEBYTECODE="1")
        env.pop("PYTHONPATH", None)
        for label, tree in (("base", base), ("changed", checkout)):
            out_path = os.path.join(tmp, label + ".pkl")
            proc = subprocess.run(
                [sys.executable, os.path.abspath(__file__), "--worker", tree,
                 cases_path, out_path],
                cwd=tmp, env=env, stdout=subprocess.PIPE, stderr=subprocess.STDOUT,
                text=True,
            )
            if proc.returncode != 0:
                print("generator run failed for %s tree:\n%s" % (label, proc.stdout))
                return 1
            with open(out_path, "rb") as f:
                outputs[label] = pickle.load(f)

        differing, n_files, n_pagers = [], 0, 0
        for case in sorted(set(outputs["base"]) | set(outputs["changed"])):
            a = outputs["base"].get(case, {})
            b = outputs["changed"].get(case, {})
            for fname in sorted(set(a) | set(b)):
                n_files += 1
                if fname.endswith("pagers.py") and a.get(fname):
                    n_pagers += 1
                if fname not in a:
                    differing.append("%s: %s only in changed tree" % (case, fname))
                elif fname not in b:
                    differing.append("%s: %s only in base tree" % (case, fname))
                elif a[fname] != b[fname]:
                    differing.append("%s: %s differs" % (case, fname))
        if differing:
            print("OUTPUT DIFFERS (%d files):" % len(differing))
            for d in differing:
                print("  " + d)
            return 1
        print(
            "IDENTICAL: %d cases, %d output files (%d non-empty pagers.py) "
            "byte-for-byte equal between HEAD and working tree"
            % (len(outputs["base"]), n_files, n_pagers)
        )
        return 0
    finally:
        shutil.rmtree(tmp, ignore_errors=True)


if __name__ == "__main__":
    sys.exit(main(sys.argv))
