#!/usr/bin/env python3
"""Equivalence demo for the V15 refactoring (property C15: gapic_metadata.json
and the keyword fix-up script).

Usage:  /venv/bin/python demo.py <path-to-a-checkout-with-the-change>

It exports the checkout's HEAD into a temp dir (the "pristine" tree), builds a
number of API descriptions in Python, runs the generator on each of them with
BOTH trees (pristine export and the working tree of the checkout) in separate
subprocesses, and compares every output file byte for byte.

Exit 0 + one-line summary when everything is identical, exit 1 otherwise.
"""

import json
import os
import pickle
import shutil
import subprocess
import sys
import tempfile


# --------------------------------------------------------------------------
# Worker: runs in a subprocess, with exactly one tree providing `gapic`.
# --------------------------------------------------------------------------
def worker(tree: str, spec_path: str, out_path: str) -> int:
    tree = os.path.realpath(tree)

    # Get rid of everything that could provide another copy of `gapic`
    # (the venv has an editable install of another checkout).
    sys.meta_path[:] = [
        f for f in sys.meta_path
        if "editable" not in (getattr(f, "__module__", "") or "").lower()
        and "editable" not in getattr(f, "__name__", type(f).__name__).lower()
    ]
    sys.path_hooks[:] = [
        h for h in sys.path_hooks
        if "editable" not in (getattr(h, "__module__", "") or "").lower()
        and "editable" not in getattr(h, "__qualname__", "").lower()
    ]
    here = os.path.dirname(os.path.realpath(__file__))
    cleaned = []
    for p in sys.path:
        if "__editable__" in p:
            continue
        rp = os.path.realpath(p or os.getcwd())
        if rp == tree:
            continue
        if os.path.isdir(os.path.join(rp, "gapic")):
            # Some other directory that would contribute to the `gapic`
            # namespace package: drop it.
            continue
        if rp == here and rp != tree:
            continue
        cleaned.append(p)
    sys.path[:] = [tree] + cleaned
    sys.path_importer_cache.clear()
    for name in list(sys.modules):
        if name == "gapic" or name.startswith("gapic."):
            del sys.modules[name]

    # pandoc may be missing: stub it identically for both trees.
    import pypandoc  # type: ignore

    def _convert_text(text, to, format=None, extra_args=(), **kw):
        return text

    pypandoc.convert_text = _convert_text

    from google.protobuf import descriptor_pb2

    import gapic
    from gapic.generator import Generator
    from gapic.schema.api import API
    from gapic.utils import Options

    gapic_paths = [os.path.realpath(p) for p in gapic.__path__]
    assert gapic_paths == [os.path.join(tree, "gapic")], gapic_paths

    with open(spec_path, "rb") as f:
        specs = pickle.load(f)

    results = {}
    for spec in specs:
        fdps = [descriptor_pb2.FileDescriptorProto.FromString(b)
                for b in spec["files"]]
        opts = Options.build(spec["opts"])
        for tdir in opts.templates:
            assert os.path.realpath(tdir).startswith(tree + os.sep), tdir
        api = API.build(fdps, package=spec["package"], opts=opts)
        gen = Generator(opts)
        for sp in gen._env.loader.searchpath:
            assert os.path.realpath(sp).startswith(tree + os.sep), sp
        response = gen.get_response(api, opts)
        files = {}
        for rf in response.file:
            assert rf.name not in files, "duplicate output file " + rf.name
            files[rf.name] = rf.content
        results[spec["id"]] = files

    # Every gapic module must come from the tree under test.
    n_mod = 0
    for name, mod in list(sys.modules.items()):
        if name == "gapic" or name.startswith("gapic."):
            n_mod += 1
            mfile = getattr(mod, "__file__", None)
            if mfile is not None:
                assert os.path.realpath(mfile).startswith(tree + os.sep), (name, mfile)
            for p in getattr(mod, "__path__", []) or []:
                assert os.path.realpath(p).startswith(tree + os.sep), (name, p)
    assert n_mod > 10, n_mod

    with open(out_path, "wb") as f:
        pickle.dump(results, f)
    return 0


# --------------------------------------------------------------------------
# Descriptor construction (main process; does not import gapic).
# --------------------------------------------------------------------------
def build_specs(tmpdir: str):
    from google.api import annotations_pb2, client_pb2, field_behavior_pb2
    from google.api import resource_pb2
    from google.longrunning import operations_pb2
    from google.protobuf import descriptor_pb2 as d
    from google.protobuf import descriptor_pool
    from google.protobuf import empty_pb2  # noqa: F401
    from google.protobuf import field_mask_pb2  # noqa: F401

    T = d.FieldDescriptorProto
    pool = descriptor_pool.Default()

    def dep_closure(names):
        """Serialized FileDescriptorProtos of `names` and everything they
        import, dependencies first."""
        seen, order = set(), []

        def visit(n):
            if n in seen:
                return
            seen.add(n)
            fd = pool.FindFileByName(n)
            for dep in fd.dependencies:
                visit(dep.name)
            order.append(fd.serialized_pb)

        for n in names:
            visit(n)
        return order

    def fld(name, number, type_=T.TYPE_STRING, type_name=None, repeated=False,
            required=False, oneof_index=None, ref=None, child_ref=None):
        f = T(name=name, number=number, type=type_,
              label=T.LABEL_REPEATED if repeated else T.LABEL_OPTIONAL)
        if type_name:
            f.type_name = type_name
        if required:
            f.options.Extensions[field_behavior_pb2.field_behavior].append(
                field_behavior_pb2.REQUIRED)
        if oneof_index is not None:
            f.oneof_index = oneof_index
        if ref:
            f.options.Extensions[resource_pb2.resource_reference].type = ref
        if child_ref:
            f.options.Extensions[resource_pb2.resource_reference].child_type = child_ref
        f.json_name = "".join(
            p if i == 0 else p.capitalize() for i, p in enumerate(name.split("_")))
        return f

    def msg(name, fields=(), oneofs=(), nested=(), resource=None):
        m = d.DescriptorProto(name=name)
        m.field.extend(fields)
        for o in oneofs:
            m.oneof_decl.add(name=o)
        m.nested_type.extend(nested)
        if resource:
            r = m.options.Extensions[resource_pb2.resource]
            r.type = resource[0]
            r.pattern.extend(resource[1:])
        return m

    def map_entry(name):
        e = d.DescriptorProto(name=name)
        e.field.extend([fld("key", 1), fld("value", 2)])
        e.options.map_entry = True
        return e

    def rpc(name, inp, out, http=None, body=None, sigs=(), cs=False, ss=False,
            lro=None):
        m = d.MethodDescriptorProto(name=name, input_type=inp, output_type=out,
                                    client_streaming=cs, server_streaming=ss)
        if http:
            verb, uri = http
            rule = m.options.Extensions[annotations_pb2.http]
            setattr(rule, verb, uri)
            if body:
                rule.body = body
        for s in sigs:
            m.options.Extensions[client_pb2.method_signature].append(s)
        if lro:
            info = m.options.Extensions[operations_pb2.operation_info]
            info.response_type, info.metadata_type = lro
        return m

    def svc(name, methods, host=None, scopes=None):
        s = d.ServiceDescriptorProto(name=name)
        s.method.extend(methods)
        if host:
            s.options.Extensions[client_pb2.default_host] = host
        if scopes:
            s.options.Extensions[client_pb2.oauth_scopes] = scopes
        return s

    # ---------------------------------------------------------------- library
    P = "google.example.library.v1"
    Q = "." + P + "."
    lib = d.FileDescriptorProto(
        name="google/example/library/v1/library.proto", package=P, syntax="proto3")
    lib.dependency.extend([
        "google/api/annotations.proto", "google/api/client.proto",
        "google/api/field_behavior.proto", "google/api/resource.proto",
        "google/longrunning/operations.proto", "google/protobuf/empty.proto",
        "google/protobuf/field_mask.proto",
    ])
    genre = d.EnumDescriptorProto(name="Genre")
    genre.value.add(name="GENRE_UNSPECIFIED", number=0)
    genre.value.add(name="FICTION", number=1)
    genre.value.add(name="SCIENCE", number=2)
    lib.enum_type.append(genre)
    lib.message_type.extend([
        msg("Book", [
            fld("name", 1),
            fld("author", 2),
            fld("labels", 3, T.TYPE_MESSAGE, Q + "Book.LabelsEntry", repeated=True),
            fld("tags", 4, repeated=True),
            fld("isbn", 5, oneof_index=0),
            fld("serial", 6, T.TYPE_INT64, oneof_index=0),
            fld("genre", 7, T.TYPE_ENUM, Q + "Genre"),
        ], oneofs=["kind"], nested=[map_entry("LabelsEntry")],
            resource=("library.example.com/Book", "shelves/{shelf}/books/{book}")),
        msg("Shelf", [fld("name", 1), fld("theme", 2)],
            resource=("library.example.com/Shelf", "shelves/{shelf}")),
        msg("GetBookRequest", [
            fld("name", 1, required=True, ref="library.example.com/Book")]),
        # Required fields are NOT first in declaration order; reserved words.
        msg("CreateBookRequest", [
            fld("book_id", 1),
            fld("parent", 2, required=True, ref="library.example.com/Shelf"),
            fld("class", 3),
            fld("book", 4, T.TYPE_MESSAGE, Q + "Book", required=True),
            fld("from", 5, T.TYPE_BOOL, required=True),
            fld("in", 6, repeated=True),
            fld("update_mask", 7, T.TYPE_MESSAGE, ".google.protobuf.FieldMask"),
        ]),
        msg("ListBooksRequest", [
            fld("filter", 1),
            fld("page_size", 2, T.TYPE_INT32),
            fld("page_token", 3),
            fld("parent", 4, required=True, child_ref="library.example.com/Book"),
        ]),
        msg("ListBooksResponse", [
            fld("books", 1, T.TYPE_MESSAGE, Q + "Book", repeated=True),
            fld("next_page_token", 2),
        ]),
        msg("ImportBooksRequest", [
            fld("source", 1),
            fld("options", 2, T.TYPE_MESSAGE, Q + "ImportBooksRequest.OptionsEntry",
                repeated=True),
            fld("parent", 3, required=True),
            fld("uri", 4, oneof_index=0),
            fld("inline", 5, T.TYPE_BYTES, oneof_index=0, required=True),
        ], oneofs=["payload"], nested=[map_entry("OptionsEntry")]),
        msg("ImportBooksResponse", [fld("count", 1, T.TYPE_INT32)]),
        msg("ImportMetadata", []),
        msg("DeleteBookRequest", [
            fld("force", 1, T.TYPE_BOOL), fld("name", 2, required=True)]),
        msg("StreamBooksRequest", [fld("parent", 1), fld("filter", 2)]),
        msg("EmptyRequest", []),
        msg("GetShelfRequest", [fld("name", 1, required=True)]),
        msg("CreateShelfBookRequest", [
            fld("extra", 1), fld("shelf", 2, required=True), fld("global", 3)]),
        msg("ChatMessage", [fld("text", 1), fld("yield", 2, required=True)]),
    ])
    lib.service.extend([
        svc("Library", [
            rpc("GetBook", Q + "GetBookRequest", Q + "Book",
                http=("get", "/v1/{name=shelves/*/books/*}"), sigs=["name"]),
            rpc("CreateBook", Q + "CreateBookRequest", Q + "Book",
                http=("post", "/v1/{parent=shelves/*}/books"), body="book",
                sigs=["parent,book,book_id", "parent,book"]),
            rpc("ListBooks", Q + "ListBooksRequest", Q + "ListBooksResponse",
                http=("get", "/v1/{parent=shelves/*}/books"), sigs=["parent"]),
            rpc("DeleteBook", Q + "DeleteBookRequest", ".google.protobuf.Empty",
                http=("delete", "/v1/{name=shelves/*/books/*}"), sigs=["name"]),
            # Keyword-named methods.
            rpc("Import", Q + "ImportBooksRequest", ".google.longrunning.Operation",
                http=("post", "/v1/{parent=shelves/*}/books:import"), body="*",
                lro=("ImportBooksResponse", "ImportMetadata")),
            rpc("Class", Q + "EmptyRequest", Q + "Shelf",
                http=("post", "/v1/class"), body="*"),
            rpc("StreamBooks", Q + "StreamBooksRequest", Q + "Book",
                http=("get", "/v1/{parent=shelves/*}/books:stream"), ss=True),
            # Request from another package, no http annotation.
            rpc("Ping", ".google.protobuf.Empty", ".google.protobuf.Empty"),
        ], host="library.example.com",
            scopes="https://www.googleapis.com/auth/cloud-platform"),
        svc("Shelves", [
            rpc("GetShelf", Q + "GetShelfRequest", Q + "Shelf",
                http=("get", "/v1/{name=shelves/*}"), sigs=["name"]),
            # Same RPC name as in Library, different request message.
            rpc("CreateBook", Q + "CreateShelfBookRequest", Q + "Book",
                http=("post", "/v1/{shelf=shelves/*}:createBook"), body="*"),
            rpc("Chat", Q + "ChatMessage", Q + "ChatMessage", cs=True, ss=True),
            rpc("Upload", Q + "ChatMessage", Q + "Shelf", cs=True),
            rpc("Del", Q + "GetShelfRequest", ".google.protobuf.Empty",
                http=("delete", "/v1/{name=shelves/*}")),
        ], host="library.example.com"),
    ])
    lib_files = dep_closure(list(lib.dependency)) + [lib.SerializeToString()]

    def yaml_for(tag, methods, internal):
        path = os.path.join(tmpdir, "service_%s.yaml" % tag)
        cfg = {
            "type": "google.api.Service",
            "config_version": 3,
            "name": "library.example.com",
            "publishing": {"library_settings": [{
                "version": P,
                "python_settings": {"common": {"selective_gapic_generation": {
                    "methods": methods,
                    "generate_omitted_as_internal": internal,
                }}},
            }]},
        }
        with open(path, "w") as f:
            json.dump(cfg, f)  # JSON is YAML
        return path

    y_internal = yaml_for("internal", [
        P + ".Library.GetBook", P + ".Library.Import", P + ".Shelves.GetShelf",
        P + ".Shelves.Chat"], True)
    y_internal2 = yaml_for("internal2", [P + ".Library.GetBook"], True)
    y_omit = yaml_for("omit", [
        P + ".Library.CreateBook", P + ".Library.Class"], False)

    specs = []

    def add(id_, package, files, opts):
        specs.append({"id": id_, "package": package, "files": files, "opts": opts})

    add("library:grpc+rest", P, lib_files, "metadata,transport=grpc+rest")
    add("library:rest-numeric", P, lib_files,
        "metadata,transport=rest,rest-numeric-enums")
    add("library:grpc-iam-nosnippets", P, lib_files,
        "metadata,transport=grpc,autogen-snippets=false,add-iam-methods")
    add("library:defaults-no-metadata", P, lib_files, "autogen-snippets=false")
    add("library:internal", P, lib_files,
        "metadata,transport=grpc+rest,autogen-snippets=false,service-yaml=" + y_internal)
    add("library:internal-one-service", P, lib_files,
        "metadata,transport=rest+grpc,service-yaml=" + y_internal2)
    add("library:selective-omit", P, lib_files,
        "metadata,transport=grpc+rest,autogen-snippets=false,service-yaml=" + y_omit)

    # -------------------------------------------------------------------- zoo
    # No annotations at all, a sub-package, keyword-ish method names,
    # custom namespace / name.
    Z = "google.example.zoo.v1"
    ZQ = "." + Z + "."
    zoo = d.FileDescriptorProto(
        name="google/example/zoo/v1/zoo.proto", package=Z, syntax="proto3")
    zoo.message_type.extend([
        msg("Animal", [fld("name", 1), fld("legs", 2, T.TYPE_INT32),
                       fld("not", 3), fld("lambda", 4, repeated=True)]),
        msg("AnimalQuery", [fld("species", 1), fld("limit", 2, T.TYPE_UINT32),
                            fld("async", 3, T.TYPE_BOOL), fld("type", 4)]),
        msg("Nothing", []),
    ])
    zoo.service.extend([
        svc("Zoo", [
            rpc("Global", ZQ + "AnimalQuery", ZQ + "Animal"),
            rpc("Return", ZQ + "Nothing", ZQ + "Nothing"),
            rpc("Is", ZQ + "Animal", ZQ + "Animal"),
            rpc("FindAnimal", ZQ + "AnimalQuery", ZQ + "Animal"),
            rpc("WatchAnimals", ZQ + "AnimalQuery", ZQ + "Animal", ss=True),
        ]),
        svc("Empty", []),
    ])
    F = Z + ".feeding"
    FQ = "." + F + "."
    feed = d.FileDescriptorProto(
        name="google/example/zoo/v1/feeding/feeding.proto", package=F,
        syntax="proto3")
    feed.dependency.extend([
        "google/example/zoo/v1/zoo.proto", "google/api/field_behavior.proto"])
    feed.message_type.extend([
        msg("FeedRequest", [
            fld("amount", 1, T.TYPE_DOUBLE),
            fld("animal", 2, T.TYPE_MESSAGE, ZQ + "Animal", required=True),
            fld("food", 3, required=True),
            fld("schedule", 4, T.TYPE_MESSAGE, FQ + "FeedRequest.ScheduleEntry",
                repeated=True),
        ], nested=[map_entry("ScheduleEntry")]),
        msg("FeedResponse", [fld("ok", 1, T.TYPE_BOOL)]),
    ])
    feed.service.extend([
        svc("Feeder", [
            rpc("Feed", FQ + "FeedRequest", FQ + "FeedResponse"),
            rpc("Pass", FQ + "FeedRequest", FQ + "FeedResponse"),
            # Same name as Zoo.FindAnimal, request type from the parent package.
            rpc("FindAnimal", ZQ + "Animal", ZQ + "Animal"),
        ]),
    ])
    zoo_files = (dep_closure(["google/api/field_behavior.proto"])
                 + [zoo.SerializeToString(), feed.SerializeToString()])
    # (snippet generation does not support services in sub-packages: HEAD itself
    # fails with a KeyError there, so snippets are off for the zoo API.)
    add("zoo:grpc+rest", Z, zoo_files,
        "metadata,transport=grpc+rest,autogen-snippets=false")
    add("zoo:named-grpc", Z, zoo_files,
        "metadata,python-gapic-namespace=acme.animals,python-gapic-name=zoological,"
        "autogen-snippets=false")
    add("zoo:rest-iam", Z, zoo_files,
        "metadata,transport=rest,add-iam-methods,autogen-snippets=false")

    # ------------------------------------------------------------------- tiny
    # Unversioned package, one service, one method with an empty request.
    tiny = d.FileDescriptorProto(
        name="example/tiny/tiny.proto", package="example.tiny", syntax="proto3")
    tiny.message_type.extend([msg("Void", [])])
    tiny.service.extend([svc("Tiny", [
        rpc("Noop", ".example.tiny.Void", ".example.tiny.Void")])])
    add("tiny:grpc", "example.tiny", [tiny.SerializeToString()], "metadata")
    add("tiny:rest", "example.tiny", [tiny.SerializeToString()],
        "metadata,transport=rest,autogen-snippets=false")

    # A package with messages only (no services at all).
    bare = d.FileDescriptorProto(
        name="example/bare/v2/bare.proto", package="example.bare.v2",
        syntax="proto3")
    bare.message_type.extend([msg("Thing", [fld("id", 1)])])
    add("bare:grpc+rest", "example.bare.v2", [bare.SerializeToString()],
        "metadata,transport=grpc+rest")
    return specs


# --------------------------------------------------------------------------
def main(argv) -> int:
    if len(argv) >= 2 and argv[1] == "--worker":
        return worker(argv[2], argv[3], argv[4])
    if len(argv) != 2:
        print(__doc__)
        return 2

    checkout = os.path.realpath(argv[1])
    tmpdir = tempfile.mkdtemp(prefix="twin-demo-V15-")
    try:
        pristine = os.path.join(tmpdir, "pristine")
        os.mkdir(pristine)
        archive = subprocess.Popen(
            ["git", "-C", checkout, "archive", "HEAD"], stdout=subprocess.PIPE)
        subprocess.check_call(["tar", "-x", "-C", pristine], stdin=archive.stdout)
        archive.stdout.close()
        if archive.wait() != 0:
            print("git archive failed")
            return 1

        specs = build_specs(tmpdir)
        spec_path = os.path.join(tmpdir, "specs.pickle")
        with open(spec_path, "wb") as f:
            pickle.dump(specs, f)

        env = dict(os.environ)
        env.pop("PYTHONPATH", None)
        env["PYTHONDONTWRITEBYTECODE"] = "1"
        env["PYTHONHASHSEED"] = "0"
        procs = {}
        for tag, tree in (("pristine", pristine), ("changed", checkout)):
            out = os.path.join(tmpdir, tag + ".pickle")
            procs[tag] = (subprocess.Popen(
                [sys.executable, os.path.realpath(__file__), "--worker", tree,
                 spec_path, out], env=env, cwd=tmpdir), out)
        results = {}
        for tag, (proc, out) in procs.items():
            if proc.wait() != 0:
                print("worker for the %s tree failed (exit %d)" % (tag, proc.returncode))
                return 1
            with open(out, "rb") as f:
                results[tag] = pickle.load(f)

        a, b = results["pristine"], results["changed"]
        diffs = []
        n_files = 0
        if set(a) != set(b):
            diffs.append("API sets differ: %r vs %r" % (sorted(a), sorted(b)))
        for api_id in sorted(set(a) & set(b)):
            fa, fb = a[api_id], b[api_id]
            for name in sorted(set(fa) | set(fb)):
                n_files += 1
                if name not in fa:
                    diffs.append("%s: %s only in changed tree" % (api_id, name))
                elif name not in fb:
                    diffs.append("%s: %s only in pristine tree" % (api_id, name))
                elif fa[name] != fb[name]:
                    diffs.append("%s: %s differs" % (api_id, name))
            # The artefacts of interest must actually be there.
            if not any(n.endswith("_keywords.py") for n in fa):
                diffs.append("%s: no fix-up script generated" % api_id)
            has_md = any(n.endswith("gapic_metadata.json") for n in fa)
            wants_md = "metadata" in [
                o.strip() for s in specs if s["id"] == api_id
                for o in s["opts"].split(",")]
            if has_md != wants_md:
                diffs.append("%s: gapic_metadata.json presence unexpected" % api_id)
        if diffs:
            print("DIFFERENT: %d problem(s)" % len(diffs))
            for line in diffs:
                print("  " + line)
            return 1
        print("IDENTICAL: %d APIs/configurations, %d output files compared byte "
              "for byte between pristine HEAD and the changed tree"
              % (len(a), n_files))
        return 0
    finally:
        shutil.rmtree(tmpdir, ignore_errors=True)


if __name__ == "__main__":
    sys.exit(main(sys.argv))
