"""Twin demo for U08 (property C08: LRO methods return typed operation futures).

Usage:  /venv/bin/python demo.py <path-to-a-checkout-with-the-change>

The working tree of <checkout> (with the uncommitted refactoring) is compared
against a pristine export of <checkout>'s HEAD (git archive).  A set of API
descriptions exercising the LRO code paths is generated with BOTH trees, each in
its own subprocess, and every output file (names and contents) - or, for the
inputs that the generator must reject, the raised error - is compared.

Exit 0 + one summary line when everything is identical, exit 1 otherwise.
"""
import json
import os
import pickle
import shutil
import subprocess
import sys
import tempfile

PKG = "google.example.v1"


# --------------------------------------------------------------------------
# Runner: executed in a subprocess, once per tree.
# --------------------------------------------------------------------------
def _under(path, tree):
    return os.path.realpath(path).startswith(tree + os.sep)


def run_tree(tree, cases_path, out_path):
    tree = os.path.realpath(tree)

    # The venv carries an editable install of another checkout.  Put the tree
    # under test first and drop every other provider of `gapic`: the editable
    # finder / path hook, the cwd entry, and any path entry with a gapic dir.
    sys.meta_path[:] = [
        f
        for f in sys.meta_path
        if "editable" not in (getattr(f, "__name__", "") + type(f).__name__).lower()
    ]
    sys.path_hooks[:] = [
        h for h in sys.path_hooks if "editable" not in repr(h).lower()
    ]
    sys.path[:] = [tree] + [
        p
        for p in sys.path
        if p
        and "__editable__" not in p
        and os.path.realpath(p) != tree
        and not os.path.exists(os.path.join(p, "gapic"))
    ]
    sys.path_importer_cache.clear()
    for name in list(sys.modules):
        assert name != "gapic" and not name.startswith("gapic."), name

    import pypandoc

    # pandoc is not installed here; stub the conversion identically in both
    # runs (the docstring markup itself is irrelevant to the comparison).
    pypandoc.convert_text = lambda text, *a, **kw: text

    from google.protobuf import descriptor_pb2
    from gapic.schema import api
    from gapic.generator import Generator
    from gapic.utils import Options

    import gapic.generator.generator, gapic.schema.wrappers, gapic.schema.metadata

    def check_modules():
        seen = 0
        for name, mod in list(sys.modules.items()):
            if name == "gapic" or name.startswith("gapic."):
                origin = getattr(mod, "__file__", None)
                if origin is None:  # namespace package (no __init__.py)
                    locations = list(mod.__path__)
                    assert locations, name
                else:
                    locations = [origin]
                assert all(_under(loc, tree) for loc in locations), (name, locations)
                seen += 1
        assert seen > 10, seen

    check_modules()

    with open(cases_path, "rb") as fh:
        cases = pickle.load(fh)

    results = {}
    for case in cases:
        fds = []
        for blob in case["files"]:
            fd = descriptor_pb2.FileDescriptorProto()
            fd.ParseFromString(blob)
            fds.append(fd)
        try:
            opts = Options.build(case["opts"])
            assert opts.templates and all(
                _under(t, tree) for t in opts.templates
            ), opts.templates
            schema = api.API.build(fds, package=case["package"], opts=opts)
            res = Generator(opts).get_response(schema, opts)
            files = {}
            for fl in res.file:
                assert fl.name not in files, fl.name
                files[fl.name] = fl.content
            results[case["name"]] = {"files": files}
        except Exception as exc:  # the outcome itself is compared
            results[case["name"]] = {"error": f"{type(exc).__name__}: {exc}"}

    check_modules()
    with open(out_path, "wb") as fh:
        pickle.dump(results, fh)


# --------------------------------------------------------------------------
# Driver: builds the inputs.
# --------------------------------------------------------------------------
def build_cases(tmpdir):
    from google.protobuf import descriptor_pb2 as d
    from google.protobuf import empty_pb2
    from google.api import annotations_pb2, client_pb2
    from google.longrunning import operations_pb2

    T_STRING, T_INT32, T_MESSAGE, T_ENUM, T_BOOL = 9, 5, 11, 14, 8
    OPTIONAL, REPEATED = 1, 3

    def dep_closure(file_desc, seen, out):
        if file_desc.name in seen:
            return
        seen.add(file_desc.name)
        for dep in file_desc.dependencies:
            dep_closure(dep, seen, out)
        fdp = d.FileDescriptorProto()
        file_desc.CopyToProto(fdp)
        out.append(fdp)

    def common_deps():
        deps, seen = [], set()
        for desc in (
            operations_pb2.DESCRIPTOR,
            client_pb2.DESCRIPTOR,
            annotations_pb2.DESCRIPTOR,
            empty_pb2.DESCRIPTOR,
        ):
            dep_closure(desc, seen, deps)
        return deps

    STD_DEPS = [
        "google/api/annotations.proto",
        "google/api/client.proto",
        "google/longrunning/operations.proto",
        "google/protobuf/empty.proto",
    ]

    def new_file(name, package, dependency=()):
        return d.FileDescriptorProto(
            name=name, package=package, syntax="proto3", dependency=list(dependency)
        )

    def comment(fdp, path, text):
        loc = fdp.source_code_info.location.add()
        loc.path.extend(path)
        loc.leading_comments = text

    def add_method(
        svc,
        name,
        input_type,
        output_type,
        http=None,
        body=None,
        signature=None,
        lro=None,
        client_streaming=False,
        server_streaming=False,
    ):
        meth = svc.method.add(
            name=name,
            input_type=input_type,
            output_type=output_type,
            client_streaming=client_streaming,
            server_streaming=server_streaming,
        )
        if http:
            verb, uri = http
            setattr(meth.options.Extensions[annotations_pb2.http], verb, uri)
            if body:
                meth.options.Extensions[annotations_pb2.http].body = body
        if signature:
            meth.options.Extensions[client_pb2.method_signature].append(signature)
        if lro is not None:
            info = meth.options.Extensions[operations_pb2.operation_info]
            info.SetInParent()
            if lro[0]:
                info.response_type = lro[0]
            if lro[1]:
                info.metadata_type = lro[1]
        return meth

    def add_service(fdp, name, host="example.googleapis.com"):
        svc = fdp.service.add(name=name)
        svc.options.Extensions[client_pb2.default_host] = host
        svc.options.Extensions[client_pb2.oauth_scopes] = (
            "https://www.googleapis.com/auth/cloud-platform"
        )
        return svc

    OPERATION = ".google.longrunning.Operation"
    EMPTY = ".google.protobuf.Empty"

    # ---------------------------------------------------------------- core
    def core_files(response="Instance", metadata=f"{PKG}.Progress", extra_lro=True):
        # instance.proto: the LRO response type; documented with a comment
        # containing braces (matters for str.format vs f-string).
        inst = new_file("google/example/v1/instance.proto", PKG)
        m = inst.message_type.add(name="Instance")
        m.field.add(name="name", number=1, type=T_STRING, label=OPTIONAL)
        m.field.add(name="size", number=2, type=T_INT32, label=OPTIONAL)
        f = m.field.add(
            name="labels",
            number=3,
            type=T_MESSAGE,
            label=REPEATED,
            type_name=f".{PKG}.Instance.LabelsEntry",
        )
        entry = m.nested_type.add(name="LabelsEntry")
        entry.options.map_entry = True
        entry.field.add(name="key", number=1, type=T_STRING, label=OPTIONAL)
        entry.field.add(name="value", number=2, type=T_STRING, label=OPTIONAL)
        comment(
            inst,
            [4, 0],
            " An {instance} of the service; see {0}, {{escaped}} and {ident}.\n"
            " Second line with a lone } and a lone { brace.\n",
        )

        # operation.proto: metadata type.  NOT imported by the service file,
        # and its python module is called `operation`, like api_core's.
        prog = new_file("google/example/v1/operation.proto", PKG)
        m = prog.message_type.add(name="Progress")
        m.field.add(name="percent", number=1, type=T_INT32, label=OPTIONAL)
        comment(prog, [4, 0], " Progress of an operation.\n")

        lib = new_file(
            "google/example/v1/lib.proto",
            PKG,
            STD_DEPS + ["google/example/v1/instance.proto"],
        )
        req = lib.message_type.add(name="CreateInstanceRequest")
        req.field.add(name="parent", number=1, type=T_STRING, label=OPTIONAL)
        req.field.add(
            name="instance",
            number=2,
            type=T_MESSAGE,
            label=OPTIONAL,
            type_name=f".{PKG}.Instance",
        )
        req = lib.message_type.add(name="ResizeInstanceRequest")
        req.field.add(name="name", number=1, type=T_STRING, label=OPTIONAL)
        req.field.add(name="size", number=2, type=T_INT32, label=OPTIONAL)
        req = lib.message_type.add(name="DeleteInstanceRequest")
        req.field.add(name="name", number=1, type=T_STRING, label=OPTIONAL)
        req = lib.message_type.add(name="ListInstancesRequest")
        req.field.add(name="parent", number=1, type=T_STRING, label=OPTIONAL)
        req.field.add(name="page_size", number=2, type=T_INT32, label=OPTIONAL)
        req.field.add(name="page_token", number=3, type=T_STRING, label=OPTIONAL)
        resp = lib.message_type.add(name="ListInstancesResponse")
        resp.field.add(
            name="instances",
            number=1,
            type=T_MESSAGE,
            label=REPEATED,
            type_name=f".{PKG}.Instance",
        )
        resp.field.add(name="next_page_token", number=2, type=T_STRING, label=OPTIONAL)

        svc = add_service(lib, "Lib")
        add_method(
            svc,
            "CreateInstance",
            f".{PKG}.CreateInstanceRequest",
            OPERATION,
            http=("post", "/v1/{parent=projects/*}/instances"),
            body="instance",
            signature="parent,instance",
            lro=(response, metadata),
        )
        comment(lib, [6, 0, 2, 0], " Creates an instance.\n")
        if extra_lro:
            add_method(
                svc,
                "ResizeInstance",
                f".{PKG}.ResizeInstanceRequest",
                OPERATION,
                http=("post", "/v1/{name=projects/*/instances/*}:resize"),
                body="*",
                signature="name,size",
                lro=(f"{PKG}.Instance", "Progress"),
            )
            add_method(
                svc,
                "DeleteInstance",
                f".{PKG}.DeleteInstanceRequest",
                OPERATION,
                http=("delete", "/v1/{name=projects/*/instances/*}"),
                signature="name",
                lro=("google.protobuf.Empty", "Progress"),
            )
        # Returns an Operation but carries no operation_info: raw Operation.
        add_method(
            svc,
            "StartRaw",
            f".{PKG}.DeleteInstanceRequest",
            OPERATION,
            http=("post", "/v1/{name=projects/*/instances/*}:startRaw"),
            body="*",
        )
        add_method(
            svc,
            "ListInstances",
            f".{PKG}.ListInstancesRequest",
            f".{PKG}.ListInstancesResponse",
            http=("get", "/v1/{parent=projects/*}/instances"),
            signature="parent",
        )
        add_method(
            svc,
            "Ping",
            f".{PKG}.DeleteInstanceRequest",
            EMPTY,
            http=("post", "/v1/{name=projects/*/instances/*}:ping"),
            body="*",
        )
        return common_deps() + [inst, lib, prog]

    # --------------------------------------------------------- multi-service
    def multi_files():
        # A package outside the generated one; imported by nobody.
        common = new_file("google/example/common/meta.proto", "google.example.common")
        m = common.message_type.add(name="CommonMeta")
        m.field.add(name="step", number=1, type=T_STRING, label=OPTIONAL)

        # Reserved-word file name -> python module `import_`.
        imp = new_file("google/example/v1/import.proto", PKG)
        m = imp.message_type.add(name="ImportResult")
        m.field.add(name="class", number=1, type=T_STRING, label=OPTIONAL)
        m.field.add(name="from", number=2, type=T_INT32, label=OPTIONAL)
        m.oneof_decl.add(name="kind")
        m.field.add(name="uri", number=3, type=T_STRING, label=OPTIONAL, oneof_index=0)
        m.field.add(name="blob", number=4, type=T_BOOL, label=OPTIONAL, oneof_index=0)
        comment(imp, [4, 0], " Result of an import.\n")

        admin = new_file("google/example/v1/admin.proto", PKG, STD_DEPS)
        req = admin.message_type.add(name="ImportRequest")
        req.field.add(name="name", number=1, type=T_STRING, label=OPTIONAL)
        req.field.add(name="class", number=2, type=T_STRING, label=OPTIONAL)
        chunk = admin.message_type.add(name="Chunk")
        chunk.field.add(name="data", number=1, type=T_STRING, label=OPTIONAL)
        svc = add_service(admin, "Admin")
        add_method(
            svc,
            "Import",
            f".{PKG}.ImportRequest",
            OPERATION,
            http=("post", "/v1/{name=projects/*}:import"),
            body="*",
            signature="name,class",
            lro=("ImportResult", "google.example.common.CommonMeta"),
        )
        add_method(
            svc,
            "Watch",
            f".{PKG}.ImportRequest",
            f".{PKG}.Chunk",
            http=("get", "/v1/{name=projects/*}:watch"),
            server_streaming=True,
        )
        add_method(svc, "Upload", f".{PKG}.Chunk", f".{PKG}.Chunk", client_streaming=True)
        add_method(
            svc,
            "Chat",
            f".{PKG}.Chunk",
            f".{PKG}.Chunk",
            client_streaming=True,
            server_streaming=True,
        )

        plain = new_file("google/example/v1/plain.proto", PKG, STD_DEPS)
        req = plain.message_type.add(name="EchoRequest")
        req.field.add(name="text", number=1, type=T_STRING, label=OPTIONAL)
        svc = add_service(plain, "Plain")
        add_method(
            svc,
            "Echo",
            f".{PKG}.EchoRequest",
            f".{PKG}.EchoRequest",
            http=("post", "/v1/echo"),
            body="*",
            signature="text",
        )
        add_method(
            svc, "Drop", f".{PKG}.EchoRequest", EMPTY, http=("post", "/v1/drop"), body="*"
        )
        # Service file first, type files afterwards.
        return common_deps() + [admin, plain, imp, common]

    # ------------------------------------------------------------ subpackage
    def subpackage_files():
        types = new_file("google/example/v1/types.proto", PKG)
        e = types.enum_type.add(name="Tier")
        e.value.add(name="TIER_UNSPECIFIED", number=0)
        e.value.add(name="TIER_GOLD", number=1)
        m = types.message_type.add(name="Cluster")
        m.field.add(name="name", number=1, type=T_STRING, label=OPTIONAL)
        m.field.add(
            name="tier", number=2, type=T_ENUM, label=OPTIONAL, type_name=f".{PKG}.Tier"
        )
        m.field.add(name="zones", number=3, type=T_STRING, label=REPEATED)

        sub = f"{PKG}.admin"
        adm = new_file("google/example/v1/admin/service.proto", sub, STD_DEPS)
        m = adm.message_type.add(name="AdminMeta")
        m.field.add(name="note", number=1, type=T_STRING, label=OPTIONAL)
        e = adm.enum_type.add(name="Mode")
        e.value.add(name="MODE_UNSPECIFIED", number=0)
        e.value.add(name="MODE_FAST", number=1)
        req = adm.message_type.add(name="UpgradeRequest")
        req.field.add(name="name", number=1, type=T_STRING, label=OPTIONAL)
        req.field.add(
            name="mode", number=2, type=T_ENUM, label=OPTIONAL, type_name=f".{sub}.Mode"
        )
        svc = add_service(adm, "ClusterAdmin")
        add_method(
            svc,
            "Upgrade",
            f".{sub}.UpgradeRequest",
            OPERATION,
            http=("post", "/v1/{name=clusters/*}:upgrade"),
            body="*",
            signature="name,mode",
            # response: fully-qualified in the parent package (file not
            # imported); metadata: relative to the *method's* package.
            lro=(f"{PKG}.Cluster", "AdminMeta"),
        )
        add_method(
            svc,
            "Purge",
            f".{sub}.UpgradeRequest",
            OPERATION,
            http=("post", "/v1/{name=clusters/*}:purge"),
            body="*",
            lro=("google.protobuf.Empty", f"{sub}.AdminMeta"),
        )

        top = new_file("google/example/v1/top.proto", PKG, STD_DEPS)
        req = top.message_type.add(name="GetClusterRequest")
        req.field.add(name="name", number=1, type=T_STRING, label=OPTIONAL)
        svc = add_service(top, "Clusters")
        add_method(
            svc,
            "GetCluster",
            f".{PKG}.GetClusterRequest",
            EMPTY,
            http=("get", "/v1/{name=clusters/*}"),
            signature="name",
        )
        return common_deps() + [adm, top, types]

    # ------------------------------------------------------------ service yaml
    def write_yaml(name, config):
        path = os.path.join(tmpdir, name)
        with open(path, "w") as fh:
            json.dump(config, fh)  # JSON is YAML
        return path

    ops_yaml = write_yaml(
        "ops.yaml",
        {
            "type": "google.api.Service",
            "config_version": 3,
            "name": "example.googleapis.com",
            "apis": [
                {"name": "google.example.v1.Lib"},
                {"name": "google.longrunning.Operations"},
                {"name": "google.cloud.location.Locations"},
            ],
            "http": {
                "rules": [
                    {
                        "selector": "google.cloud.location.Locations.ListLocations",
                        "get": "/v1/{name=projects/*}/locations",
                    },
                    {
                        "selector": "google.longrunning.Operations.GetOperation",
                        "get": "/v1/{name=projects/*/operations/*}",
                        "additional_bindings": [
                            {"get": "/v1/{name=projects/*/locations/*/operations/*}"}
                        ],
                    },
                    {
                        "selector": "google.longrunning.Operations.CancelOperation",
                        "post": "/v1/{name=projects/*/operations/*}:cancel",
                        "body": "*",
                    },
                    {
                        "selector": "google.cloud.location.Locations.GetLocation",
                        "get": "/v1/{name=projects/*/locations/*}",
                    },
                    {
                        "selector": "google.longrunning.Operations.ListOperations",
                        "get": "/v1/{name=projects/*}/operations",
                    },
                    {
                        "selector": "google.longrunning.OperationsX.Weird",
                        "delete": "/v1/{name=weird/*}",
                    },
                    {
                        "selector": "google.longrunning.Operations.DeleteOperation",
                        "delete": "/v1/{name=projects/*/operations/*}",
                    },
                ]
            },
        },
    )
    nonops_yaml = write_yaml(
        "nonops.yaml",
        {
            "type": "google.api.Service",
            "config_version": 3,
            "name": "example.googleapis.com",
            "http": {
                "rules": [
                    {
                        "selector": "google.cloud.location.Locations.GetLocation",
                        "get": "/v1/{name=projects/*/locations/*}",
                    },
                    {
                        "selector": "xgoogle.longrunning.Operations.GetOperation",
                        "get": "/v1/{name=never/*}",
                    },
                ]
            },
        },
    )

    def selective_yaml(name, methods, internal):
        return write_yaml(
            name,
            {
                "type": "google.api.Service",
                "config_version": 3,
                "name": "example.googleapis.com",
                "apis": [{"name": "google.longrunning.Operations"}],
                "publishing": {
                    "library_settings": [
                        {
                            "version": PKG,
                            "python_settings": {
                                "common": {
                                    "selective_gapic_generation": {
                                        "methods": methods,
                                        "generate_omitted_as_internal": internal,
                                    }
                                }
                            },
                        }
                    ]
                },
            },
        )

    selective_prune_yaml = selective_yaml(
        "selective-prune.yaml",
        [f"{PKG}.Lib.CreateInstance", f"{PKG}.Lib.Ping"],
        False,
    )
    selective_internal_yaml = selective_yaml(
        "selective-internal.yaml",
        [f"{PKG}.Lib.DeleteInstance", f"{PKG}.Lib.StartRaw"],
        True,
    )

    def case(name, files, opts, expect, package=PKG):
        return {
            "name": name,
            "files": [f.SerializeToString() for f in files],
            "opts": opts,
            "package": package,
            "expect": expect,
        }

    # A service whose only Operation-returning method has no operation_info.
    def raw_only_files():
        files = core_files(extra_lro=False)
        lib = next(f for f in files if f.name.endswith("lib.proto"))
        lib.service[0].method[0].options.ClearExtension(operations_pb2.operation_info)
        return files

    return [
        case(
            "core-default-opsyaml",
            core_files(),
            f"service-yaml={ops_yaml}",
            "ok-lro",
        ),
        case(
            "core-grpc+rest-opsyaml",
            core_files(),
            f"transport=grpc+rest,service-yaml={ops_yaml}",
            "ok-lro",
        ),
        case(
            "core-rest-numeric-opsyaml-nosnippets",
            core_files(),
            f"transport=rest,rest-numeric-enums,autogen-snippets=false,service-yaml={ops_yaml}",
            "ok-lro",
        ),
        case(
            "core-rest-nosnippets",
            core_files(),
            "transport=rest,autogen-snippets=false",
            "ok-lro",
        ),
        case(
            "core-grpc-nonops-yaml",
            core_files(),
            f"transport=grpc,service-yaml={nonops_yaml},metadata",
            "ok-lro",
        ),
        case(
            "multi-service-grpc+rest",
            multi_files(),
            f"transport=grpc+rest,autogen-snippets=false,service-yaml={ops_yaml}",
            "ok-lro",
        ),
        case(
            "multi-service-grpc-oldnaming",
            multi_files(),
            "transport=grpc,old-naming",
            "ok-lro",
        ),
        case(
            "subpackage-rest-numeric-enums",
            subpackage_files(),
            # (snippet generation does not support services in sub-packages at
            # HEAD - unrelated to this change - so it is switched off here.)
            f"transport=rest,rest-numeric-enums,autogen-snippets=false,service-yaml={nonops_yaml}",
            "ok-lro",
        ),
        case(
            "subpackage-grpc+rest-opsyaml",
            subpackage_files(),
            f"transport=grpc+rest,service-yaml={ops_yaml},autogen-snippets=false",
            "ok-lro",
        ),
        case("raw-operation-only", raw_only_files(), "", "ok-nolro"),
        case(
            "raw-operation-only-grpc+rest-opsyaml",
            raw_only_files(),
            f"transport=grpc+rest,service-yaml={ops_yaml}",
            "ok-nolro",
        ),
        # Selective GAPIC generation: the allow-list walk goes through
        # OperationInfo.add_to_address_allowlist (response + metadata types).
        case(
            "core-selective-prune",
            core_files(),
            f"transport=grpc+rest,service-yaml={selective_prune_yaml}",
            "ok-lro",
        ),
        case(
            "core-selective-internal",
            core_files(),
            f"transport=grpc+rest,autogen-snippets=false,service-yaml={selective_internal_yaml}",
            "ok-lro",
        ),
        # Generation-time rejections.
        case(
            "error-missing-metadata",
            core_files(response="Instance", metadata="", extra_lro=False),
            "",
            "TypeError",
        ),
        case(
            "error-missing-response",
            core_files(response="", metadata="Progress", extra_lro=False),
            "",
            "TypeError",
        ),
        case(
            "error-empty-annotation",
            core_files(response="", metadata="", extra_lro=False),
            "",
            "TypeError",
        ),
        case(
            "error-unknown-response",
            core_files(response="Nowhere", metadata="AlsoNowhere", extra_lro=False),
            "",
            "KeyError",
        ),
        case(
            "error-unknown-metadata",
            core_files(response="Instance", metadata="other.pkg.Meta", extra_lro=False),
            "",
            "KeyError",
        ),
    ]


def main(argv):
    if len(argv) == 5 and argv[1] == "--run":
        run_tree(argv[2], argv[3], argv[4])
        return 0
    if len(argv) != 2:
        print(__doc__)
        return 2

    checkout = os.path.realpath(argv[1])
    tmpdir = tempfile.mkdtemp(prefix="twin-U08-")
    try:
        base = os.path.join(tmpdir, "base")
        os.makedirs(base)
        archive = subprocess.Popen(
            ["git", "-C", checkout, "archive", "HEAD"], stdout=subprocess.PIPE
        )
        subprocess.check_call(["tar", "-x", "-C", base], stdin=archive.stdout)
        archive.stdout.close()
        if archive.wait() != 0:
            raise RuntimeError("git archive failed")

        cases = build_cases(tmpdir)
        cases_path = os.path.join(tmpdir, "cases.pkl")
        with open(cases_path, "wb") as fh:
            pickle.dump(cases, fh)

        outputs = {}
        env = dict(os.environ, PYTHONHASHSEED="0", PYTHONDONTWRITEBYTECODE="1")
        env.pop("PYTHONPATH", None)
        for label, tree in (("base", base), ("changed", checkout)):
            out_path = os.path.join(tmpdir, f"out-{label}.pkl")
            subprocess.check_call(
                [sys.executable, os.path.abspath(__file__), "--run", tree, cases_path, out_path],
                cwd=tmpdir,
                env=env,
            )
            with open(out_path, "rb") as fh:
                outputs[label] = pickle.load(fh)

        problems = []
        nfiles = 0
        nerrors = 0
        for case in cases:
            name, expect = case["name"], case["expect"]
            a, b = outputs["base"][name], outputs["changed"][name]

            # Sanity: the inputs do what they were designed to do (on the
            # pristine tree), so the comparison is not vacuous.
            if expect.startswith("ok"):
                if "files" not in a:
                    problems.append(f"{name}: base tree failed: {a['error']}")
                    continue
                blob = "\n".join(a["files"].values())
                if (expect == "ok-lro") != (".from_gapic(" in blob):
                    problems.append(f"{name}: unexpected LRO wrapping presence (base)")
            else:
                if "error" not in a or not a["error"].startswith(expect):
                    problems.append(f"{name}: base tree did not raise {expect}: {a.get('error')}")
                    continue

            if ("error" in a) != ("error" in b):
                problems.append(
                    f"{name}: outcome differs: base={a.get('error', 'ok')!r} "
                    f"changed={b.get('error', 'ok')!r}"
                )
                continue
            if "error" in a:
                nerrors += 1
                if a["error"] != b["error"]:
                    problems.append(
                        f"{name}: error differs: base={a['error']!r} changed={b['error']!r}"
                    )
                continue
            fa, fb = a["files"], b["files"]
            for fname in sorted(set(fa) | set(fb)):
                if fname not in fa:
                    problems.append(f"{name}: {fname} only in changed tree")
                elif fname not in fb:
                    problems.append(f"{name}: {fname} only in base tree")
                elif fa[fname] != fb[fname]:
                    problems.append(f"{name}: {fname} differs")
            if list(fa) != list(fb) and sorted(fa) == sorted(fb):
                problems.append(f"{name}: file order differs")
            nfiles += len(fa)

        # Non-vacuity of the REST operations-client loop: some output must carry
        # Operations http rules, and none may carry a non-Operations selector.
        rest_blobs = [
            content
            for res in outputs["base"].values()
            for fname, content in res.get("files", {}).items()
            if fname.endswith("transports/rest.py")
        ]
        if not any("'google.longrunning.Operations.GetOperation': [" in b for b in rest_blobs):
            problems.append("no REST transport with Operations http rules was generated")
        if not any("gac_operation.from_gapic(" in c
                   for res in outputs["base"].values()
                   for c in res.get("files", {}).values()):
            problems.append("no aliased operation module was generated")

        def base_files(case_name, suffix):
            return [
                content
                for fname, content in outputs["base"][case_name].get("files", {}).items()
                if fname.endswith(suffix)
            ]

        ops_import = "from google.longrunning import operations_pb2 # type: ignore"
        for suffix in ("transports/grpc.py", "transports/grpc_asyncio.py"):
            # mixin + Operation-returning methods / no mixin + Operation /
            # mixin only (service `Plain`) / neither (service `Plain`).
            expectations = [
                ("core-default-opsyaml", "lib/" + suffix, True),
                ("core-grpc-nonops-yaml", "lib/" + suffix, True) if suffix.endswith("grpc.py")
                else ("multi-service-grpc-oldnaming", "admin/" + suffix, True),
                ("multi-service-grpc+rest", "plain/" + suffix, True),
                ("multi-service-grpc-oldnaming", "plain/" + suffix, False),
            ]
            for case_name, file_suffix, present in expectations:
                blobs = base_files(case_name, file_suffix)
                if len(blobs) != 1:
                    problems.append(f"{case_name}: expected one {file_suffix}, got {len(blobs)}")
                elif (ops_import in blobs[0]) != present:
                    problems.append(f"{case_name}: {file_suffix}: operations_pb2 import presence (base)")
        lro_transports = base_files("core-default-opsyaml", "lib/transports/grpc.py")
        if not any("operations_v1.OperationsClient(" in b and "self._logged_channel" in b for b in lro_transports):
            problems.append("no gRPC transport with an operations client was generated")
        if any("operations_v1" in b for b in base_files("raw-operation-only", "transports/grpc.py")):
            problems.append("a transport without LRO methods carries an operations client")
        rest_core = "\n".join(base_files("core-rest-nosnippets", "lib/transports/rest.py"))
        for needle in (
            "resp = operations_pb2.Operation()\n            json_format.Parse(response.content, resp,",
            "pb_resp = resp\n",
            "pb_resp = lib.ListInstancesResponse.pb(resp)\n",
        ):
            if needle not in rest_core:
                problems.append(f"core REST transport lacks {needle!r} (base)")
        if not any("rest_streaming.ResponseIterator(response, admin.Chunk)" in b
                   for b in base_files("multi-service-grpc+rest", "admin/transports/rest.py")):
            problems.append("no server-streaming REST method was generated")
        pruned = outputs["base"]["core-selective-prune"].get("files", {})
        pruned_blob = "\n".join(pruned.values())
        if "class Progress(" not in pruned_blob or "class Instance(" not in pruned_blob:
            problems.append("selective generation dropped the LRO response/metadata types (base)")
        if "ListInstancesRequest" in pruned_blob or "def resize_instance" in pruned_blob:
            problems.append("selective generation did not prune anything (base)")
        internal_blob = "\n".join(outputs["base"]["core-selective-internal"].get("files", {}).values())
        if "def _create_instance(" not in internal_blob or "def delete_instance(" not in internal_blob:
            problems.append("selective generation (internal) did not privatise methods (base)")

        if problems:
            print(f"U08 twin: {len(problems)} difference(s):")
            for p in problems:
                print(" -", p)
            return 1
        print(
            f"U08 twin: identical - {len(cases)} API descriptions "
            f"({nfiles} generated files, {nerrors} identical rejections) "
            "match byte for byte between HEAD and the refactored tree"
        )
        return 0
    finally:
        shutil.rmtree(tmpdir, ignore_errors=True)


if __name__ == "__main__":
    sys.exit(main(sys.argv))
