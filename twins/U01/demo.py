#!/usr/bin/env python
"""Twin demo for U01 (property C01): the refactoring leaves the output unchanged.

Usage:  /venv/bin/python demo.py <path-to-a-checkout-with-the-change>

What it does
  1. `git -C <checkout> archive HEAD | tar -x` into a temp dir: the pristine tree.
     The checkout's working tree is the changed tree.
  2. Builds several API descriptions (FileDescriptorProtos made in Python) and
     option strings and pickles them.
  3. Runs the generator on every case with BOTH trees, each tree in its own
     subprocess.  In a worker the tree under test is FIRST on sys.path, every
     other provider of `gapic` (the venv's editable install: meta-path finder,
     path hook, path entry) is removed, and at the end every loaded `gapic.*`
     module and every template directory is asserted to live in that tree.
  4. Compares file names, file order and contents byte for byte, plus a set
     of direct probes of the refactored Python functions.

Exit 0 and one summary line when identical; exit 1 listing the differences.
"""
import os
import pickle
import shutil
import subprocess
import sys
import tempfile


# --------------------------------------------------------------------------
# Worker: runs in a subprocess, with exactly one tree providing `gapic`.
# --------------------------------------------------------------------------
def _isolate(tree: str) -> None:
    """Make `tree` the only place `gapic` can be imported from."""
    tree = os.path.realpath(tree)
    assert "gapic" not in sys.modules, "gapic imported too early"
    assert not any(m.startswith("gapic.") for m in sys.modules)

    def provides_gapic(entry: str) -> bool:
        if "__editable__" in entry:
            return True
        if entry == "":
            entry = os.getcwd()
        return os.path.isdir(os.path.join(entry, "gapic")) and \
            os.path.realpath(entry) != tree

    sys.path[:] = [tree] + [p for p in sys.path
                            if os.path.realpath(p or os.getcwd()) != tree
                            and not provides_gapic(p)]
    # The editable install of /repo: a meta-path finder and a path hook.
    sys.meta_path[:] = [f for f in sys.meta_path
                        if "editable" not in (getattr(f, "__module__", "") or "").lower()
                        and "editable" not in type(f).__name__.lower()
                        and "editable" not in getattr(f, "__name__", "").lower()]
    sys.path_hooks[:] = [h for h in sys.path_hooks
                         if "editable" not in (getattr(h, "__module__", "") or "").lower()
                         and "editable" not in getattr(h, "__qualname__", "").lower()]
    sys.path_importer_cache.clear()
    assert sys.path[0] == tree


def _assert_all_from(tree: str, template_dirs) -> int:
    tree = os.path.realpath(tree) + os.sep
    checked = 0
    for name, mod in sorted(sys.modules.items()):
        if name != "gapic" and not name.startswith("gapic."):
            continue
        if mod is None:
            continue
        fname = getattr(mod, "__file__", None)
        if fname:
            assert os.path.realpath(fname).startswith(tree), (name, fname)
        else:   # namespace package (gapic itself has no __init__.py)
            paths = list(mod.__path__)
            assert paths, name
            for p in paths:
                assert os.path.realpath(p).startswith(tree), (name, p)
        checked += 1
    assert checked > 20, checked
    for t in template_dirs:
        assert os.path.realpath(t).startswith(tree), t
    return checked


def worker(tree: str, cases_path: str, out_path: str) -> int:
    os.chdir(tree)
    _isolate(tree)

    # pandoc is not installed: stub the conversion identically for both runs.
    import pypandoc  # type: ignore

    def _convert_text(text, to, format=None, extra_args=(), **kw):
        return "\n".join(line.rstrip() for line in str(text).splitlines())

    pypandoc.convert_text = _convert_text

    from google.api import service_pb2
    from google.protobuf import descriptor_pb2
    from gapic.schema import api, imp, naming
    from gapic.generator import generator
    from gapic.utils import Options

    with open(cases_path, "rb") as fh:
        cases = pickle.load(fh)

    template_dirs = set()
    results = {}
    for case in cases:
        label = case["label"]
        try:
            protos = [descriptor_pb2.FileDescriptorProto.FromString(b)
                      for b in case["files"]]
            opts = Options.build(case["options"])
            template_dirs.update(opts.templates)
            package = os.path.commonprefix(
                [p.package for p in protos if p.name in case["to_generate"]]
            ).rstrip(".")
            api_schema = api.API.build(protos, opts=opts, package=package)
            gen = generator.Generator(opts)
            template_dirs.update(gen._env.loader.searchpath)
            res = gen.get_response(api_schema, opts)
            files = {}
            for f in res.file:
                assert f.name not in files, f"duplicate output {f.name}"
                files[f.name] = f.content
            results[label] = {"files": files, "order": [f.name for f in res.file],
                              "features": res.supported_features}
        except Exception as exc:  # recorded and compared as well
            results[label] = {"error": f"{type(exc).__name__}: {exc}"}

    # ---- direct probes of the refactored Python ---------------------------
    def attempt(fn):
        try:
            return fn()
        except Exception as exc:
            return f"!{type(exc).__name__}: {exc}"

    # Import.__str__ over a matrix of shapes (incl. degenerate ones).
    rows = []
    for package in [(), ("google",), ("google", "api_core"), ("google", "api_core", "x"),
                    ("a", "b_v1", "types"), ("",), ("api_core",), ("x", "my_api_core")]:
        for module in ["thing", "thing_pb2", "", "pb2", "_pb2", "class"]:
            for alias in ["", "gt_thing", " "]:
                i = imp.Import(package=package, module=module, alias=alias)
                rows.append((package, module, alias, attempt(lambda: str(i))))
    # non-str members: same exception type expected
    for kw in [dict(package=("a",), module=None), dict(package=None, module="m"),
               dict(package=("a", 1), module="m"), dict(package="api_core", module="m"),
               dict(package=["a"], module="m_pb2", alias=None)]:
        rows.append((repr(kw), attempt(lambda: str(imp.Import(**kw)))))
    results["__import_probes__"] = {"files": {"probes": repr(rows)},
                                    "order": ["probes"], "features": 0}

    # Generator._get_filename over template names x naming shapes x contexts.
    gen = generator.Generator(Options.build(""))
    template_dirs.update(gen._env.loader.searchpath)

    class _Named:
        def __init__(self, module_name):
            self.module_name = module_name

    namings = [
        dict(name="Spam", namespace=(), version="v2", proto_package="spam.v2"),
        dict(name="Spam", namespace=("Ham", "Bacon"), version="v2",
             proto_package="ham.bacon.spam.v2"),
        dict(name="Spam Eggs", namespace=("Ham",), version="",
             proto_package="ham.spam_eggs"),
        dict(name="%name", namespace=("%version",), version="v1",
             proto_package="x.v1"),
        dict(name="class", namespace=("A/B", ""), version="v1p1beta1",
             proto_package="a.class.v1p1beta1"),
    ]
    templates = [
        "%namespace/%name_%version/foo.py.j2",
        "%namespace/%name/__init__.py.j2",
        "%namespace/%name_%version/%sub/services/%service/client.py.j2",
        "%namespace/%name_%version/%sub/types/%proto.py.j2",
        "%namespace/%name_%version/%sub/__init__.py.j2",
        "docs/%name_%version/%service.rst.j2",
        "scripts/fixup_%name_%version_keywords.py.j2",
        "tests/unit/gapic/%name_%version/%sub/test_%service.py.j2",
        "%name%version/%version_%name/%sub%sub.j2",
        "%service/%proto/%services/%protos.j2",
        "setup.py.j2", "//a///b.j2", ".j2", "x",
    ]
    contexts = [None, {}, {"service": _Named("svc_mod")}, {"proto": _Named("proto_mod")},
                {"service": _Named("%proto"), "proto": _Named("p")},
                {"other": 1}, {"service": _Named(None)}, {"proto": object()}]
    rows = []
    for nkw in namings:
        for old in (False, True):
            cls = naming.OldNaming if old else naming.NewNaming
            nm = cls(**nkw)
            for view in [(), ("admin",), ("admin", "deep")]:
                schema = api.API(naming=nm, all_protos={}, subpackage_view=view,
                                 service_yaml_config=service_pb2.Service())
                for t in templates:
                    for ci, ctx in enumerate(contexts):
                        rows.append((nkw["name"], old, view, t, ci, attempt(
                            lambda: gen._get_filename(t, api_schema=schema, context=ctx))))
                    rows.append((nkw["name"], old, view, t, "nocontext", attempt(
                        lambda: gen._get_filename(t, api_schema=schema))))
    results["__filename_probes__"] = {"files": {"probes": repr(rows)},
                                      "order": ["probes"], "features": 0}

    # Generator._get_file: empty-output handling, with in-memory templates.
    import jinja2
    rows = []
    sources = {
        "%name/py.typed.j2": "", "%name/__init__.py.j2": "   \n\n",
        "%name/empty.py.j2": " \n", "%name/x__init__.py.j2": "",
        "%name/full.py.j2": "x = '{{ api.naming.name }}'  \n\n\n",
        "%name/%service/s.py.j2": "{{ service.module_name }} {{ opts.transport }}",
        "%name/notpy.typed.j2": "\n", "%name/undefined.j2": "{{ nope }}",
    }
    gen2 = generator.Generator(Options.build(""))
    gen2._env.loader = jinja2.DictLoader(sources)
    nm = naming.NewNaming(name="Spam", namespace=("Ham",), version="v2",
                          proto_package="ham.spam.v2")
    schema = api.API(naming=nm, all_protos={},
                     service_yaml_config=service_pb2.Service())
    o = Options.build("transport=rest+grpc")
    for t in sorted(sources) + ["%name/missing.j2"]:
        for ctx in [{}, {"service": _Named("svc")}]:
            def run():
                out = gen2._get_file(t, opts=o, api_schema=schema, **ctx)
                return sorted((k, v.name, v.content) for k, v in out.items())
            rows.append((t, sorted(ctx), attempt(run)))
    results["__getfile_probes__"] = {"files": {"probes": repr(rows)},
                                     "order": ["probes"], "features": 0}

    nmods = _assert_all_from(tree, template_dirs)
    results["__meta__"] = {"files": {}, "order": [], "features": 0,
                           "gapic_modules_checked": nmods}
    with open(out_path, "wb") as fh:
        pickle.dump(results, fh)
    return 0


# --------------------------------------------------------------------------
# Case construction (runs in the parent; only protobuf / googleapis pb2).
# --------------------------------------------------------------------------
def build_cases(scratch: str):
    from google.protobuf import descriptor_pb2 as d
    from google.api import annotations_pb2, client_pb2, resource_pb2
    from google.api import field_behavior_pb2, http_pb2, launch_stage_pb2
    from google.longrunning import operations_pb2
    from google.rpc import status_pb2
    from google.protobuf import (any_pb2, duration_pb2, empty_pb2, field_mask_pb2,
                                 struct_pb2, timestamp_pb2, descriptor_pb2)

    F = d.FieldDescriptorProto

    def dep(mod):
        return d.FileDescriptorProto.FromString(mod.DESCRIPTOR.serialized_pb)

    std = [dep(m) for m in (descriptor_pb2, any_pb2, duration_pb2, empty_pb2,
                            field_mask_pb2, struct_pb2, timestamp_pb2, http_pb2,
                            annotations_pb2, launch_stage_pb2, client_pb2,
                            field_behavior_pb2, resource_pb2, status_pb2,
                            operations_pb2)]

    def field(name, number, type_=F.TYPE_STRING, type_name=None, label=F.LABEL_OPTIONAL,
              oneof=None, proto3_optional=False, required=False, resource_ref=None):
        f = F(name=name, number=number, type=type_, label=label)
        parts = name.split("_")     # json_name as protoc would set it
        f.json_name = parts[0] + "".join(p.capitalize() for p in parts[1:])
        if type_name:
            f.type_name = type_name
        if oneof is not None:
            f.oneof_index = oneof
        if proto3_optional:
            f.proto3_optional = True
        if required:
            f.options.Extensions[field_behavior_pb2.field_behavior].append(
                field_behavior_pb2.REQUIRED)
        if resource_ref:
            f.options.Extensions[resource_pb2.resource_reference].type = resource_ref
        return f

    def message(name, fields=(), nested=(), enums=(), oneofs=(), resource=None,
                map_entry=False):
        m = d.DescriptorProto(name=name)
        m.field.extend(fields)
        m.nested_type.extend(nested)
        m.enum_type.extend(enums)
        for o in oneofs:
            m.oneof_decl.add(name=o)
        if resource:
            r = m.options.Extensions[resource_pb2.resource]
            r.type = resource[0]
            r.pattern.extend(resource[1])
        if map_entry:
            m.options.map_entry = True
        return m

    def map_entry(name, value_type=F.TYPE_STRING, value_type_name=None):
        return message(name, [field("key", 1), field("value", 2, value_type, value_type_name)],
                       map_entry=True)

    def enum(name, values):
        e = d.EnumDescriptorProto(name=name)
        for i, v in enumerate(values):
            e.value.add(name=v, number=i)
        return e

    def method(name, inp, out, http=None, sig=(), cstream=False, sstream=False, lro=None,
               extra_bindings=()):
        m = d.MethodDescriptorProto(name=name, input_type=inp, output_type=out,
                                    client_streaming=cstream, server_streaming=sstream)
        if http:
            rule = m.options.Extensions[annotations_pb2.http]
            verb, path, body = http
            setattr(rule, verb, path)
            if body:
                rule.body = body
            for (v2, p2, b2) in extra_bindings:
                b = rule.additional_bindings.add()
                setattr(b, v2, p2)
                if b2:
                    b.body = b2
        for s in sig:
            m.options.Extensions[client_pb2.method_signature].append(s)
        if lro:
            info = m.options.Extensions[operations_pb2.operation_info]
            info.response_type, info.metadata_type = lro
        return m

    def service(name, methods, host=None, scopes=None):
        s = d.ServiceDescriptorProto(name=name)
        s.method.extend(methods)
        if host:
            s.options.Extensions[client_pb2.default_host] = host
        if scopes:
            s.options.Extensions[client_pb2.oauth_scopes] = scopes
        return s

    def file(name, package, deps=(), messages=(), enums=(), services=()):
        f = d.FileDescriptorProto(name=name, package=package, syntax="proto3")
        f.dependency.extend(deps)
        f.message_type.extend(messages)
        f.enum_type.extend(enums)
        f.service.extend(services)
        return f

    api_deps = ["google/api/annotations.proto", "google/api/client.proto",
                "google/api/field_behavior.proto", "google/api/resource.proto",
                "google/longrunning/operations.proto", "google/protobuf/timestamp.proto",
                "google/protobuf/empty.proto", "google/protobuf/field_mask.proto",
                "google/protobuf/any.proto", "google/protobuf/struct.proto",
                "google/protobuf/duration.proto"]

    cases = []

    def add(label, files, to_generate, options):
        cases.append({"label": label,
                      "files": [f.SerializeToString() for f in std + list(files)],
                      "to_generate": list(to_generate),
                      "options": options})

    # ---- API 1: "bookstore": one package, two files, three services --------
    # maps, repeated, oneof, proto3 optional, nesting, recursion, reserved words,
    # resources, method signatures, paging, LRO, all streaming kinds.
    P = "google.example.bookstore.v1"
    pp = "." + P
    bs_types = file(
        "google/example/bookstore/v1/resources.proto", P, api_deps,
        messages=[
            message("Book", [
                field("name", 1),
                field("class", 2),                       # reserved word
                field("from", 3, F.TYPE_INT32),          # reserved word
                field("tags", 4, label=F.LABEL_REPEATED),
                field("labels", 5, F.TYPE_MESSAGE, pp + ".Book.LabelsEntry",
                      label=F.LABEL_REPEATED),
                field("chapters", 6, F.TYPE_MESSAGE, pp + ".Book.ChaptersEntry",
                      label=F.LABEL_REPEATED),
                field("genre", 7, F.TYPE_ENUM, pp + ".Genre"),
                field("isbn", 8, oneof=0),
                field("legacy_id", 9, F.TYPE_INT64, oneof=0),
                field("rating", 10, F.TYPE_DOUBLE, oneof=1, proto3_optional=True),
                field("create_time", 11, F.TYPE_MESSAGE, ".google.protobuf.Timestamp"),
                field("sequel", 12, F.TYPE_MESSAGE, pp + ".Book"),      # recursive
                field("blob", 13, F.TYPE_BYTES),
                field("extra", 14, F.TYPE_MESSAGE, ".google.protobuf.Any"),
                field("props", 15, F.TYPE_MESSAGE, ".google.protobuf.Struct"),
            ], nested=[
                map_entry("LabelsEntry"),
                map_entry("ChaptersEntry", F.TYPE_MESSAGE, pp + ".Book.Chapter"),
                message("Chapter", [field("title", 1), field("pages", 2, F.TYPE_INT32),
                                    field("state", 3, F.TYPE_ENUM, pp + ".Book.Chapter.State")],
                        enums=[enum("State", ["STATE_UNSPECIFIED", "DRAFT", "None"])]),
            ], oneofs=["identifier", "_rating"],
                resource=("bookstore.example.com/Book",
                          ["shelves/{shelf}/books/{book}", "publishers/{publisher}/books/{book}"])),
            message("Shelf", [field("name", 1), field("theme", 2)],
                    resource=("bookstore.example.com/Shelf", ["shelves/{shelf}"])),
        ],
        enums=[enum("Genre", ["GENRE_UNSPECIFIED", "FICTION", "SCIENCE"])],
    )
    bs_svc = file(
        "google/example/bookstore/v1/bookstore.proto", P,
        api_deps + ["google/example/bookstore/v1/resources.proto"],
        messages=[
            message("GetBookRequest", [field("name", 1, required=True,
                                             resource_ref="bookstore.example.com/Book")]),
            message("CreateBookRequest", [field("parent", 1, required=True,
                                                resource_ref="bookstore.example.com/Shelf"),
                                          field("book", 2, F.TYPE_MESSAGE, pp + ".Book", required=True),
                                          field("request_id", 3)]),
            message("UpdateBookRequest", [field("book", 1, F.TYPE_MESSAGE, pp + ".Book"),
                                          field("update_mask", 2, F.TYPE_MESSAGE,
                                                ".google.protobuf.FieldMask")]),
            message("DeleteBookRequest", [field("name", 1)]),
            message("ListBooksRequest", [field("parent", 1), field("page_size", 2, F.TYPE_INT32),
                                         field("page_token", 3), field("filter", 4)]),
            message("ListBooksResponse", [field("books", 1, F.TYPE_MESSAGE, pp + ".Book",
                                                label=F.LABEL_REPEATED),
                                          field("next_page_token", 2)]),
            message("ArchiveShelfRequest", [field("name", 1), field("force", 2, F.TYPE_BOOL)]),
            message("ArchiveShelfMetadata", [field("progress", 1, F.TYPE_INT32)]),
            message("StreamBooksRequest", [field("parent", 1)]),
        ],
        services=[
            service("Bookstore", [
                method("GetBook", pp + ".GetBookRequest", pp + ".Book",
                       ("get", "/v1/{name=shelves/*/books/*}", None), sig=["name"],
                       extra_bindings=[("get", "/v1/{name=publishers/*/books/*}", None)]),
                method("CreateBook", pp + ".CreateBookRequest", pp + ".Book",
                       ("post", "/v1/{parent=shelves/*}/books", "book"), sig=["parent,book"]),
                method("UpdateBook", pp + ".UpdateBookRequest", pp + ".Book",
                       ("patch", "/v1/{book.name=shelves/*/books/*}", "book"),
                       sig=["book,update_mask"]),
                method("DeleteBook", pp + ".DeleteBookRequest", ".google.protobuf.Empty",
                       ("delete", "/v1/{name=shelves/*/books/*}", None), sig=["name"]),
                method("ListBooks", pp + ".ListBooksRequest", pp + ".ListBooksResponse",
                       ("get", "/v1/{parent=shelves/*}/books", None), sig=["parent"]),
                method("ArchiveShelf", pp + ".ArchiveShelfRequest", ".google.longrunning.Operation",
                       ("post", "/v1/{name=shelves/*}:archive", "*"),
                       lro=("Shelf", "ArchiveShelfMetadata")),
                method("StreamBooks", pp + ".StreamBooksRequest", pp + ".Book",
                       ("get", "/v1/{parent=shelves/*}/books:stream", None), sstream=True),
                method("UploadBooks", pp + ".Book", pp + ".ListBooksResponse", cstream=True),
                method("Chat", pp + ".Book", pp + ".Book", cstream=True, sstream=True),
            ], host="bookstore.googleapis.com",
                scopes="https://www.googleapis.com/auth/cloud-platform"),
            service("Zebra", [     # sorts after Bookstore, before nothing
                method("Stripe", pp + ".GetBookRequest", pp + ".Book",
                       ("post", "/v1/{name=shelves/*/books/*}:stripe", "*")),
            ], host="bookstore.googleapis.com:443"),
            service("AardvarkService", [    # sorts first
                method("Dig", pp + ".DeleteBookRequest", ".google.protobuf.Empty",
                       ("post", "/v1/{name=shelves/*/books/*}:dig", "*")),
            ], host="bookstore.googleapis.com"),
        ],
    )
    bs_files = [bs_types, bs_svc]
    bs_gen = [f.name for f in bs_files]
    for label, o in [
        ("bookstore/default", ""),
        ("bookstore/rest", "transport=rest"),
        ("bookstore/rest-numeric-nosnippets", "transport=rest,rest-numeric-enums,autogen-snippets=false"),
        ("bookstore/both-metadata", "transport=grpc+rest,metadata"),
        ("bookstore/rest+grpc-nosnippets", "transport=rest+grpc,autogen-snippets=false"),
        ("bookstore/old-naming-iam", "old-naming,add-iam-methods,warehouse-package-name=my-books"),
        ("bookstore/named", "python-gapic-name=shop,python-gapic-namespace=Acme+Big.Labs"),
        ("bookstore/ads-templates", "python-gapic-templates=ads-templates,old-naming"),
    ]:
        add(label, bs_files, bs_gen, o)

    # service yaml: experimental features decide which files exist at all
    def yaml_opts(fname, version, features, extra=""):
        path = os.path.join(scratch, fname)
        lines = ["type: google.api.Service", "config_version: 3",
                 "name: bookstore.googleapis.com", "publishing:", "  library_settings:",
                 f"  - version: {version}", "    python_settings:",
                 "      experimental_features:"]
        lines += [f"        {k}: true" for k in features]
        with open(path, "w") as fh:
            fh.write("\n".join(lines) + "\n")
        return f"service-yaml={path}" + extra

    add("bookstore/rest-async", bs_files, bs_gen,
        yaml_opts("async.yaml", P, ["rest_async_io_enabled"], ",transport=rest"))
    add("bookstore/unversioned-disabled", bs_files, bs_gen,
        yaml_opts("unver.yaml", P, ["unversioned_package_disabled"], ",transport=grpc+rest"))

    # ---- API 2: sub-packages two levels deep, services in each ------------
    Q = "google.cloud.big_thing.v1beta1"
    qq = "." + Q
    dep_plus = file("google/cloud/other_dep/v2/class.proto", "google.cloud.other_dep.v2",
                    messages=[message("Widget", [field("name", 1)])],
                    enums=[enum("Colour", ["COLOUR_UNSPECIFIED", "RED"])])
    dep_pb2 = file("google/type_x/money.proto", "google.type_x",
                   messages=[message("Money", [field("units", 1, F.TYPE_INT64)])])
    bt_common = file(
        "google/cloud/big_thing/v1beta1/import.proto", Q,       # module `import` is reserved
        ["google/cloud/other_dep/v2/class.proto", "google/type_x/money.proto"] + api_deps,
        messages=[message("Common", [
            field("widget", 1, F.TYPE_MESSAGE, ".google.cloud.other_dep.v2.Widget"),
            field("colour", 2, F.TYPE_ENUM, ".google.cloud.other_dep.v2.Colour"),
            field("price", 3, F.TYPE_MESSAGE, ".google.type_x.Money"),
            field("ttl", 4, F.TYPE_MESSAGE, ".google.protobuf.Duration"),
        ])],
        enums=[enum("Zone", ["ZONE_UNSPECIFIED", "EAST"])])
    bt_enums_only = file(
        "google/cloud/big_thing/v1beta1/kinds.proto", Q, api_deps,
        enums=[enum("Kind", ["KIND_UNSPECIFIED", "SMALL"]), enum("Alpha", ["ALPHA_UNSPECIFIED"])])
    bt_admin = file(
        "google/cloud/big_thing/v1beta1/admin/policy.proto", Q + ".admin",
        ["google/cloud/big_thing/v1beta1/import.proto"] + api_deps,
        messages=[message("Policy", [field("name", 1),
                                     field("common", 2, F.TYPE_MESSAGE, qq + ".Common"),
                                     field("policy", 3)]),
                  message("SetPolicyRequest", [field("policy", 1, F.TYPE_MESSAGE, qq + ".admin.Policy")])],
        enums=[enum("Level", ["LEVEL_UNSPECIFIED", "HIGH"])],
        services=[service("AdminService", [
            method("SetPolicy", qq + ".admin.SetPolicyRequest", qq + ".admin.Policy",
                   ("post", "/v1beta1/policy", "policy"), sig=["policy"]),
            method("WatchPolicy", qq + ".admin.SetPolicyRequest", qq + ".admin.Policy",
                   ("get", "/v1beta1/policy:watch", None), sstream=True),
        ], host="bigthing.googleapis.com")])
    bt_deep = file(
        "google/cloud/big_thing/v1beta1/admin/deep/audit.proto", Q + ".admin.deep",
        ["google/cloud/big_thing/v1beta1/admin/policy.proto"] + api_deps,
        messages=[message("AuditRequest", [field("policy", 1, F.TYPE_MESSAGE, qq + ".admin.Policy"),
                                           field("level", 2, F.TYPE_ENUM, qq + ".admin.Level")]),
                  message("AuditResponse", [field("ok", 1, F.TYPE_BOOL)])],
        services=[service("Auditor", [
            method("Audit", qq + ".admin.deep.AuditRequest", qq + ".admin.deep.AuditResponse",
                   ("post", "/v1beta1/audit", "*")),
        ], host="bigthing.googleapis.com")])
    bt_things = file(
        "google/cloud/big_thing/v1beta1/things.proto", Q,
        ["google/cloud/big_thing/v1beta1/import.proto",
         "google/cloud/big_thing/v1beta1/kinds.proto",
         "google/cloud/big_thing/v1beta1/admin/policy.proto"] + api_deps,
        messages=[
            message("Thing", [field("name", 1),
                              field("things", 2, label=F.LABEL_REPEATED),   # like a module
                              field("common", 3, F.TYPE_MESSAGE, qq + ".Common"),
                              field("admin", 4, F.TYPE_MESSAGE, qq + ".admin.Policy"),
                              field("kind", 5, F.TYPE_ENUM, qq + ".Kind")],
                    resource=("bigthing.example.com/Thing", ["projects/{project}/things/{thing}", "*"])),
            message("GetThingRequest", [field("name", 1), field("import", 2),
                                        field("common", 3, F.TYPE_MESSAGE, qq + ".Common")]),
            message("ListThingsRequest", [field("parent", 1), field("page_size", 2, F.TYPE_INT32),
                                          field("page_token", 3)]),
            message("ListThingsResponse", [field("things", 1, F.TYPE_MESSAGE, qq + ".Thing",
                                                 label=F.LABEL_REPEATED),
                                           field("next_page_token", 2)]),
        ],
        services=[service("Things", [
            method("GetThing", qq + ".GetThingRequest", qq + ".Thing",
                   ("get", "/v1beta1/{name=projects/*/things/*}", None), sig=["name", "name,import"]),
            method("ListThings", qq + ".ListThingsRequest", qq + ".ListThingsResponse",
                   ("get", "/v1beta1/{parent=projects/*}/things", None)),
            method("GetWidget", qq + ".GetThingRequest", ".google.cloud.other_dep.v2.Widget",
                   ("post", "/v1beta1/{name=projects/*/things/*}:widget", "*")),
            method("GetMoney", qq + ".Common", ".google.type_x.Money"),
        ], host="bigthing.googleapis.com")])
    bt_files = [dep_plus, dep_pb2, bt_common, bt_enums_only, bt_admin, bt_deep, bt_things]
    bt_gen = [bt_common.name, bt_enums_only.name, bt_admin.name, bt_deep.name, bt_things.name]
    for label, o in [
        ("bigthing/default-snippets", "proto-plus-deps=google.cloud.other_dep.v2"),
        ("bigthing/default", "autogen-snippets=false,proto-plus-deps=google.cloud.other_dep.v2"),
        ("bigthing/rest", "autogen-snippets=false,transport=rest,"
                          "proto-plus-deps=google.cloud.other_dep.v2+google.type_x"),
        ("bigthing/both-metadata", "autogen-snippets=false,transport=grpc+rest,metadata"),
    ]:
        add(label, bt_files, bt_gen, o)
    # only the sub-package files are requested
    add("bigthing/only-admin", bt_files, [bt_admin.name, bt_deep.name],
        "autogen-snippets=false")

    # ---- API 3: no version, one-segment package (empty namespace), no annotations
    w = file("widgets/any.proto", "widgets", [],           # module `any` is a builtin name
             messages=[message("Req", [field("id", 1), field("yield", 2, F.TYPE_BOOL)]),
                       message("Resp", [field("ok", 1, F.TYPE_BOOL),
                                        field("any", 2, F.TYPE_MESSAGE, ".widgets.Req")])],
             services=[service("Widgets", [
                 method("Do", ".widgets.Req", ".widgets.Resp"),
                 method("Watch", ".widgets.Req", ".widgets.Resp", sstream=True),
             ]), service("Empty", [])])
    for label, o in [
        ("widgets/default", ""),
        ("widgets/rest-only", "transport=rest"),
        ("widgets/named", "python-gapic-name=gizmo,python-gapic-namespace=Acme+Labs,transport=grpc+rest"),
        ("widgets/custom-transport", "transport=custom"),
    ]:
        add(label, [w], [w.name], o)
    # the same API below a namespace but still without a version
    w2 = file("acme/gadgets/gadget.proto", "acme.gadgets", [],
              messages=[message("Gadget", [field("id", 1)])],
              services=[service("Gadgets", [method("Get", ".acme.gadgets.Gadget", ".acme.gadgets.Gadget")])])
    add("gadgets/default", [w2], [w2.name], "")

    # a versioned API whose package has no namespace at all (`gizmos.v3`)
    w3 = file("gizmos/v3/gizmo.proto", "gizmos.v3", api_deps,
              messages=[message("Gizmo", [field("id", 1)])],
              enums=[enum("Size", ["SIZE_UNSPECIFIED", "BIG"])],
              services=[service("Gizmos", [method("Get", ".gizmos.v3.Gizmo", ".gizmos.v3.Gizmo",
                                                  ("get", "/v3/{id=*}", None))],
                                host="gizmos.example.com")])
    add("gizmos/default", [w3], [w3.name], "transport=grpc+rest")
    add("gizmos/rest", [w3], [w3.name], "transport=rest,autogen-snippets=false")

    # ---- API 4: files without messages / without anything -------------------
    S = "google.example.shapes.v2"
    shapes = file("google/example/shapes/v2/shapes.proto", S, api_deps,
                  messages=[message("Shape", [field("sides", 1, F.TYPE_INT32),
                                              field("kind", 2, F.TYPE_ENUM, "." + S + ".Kind")],
                                    enums=[enum("Inner", ["INNER_UNSPECIFIED"])])],
                  enums=[enum("Kind", ["KIND_UNSPECIFIED", "ROUND"])])
    only_enum = file("google/example/shapes/v2/colours.proto", S, [],
                     enums=[enum("Colour", ["COLOUR_UNSPECIFIED", "RED"])])
    only_service = file("google/example/shapes/v2/svc_only.proto", S,
                        ["google/example/shapes/v2/shapes.proto"] + api_deps,
                        services=[service("Shaper", [
                            method("Reshape", "." + S + ".Shape", "." + S + ".Shape",
                                   ("post", "/v2/shapes", "*"))], host="shapes.example.com")])
    nothing = file("google/example/shapes/v2/nothing.proto", S, [])
    add("shapes/types-only", [shapes, only_enum], [shapes.name, only_enum.name], "")
    add("shapes/mixed", [shapes, only_enum, only_service, nothing],
        [shapes.name, only_enum.name, only_service.name, nothing.name], "transport=grpc+rest,metadata")
    add("shapes/mixed-rest-ads", [shapes, only_enum, only_service, nothing],
        [shapes.name, only_enum.name, only_service.name, nothing.name],
        "transport=rest,python-gapic-templates=ads-templates,old-naming")

    return cases


# --------------------------------------------------------------------------
def main(argv) -> int:
    if len(argv) >= 2 and argv[1] == "--worker":
        return worker(argv[2], argv[3], argv[4])
    if len(argv) != 2:
        print(__doc__)
        return 2

    checkout = os.path.abspath(argv[1])
    tmp = tempfile.mkdtemp(prefix="twin-U01-")
    try:
        pristine = os.path.join(tmp, "pristine")
        os.mkdir(pristine)
        archive = subprocess.Popen(["git", "-C", checkout, "archive", "HEAD"],
                                   stdout=subprocess.PIPE)
        subprocess.check_call(["tar", "-x", "-C", pristine], stdin=archive.stdout)
        archive.stdout.close()
        if archive.wait() != 0:
            raise RuntimeError("git archive failed")

        cases = build_cases(tmp)
        cases_path = os.path.join(tmp, "cases.pkl")
        with open(cases_path, "wb") as fh:
            pickle.dump(cases, fh)

        env = dict(os.environ, PYTHONDONTWRITEBYTECODE="1", PYTHONHASHSEED="0")
        env.pop("PYTHONPATH", None)
        procs = {}
        for which, tree in (("pristine", pristine), ("changed", checkout)):
            out_path = os.path.join(tmp, which + ".pkl")
            procs[which] = (out_path, subprocess.Popen(
                [sys.executable, os.path.abspath(__file__), "--worker",
                 tree, cases_path, out_path], env=env, cwd=tmp))
        outs = {}
        for which, (out_path, proc) in procs.items():
            if proc.wait() != 0:
                raise RuntimeError(f"worker for the {which} tree failed")
            with open(out_path, "rb") as fh:
                outs[which] = pickle.load(fh)

        a, b = outs["pristine"], outs["changed"]
        a.pop("__meta__"), b.pop("__meta__")
        diffs = []
        nfiles = 0
        nerr = 0
        for label in sorted(set(a) | set(b)):
            ra, rb = a.get(label), b.get(label)
            if ra is None or rb is None:
                diffs.append(f"{label}: case missing in one run")
                continue
            if "error" in ra or "error" in rb:
                nerr += 1
                if ra != rb:
                    diffs.append(f"{label}: error differs: {ra.get('error')!r} vs {rb.get('error')!r}")
                continue
            if ra["order"] != rb["order"]:
                diffs.append(f"{label}: file list/order differs: "
                             f"only-pristine={sorted(set(ra['order']) - set(rb['order']))} "
                             f"only-changed={sorted(set(rb['order']) - set(ra['order']))}")
            if ra["features"] != rb["features"]:
                diffs.append(f"{label}: supported_features differs")
            for name in sorted(set(ra["files"]) & set(rb["files"])):
                nfiles += 1
                if ra["files"][name] != rb["files"][name]:
                    diffs.append(f"{label}: {name}")
        if diffs:
            print(f"DIFFERENT: {len(diffs)} difference(s)")
            for line in diffs:
                print("  " + line)
            return 1
        failing = sorted(l for l in a if "error" in a[l])
        print(f"IDENTICAL: {len(a)} cases, {nfiles} files compared byte for byte"
              + (f"; {nerr} case(s) raise the same error in both trees: {failing}" if nerr else ""))
        return 0
    finally:
        shutil.rmtree(tmp, ignore_errors=True)


if __name__ == "__main__":
    sys.exit(main(sys.argv))
