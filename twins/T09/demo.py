#!/usr/bin/env python
"""Twin T09 (property C09: default retry / timeout from the gRPC service config).

Usage:  /venv/bin/python demo.py <path-to-a-checkout-with-the-change>

Exports the pristine HEAD of the checkout with `git archive`, then runs the
generator from BOTH trees (pristine export, checkout working tree) in separate
subprocesses over several API descriptions and service configs, and compares
every generated file (names and bytes), a per-method dump of the parsed
(retry, timeout) pairs, and the exception raised for malformed configs.

Exit 0 + one-line summary when everything is identical; exit 1 otherwise.
"""
import json
import os
import pickle
import shutil
import subprocess
import sys
import tempfile

from google.api import annotations_pb2, client_pb2, field_behavior_pb2  # noqa: F401
from google.longrunning import operations_pb2
from google.protobuf import descriptor_pb2 as dpb
from google.protobuf import empty_pb2

F = dpb.FieldDescriptorProto

# --------------------------------------------------------------------------
# Worker: executed in a subprocess, once per tree.
# --------------------------------------------------------------------------
WORKER = r'''
import hashlib, json, os, pickle, sys, traceback

tree, infile, outfile = sys.argv[1:4]
tree = os.path.realpath(tree)

# Make sure the `gapic` package comes from `tree` and from nowhere else
# (the venv carries an editable install pointing somewhere else).
sys.meta_path[:] = [
    f for f in sys.meta_path
    if "__editable__" not in str(getattr(f, "__module__", ""))
]
sys.path[:] = [p for p in sys.path if "__editable__" not in p and p not in ("", os.getcwd())]
sys.path.insert(0, tree)

import pypandoc


def _convert_text(text, to, format=None, extra_args=(), **kw):
    return text


pypandoc.convert_text = _convert_text

from google.protobuf import descriptor_pb2
from gapic.schema import api as gapic_api
from gapic.generator import generator
from gapic.utils import Options

with open(infile, "rb") as f:
    cases = pickle.load(f)

results = {}
for case in cases:
    files = {}
    try:
        fdps = [descriptor_pb2.FileDescriptorProto.FromString(b) for b in case["fdps"]]
        opts = Options.build(case["opts"])
        schema = gapic_api.API.build(fdps, package=case["package"], opts=opts)
        # Parsed schema view of the property: (retry, timeout) of every method.
        lines = []
        for sname in sorted(schema.services):
            svc = schema.services[sname]
            for mname in sorted(svc.methods):
                m = svc.methods[mname]
                r = m.retry
                if r is not None:
                    r = (
                        r.max_attempts, r.initial_backoff, r.max_backoff,
                        r.backoff_multiplier,
                        sorted(e.__name__ for e in r.retryable_exceptions),
                        type(r.retryable_exceptions).__name__,
                    )
                lines.append("%s/%s retry=%r timeout=%r" % (sname, mname, r, m.timeout))
        files["__schema__/retry_timeout.txt"] = "\n".join(lines)
        response = generator.Generator(opts).get_response(schema, opts)
        for out in response.file:
            assert out.name not in files, out.name
            files[out.name] = out.content
    except Exception as exc:  # recorded and compared, too
        files = {"__exception__": "%s: %s" % (type(exc).__name__, exc)}
        if not case.get("expect_error"):
            files["__traceback__"] = traceback.format_exc()
    results[case["name"]] = files

for name, mod in list(sys.modules.items()):
    if name == "gapic" or name.startswith("gapic."):
        fn = getattr(mod, "__file__", None)
        assert fn is None or os.path.realpath(fn).startswith(tree + os.sep), (name, fn)

with open(outfile, "wb") as f:
    pickle.dump(results, f)
'''


# --------------------------------------------------------------------------
# Descriptor helpers
# --------------------------------------------------------------------------
def field(name, number, type_=F.TYPE_STRING, label=F.LABEL_OPTIONAL, type_name=None,
          oneof_index=None, required=False):
    f = F(name=name, number=number, type=type_, label=label)
    if type_name:
        f.type_name = type_name
    if oneof_index is not None:
        f.oneof_index = oneof_index
    if required:
        f.options.Extensions[field_behavior_pb2.field_behavior].append(
            field_behavior_pb2.REQUIRED
        )
    return f


def message(name, fields, oneofs=(), nested=(), enums=()):
    m = dpb.DescriptorProto(name=name, field=fields)
    for o in oneofs:
        m.oneof_decl.add(name=o)
    m.nested_type.extend(nested)
    m.enum_type.extend(enums)
    return m


def map_entry(name, value_type=F.TYPE_STRING, value_type_name=None):
    e = dpb.DescriptorProto(
        name=name,
        field=[field("key", 1), field("value", 2, value_type, type_name=value_type_name)],
    )
    e.options.map_entry = True
    return e


def method(name, inp, out, http=None, body=None, cs=False, ss=False, signature=None,
           lro=None):
    m = dpb.MethodDescriptorProto(
        name=name, input_type=inp, output_type=out, client_streaming=cs,
        server_streaming=ss,
    )
    if http:
        verb, uri = http
        rule = m.options.Extensions[annotations_pb2.http]
        setattr(rule, verb, uri)
        if body:
            rule.body = body
    if signature is not None:
        m.options.Extensions[client_pb2.method_signature].append(signature)
    if lro:
        info = m.options.Extensions[operations_pb2.operation_info]
        info.response_type, info.metadata_type = lro
    return m


def service(name, methods, host="example.googleapis.com", scopes=None):
    s = dpb.ServiceDescriptorProto(name=name, method=methods)
    if host:
        s.options.Extensions[client_pb2.default_host] = host
    if scopes:
        s.options.Extensions[client_pb2.oauth_scopes] = scopes
    return s


def file_(name, package, messages=(), services=(), enums=(), deps=()):
    return dpb.FileDescriptorProto(
        name=name, package=package, message_type=messages, service=services,
        enum_type=enums, dependency=list(deps), syntax="proto3",
    )


def well_known(*modules):
    out = []
    for mod in modules:
        fdp = dpb.FileDescriptorProto()
        mod.DESCRIPTOR.CopyToProto(fdp)
        out.append(fdp)
    return out


def any_and_friends():
    """operations.proto and its transitive dependencies, dependencies first."""
    seen, order = set(), []

    def visit(fd):
        if fd.name in seen:
            return
        seen.add(fd.name)
        for dep in fd.dependencies:
            visit(dep)
        fdp = dpb.FileDescriptorProto()
        fd.CopyToProto(fdp)
        order.append(fdp)

    visit(operations_pb2.DESCRIPTOR)
    return order


ALL_CODES = [
    "CANCELLED", "UNKNOWN", "INVALID_ARGUMENT", "DEADLINE_EXCEEDED", "NOT_FOUND",
    "ALREADY_EXISTS", "PERMISSION_DENIED", "RESOURCE_EXHAUSTED", "FAILED_PRECONDITION",
    "ABORTED", "OUT_OF_RANGE", "UNIMPLEMENTED", "INTERNAL", "UNAVAILABLE", "DATA_LOSS",
    "UNAUTHENTICATED",
]


# --------------------------------------------------------------------------
# API descriptions
# --------------------------------------------------------------------------
def library_api():
    """google.example.library.v1: unary, paged, Empty response, LRO; gRPC + REST."""
    pkg = "google.example.library.v1"
    p = "." + pkg
    msgs = [
        message("Book", [field("name", 1), field("title", 2),
                         field("labels", 3, F.TYPE_MESSAGE, F.LABEL_REPEATED,
                               p + ".Book.LabelsEntry")],
                nested=[map_entry("LabelsEntry")]),
        message("GetBookRequest", [field("name", 1, required=True)]),
        message("DeleteBookRequest", [field("name", 1, required=True)]),
        message("ListBooksRequest", [field("parent", 1), field("page_size", 2, F.TYPE_INT32),
                                     field("page_token", 3)]),
        message("ListBooksResponse", [field("books", 1, F.TYPE_MESSAGE, F.LABEL_REPEATED,
                                            p + ".Book"),
                                      field("next_page_token", 2)]),
        message("CreateBookRequest", [field("parent", 1), field("book", 2, F.TYPE_MESSAGE,
                                                              type_name=p + ".Book")]),
        message("CreateBookMetadata", [field("progress", 1, F.TYPE_INT32)]),
    ]
    svc = service("Library", [
        method("GetBook", p + ".GetBookRequest", p + ".Book",
               http=("get", "/v1/{name=shelves/*/books/*}"), signature="name"),
        method("ListBooks", p + ".ListBooksRequest", p + ".ListBooksResponse",
               http=("get", "/v1/{parent=shelves/*}/books"), signature="parent"),
        method("DeleteBook", p + ".DeleteBookRequest", ".google.protobuf.Empty",
               http=("delete", "/v1/{name=shelves/*/books/*}")),
        method("CreateBook", p + ".CreateBookRequest", ".google.longrunning.Operation",
               http=("post", "/v1/{parent=shelves/*}/books"), body="book",
               lro=("Book", "CreateBookMetadata")),
        method("UpdateBook", p + ".CreateBookRequest", p + ".Book",
               http=("patch", "/v1/{parent=shelves/*}/books"), body="*"),
    ], scopes="https://www.googleapis.com/auth/cloud-platform")
    fdp = file_("google/example/library/v1/library.proto", pkg, msgs, [svc],
                deps=["google/longrunning/operations.proto", "google/protobuf/empty.proto"])
    return any_and_friends() + [fdp], pkg


def library_config():
    svc = "google.example.library.v1.Library"
    return {
        "methodConfig": [
            # entry naming only the service: must NOT match any method selector
            {"name": [{"service": svc}], "timeout": "99s",
             "retryPolicy": {"retryableStatusCodes": ["ABORTED"]}},
            # one entry naming several methods; fractional durations, all codes
            {"name": [{"service": svc, "method": "GetBook"},
                      {"service": svc, "method": "ListBooks"}],
             "timeout": "60.5s",
             "retryPolicy": {"maxAttempts": 5, "initialBackoff": "0.1s",
                             "maxBackoff": "32.25s", "backoffMultiplier": 1.3,
                             "retryableStatusCodes": ALL_CODES}},
            # timeout without retryPolicy
            {"name": [{"service": svc, "method": "DeleteBook"}], "timeout": "7s"},
            # retryPolicy without timeout
            {"name": [{"service": svc, "method": "CreateBook"}],
             "retryPolicy": {"initialBackoff": "1s", "maxBackoff": "10s",
                             "backoffMultiplier": 2,
                             "retryableStatusCodes": ["UNAVAILABLE", "DEADLINE_EXCEEDED"]}},
            # a second entry for GetBook: the first match has to win
            {"name": [{"service": svc, "method": "GetBook"}], "timeout": "1s"},
        ]
    }


def streaming_api():
    """foo.bar.v1 (no google namespace): two services, streaming, reserved-word RPC names."""
    pkg = "foo.bar.v1"
    p = "." + pkg
    msgs = [
        message("Chunk", [field("data", 1, F.TYPE_BYTES), field("class", 2),
                          field("retry", 3, F.TYPE_INT32), field("timeout", 4, F.TYPE_DOUBLE)]),
        message("Ack", [field("ok", 1, F.TYPE_BOOL)]),
        message("Query", [field("text", 1), field("id", 2, F.TYPE_INT64, oneof_index=0),
                          field("alias", 3, oneof_index=0)], oneofs=["key"]),
    ]
    pipe = service("Pipe", [
        method("Import", p + ".Query", p + ".Ack"),          # reserved word once snake-cased
        method("Class", p + ".Query", p + ".Ack"),
        method("Close", p + ".Query", p + ".Ack"),           # clashes with transport.close
        method("Download", p + ".Query", p + ".Chunk", ss=True),
        method("Upload", p + ".Chunk", p + ".Ack", cs=True),
        method("Chat", p + ".Chunk", p + ".Chunk", cs=True, ss=True),
    ], host="pipe.example.com")
    other = service("SideChannel", [
        method("Import", p + ".Query", p + ".Ack"),
        method("Ping", p + ".Query", p + ".Ack"),
    ], host=None)
    empty = service("Idle", [], host="idle.example.com")
    fdp = file_("foo/bar/v1/pipe.proto", pkg, msgs, [pipe, other, empty])
    return [fdp], pkg


def streaming_config():
    return {
        "methodConfig": [
            # nanosecond suffix, zero / missing backoff parameters
            {"name": [{"service": "foo.bar.v1.Pipe", "method": "Import"},
                      {"service": "foo.bar.v1.SideChannel", "method": "Import"}],
             "timeout": "1500000000n",
             "retryPolicy": {"initialBackoff": "250000000n", "maxBackoff": "0s",
                             "retryableStatusCodes": ["UNAVAILABLE", "UNAVAILABLE", "OK"]}},
            {"name": [{"service": "foo.bar.v1.Pipe", "method": "Download"}],
             "timeout": "0s", "retryPolicy": {}},
            {"name": [{"service": "foo.bar.v1.Pipe", "method": "Chat"}],
             "timeout": "", "retryPolicy": {"maxAttempts": 3, "backoffMultiplier": 0,
                                            "retryableStatusCodes": []}},
            # right method, wrong service / wrong package
            {"name": [{"service": "foo.bar.Pipe", "method": "Upload"},
                      {"service": "bar.v1.Pipe", "method": "Upload"},
                      {"service": "foo.bar.v1.Pipe", "method": "upload"}], "timeout": "3s"},
            {"name": [{"service": "foo.bar.v1.Pipe", "method": "Close"}], "timeout": "2.5s",
             "retryPolicy": {"initialBackoff": ".5s", "maxBackoff": "1e1s",
                             "backoffMultiplier": 1.5,
                             "retryableStatusCodes": ["INTERNAL", "ABORTED"]}},
        ],
        "loadBalancingConfig": [{"round_robin": {}}],
    }


def rest_api():
    """acme.shop.v1 + sub-package acme.shop.v1.audit: enums, maps, oneofs; REST only."""
    pkg = "acme.shop.v1"
    p = "." + pkg
    kind = dpb.EnumDescriptorProto(name="Kind", value=[
        dpb.EnumValueDescriptorProto(name="KIND_UNSPECIFIED", number=0),
        dpb.EnumValueDescriptorProto(name="SMALL", number=1),
        dpb.EnumValueDescriptorProto(name="LARGE", number=2),
    ])
    msgs = [
        message("Item", [field("name", 1), field("kind", 2, F.TYPE_ENUM, type_name=p + ".Kind"),
                         field("attrs", 3, F.TYPE_MESSAGE, F.LABEL_REPEATED,
                               p + ".Item.AttrsEntry"),
                         field("price", 4, F.TYPE_DOUBLE, oneof_index=0),
                         field("free", 5, F.TYPE_BOOL, oneof_index=0),
                         field("tags", 6, label=F.LABEL_REPEATED)],
                oneofs=["cost"], nested=[map_entry("AttrsEntry")]),
        message("GetItemRequest", [field("name", 1), field("view", 2, F.TYPE_ENUM,
                                                         type_name=p + ".Kind")]),
        message("ListItemsRequest", [field("parent", 1), field("page_size", 2, F.TYPE_INT32),
                                     field("page_token", 3), field("filter", 4)]),
        message("ListItemsResponse", [field("items", 1, F.TYPE_MESSAGE, F.LABEL_REPEATED,
                                            p + ".Item"), field("next_page_token", 2)]),
    ]
    shop = service("Shop", [
        method("GetItem", p + ".GetItemRequest", p + ".Item",
               http=("get", "/v1/{name=items/*}"), signature="name"),
        method("ListItems", p + ".ListItemsRequest", p + ".ListItemsResponse",
               http=("get", "/v1/{parent=stores/*}/items")),
        method("PutItem", p + ".Item", p + ".Item", http=("put", "/v1/{name=items/*}"),
               body="*"),
    ], host="shop.acme.test:8443")
    main = file_("acme/shop/v1/shop.proto", pkg, msgs, [shop], enums=[kind])

    sub = "acme.shop.v1.audit"
    sp = "." + sub
    audit = service("AuditLog", [
        method("Record", sp + ".Entry", sp + ".Entry", http=("post", "/v1/audit"), body="*"),
        method("Fetch", sp + ".Entry", sp + ".Entry", http=("get", "/v1/audit/{id}")),
    ], host="shop.acme.test")
    subfile = file_("acme/shop/v1/audit/audit.proto", sub,
                    [message("Entry", [field("id", 1), field("item", 2, F.TYPE_MESSAGE,
                                                            type_name=p + ".Item")])],
                    [audit], deps=["acme/shop/v1/shop.proto"])
    return [main, subfile], pkg


def rest_config():
    return {
        "methodConfig": [
            {"name": [{"service": "acme.shop.v1.Shop", "method": "GetItem"},
                      {"service": "acme.shop.v1.audit.AuditLog", "method": "Fetch"}],
             "timeout": "20s",
             "retryPolicy": {"maxAttempts": 4, "initialBackoff": "0.25s", "maxBackoff": "8s",
                             "backoffMultiplier": 2.0,
                             "retryableStatusCodes": ["UNAVAILABLE", "RESOURCE_EXHAUSTED",
                                                      "UNKNOWN"]}},
            {"name": [{"service": "acme.shop.v1.Shop", "method": "ListItems"}],
             "timeout": "600s",
             "retryPolicy": {"initialBackoff": "1s", "retryableStatusCodes": ["ABORTED"]}},
            # sub-package service addressed with the parent package only: no match
            {"name": [{"service": "acme.shop.v1.AuditLog", "method": "Record"}],
             "timeout": "5s"},
            {"name": [{"service": "acme.shop.v1.audit.AuditLog", "method": "Record"}],
             "timeout": "12.125s"},
        ]
    }


def build_cases(tmp):
    def cfg(name, data):
        path = os.path.join(tmp, name + ".json")
        with open(path, "w") as f:
            json.dump(data, f)
        return path

    def ser(fdps):
        return [f.SerializeToString() for f in fdps]

    lib, lib_pkg = library_api()
    stream, stream_pkg = streaming_api()
    rest, rest_pkg = rest_api()

    lib_cfg = cfg("library", library_config())
    stream_cfg = cfg("streaming", streaming_config())
    rest_cfg = cfg("rest", rest_config())
    empty_cfg = cfg("empty", {})
    nomethods_cfg = cfg("nomethods", {"methodConfig": []})
    other_cfg = cfg("other", library_config())  # names a different API entirely

    cases = [
        dict(name="library/grpc+rest", fdps=ser(lib), package=lib_pkg,
             opts="retry-config=%s,transport=grpc+rest" % lib_cfg),
        dict(name="library/default-opts-no-config", fdps=ser(lib), package=lib_pkg, opts=""),
        dict(name="library/two-configs-last-wins", fdps=ser(lib), package=lib_pkg,
             opts="retry-config=%s,retry-config=%s,autogen-snippets=false" % (empty_cfg, lib_cfg)),
        dict(name="library/empty-config", fdps=ser(lib), package=lib_pkg,
             opts="retry-config=%s,autogen-snippets=false,transport=grpc" % empty_cfg),
        dict(name="streaming/grpc", fdps=ser(stream), package=stream_pkg,
             opts="retry-config=%s,transport=grpc" % stream_cfg),
        dict(name="streaming/unrelated-config", fdps=ser(stream), package=stream_pkg,
             opts="retry-config=%s,transport=grpc,autogen-snippets=false" % other_cfg),
        dict(name="streaming/no-method-configs", fdps=ser(stream), package=stream_pkg,
             opts="retry-config=%s,transport=grpc,autogen-snippets=false" % nomethods_cfg),
        dict(name="shop/rest-numeric-enums", fdps=ser(rest), package=rest_pkg,
             # (snippet generation is switched off for this API: the pinned generator
             # cannot index services of a sub-package there, independent of this change)
             opts="retry-config=%s,transport=rest,rest-numeric-enums,autogen-snippets=false"
                  % rest_cfg),
        dict(name="shop/grpc+rest-old-naming", fdps=ser(rest), package=rest_pkg,
             opts="retry-config=%s,old-naming,autogen-snippets=false" % rest_cfg),
    ]

    # Malformed configs: both trees have to fail in the same way.
    sel = [{"service": "foo.bar.v1.Pipe", "method": "Import"}]
    bad = {
        "bad-status-code": {"methodConfig": [
            {"name": sel, "retryPolicy": {"retryableStatusCodes": ["UNAVAILABLE", "NOPE"]}}]},
        "bad-duration": {"methodConfig": [
            {"name": sel, "timeout": "soon",
             "retryPolicy": {"retryableStatusCodes": ["NOPE"]}}]},
        "bad-duration-seconds": {"methodConfig": [
            {"name": sel, "timeout": "1.5s", "retryPolicy": {"maxBackoff": "later"}}]},
        "bad-backoff-and-code": {"methodConfig": [
            {"name": sel, "retryPolicy": {"initialBackoff": "1.5n", "maxBackoff": "x",
                                          "retryableStatusCodes": ["NOPE"]}}]},
        "entry-without-name": {"methodConfig": [{"timeout": "1s"}, {"name": sel}]},
        "codes-not-iterable": {"methodConfig": [
            {"name": sel, "retryPolicy": {"retryableStatusCodes": 5}}]},
        "numeric-timeout": {"methodConfig": [{"name": sel, "timeout": 30}]},
        "policy-not-a-dict": {"methodConfig": [{"name": sel, "retryPolicy": None}]},
    }
    for key, data in bad.items():
        cases.append(dict(name="malformed/" + key, fdps=ser(stream), package=stream_pkg,
                          opts="retry-config=%s,transport=grpc,autogen-snippets=false"
                               % cfg("bad-" + key, data),
                          expect_error=True))
    return cases


def run_tree(tree, tmp, tag, infile):
    outfile = os.path.join(tmp, "out-%s.pkl" % tag)
    worker = os.path.join(tmp, "worker.py")
    env = dict(os.environ, PYTHONHASHSEED="0", PYTHONDONTWRITEBYTECODE="1")
    env.pop("PYTHONPATH", None)
    proc = subprocess.run(
        [sys.executable, worker, tree, infile, outfile],
        cwd=tmp, env=env, stdout=subprocess.PIPE, stderr=subprocess.STDOUT, text=True,
    )
    if proc.returncode != 0:
        print("worker failed for %s tree:\n%s" % (tag, proc.stdout))
        raise SystemExit(2)
    with open(outfile, "rb") as f:
        return pickle.load(f)


def main(argv):
    if len(argv) != 2:
        print(__doc__)
        return 2
    checkout = os.path.realpath(argv[1])
    tmp = tempfile.mkdtemp(prefix="twin-T09-demo-")
    try:
        pristine = os.path.join(tmp, "pristine")
        os.mkdir(pristine)
        archive = subprocess.Popen(["git", "-C", checkout, "archive", "HEAD"],
                                   stdout=subprocess.PIPE)
        subprocess.check_call(["tar", "-x", "-C", pristine], stdin=archive.stdout)
        archive.stdout.close()
        if archive.wait() != 0:
            print("git archive failed")
            return 2

        with open(os.path.join(tmp, "worker.py"), "w") as f:
            f.write(WORKER)
        cases = build_cases(tmp)
        infile = os.path.join(tmp, "cases.pkl")
        with open(infile, "wb") as f:
            pickle.dump(cases, f)

        before = run_tree(pristine, tmp, "pristine", infile)
        after = run_tree(checkout, tmp, "changed", infile)

        problems = []
        n_files = 0
        n_retry_tables = 0
        for case in cases:
            name = case["name"]
            a, b = before[name], after[name]
            if case.get("expect_error"):
                if "__exception__" not in a:
                    problems.append("%s: expected the pristine tree to fail" % name)
            elif "__exception__" in a:
                problems.append("%s: pristine tree failed: %s\n%s"
                                % (name, a["__exception__"], a.get("__traceback__", "")))
            for fn in sorted(set(a) | set(b)):
                n_files += 1
                if fn not in a:
                    problems.append("%s: only in changed tree: %s" % (name, fn))
                elif fn not in b:
                    problems.append("%s: only in pristine tree: %s" % (name, fn))
                elif a[fn] != b[fn]:
                    problems.append("%s: differs: %s" % (name, fn))
                elif "default_retry=" in a[fn]:
                    n_retry_tables += 1

        # Sanity: the inputs really exercise the refactored code.
        if n_retry_tables < 6:
            problems.append("inputs too weak: only %d files with default_retry" % n_retry_tables)

        if problems:
            print("DIFFERENT: %d problem(s)" % len(problems))
            for p in problems:
                print("  " + p)
            return 1
        print("IDENTICAL: %d cases, %d output files compared byte for byte "
              "(%d of them carry default_retry tables)"
              % (len(cases), n_files, n_retry_tables))
        return 0
    finally:
        shutil.rmtree(tmp, ignore_errors=True)


if __name__ == "__main__":
    sys.exit(main(sys.argv))
