#!/usr/bin/env python
"""Equivalence demo for the V19 refactoring (property C19: resource path helpers).

Usage:  /venv/bin/python demo.py <path-to-a-checkout-with-the-change>

* exports the checkout's HEAD (pristine tree) with `git archive`,
* uses the checkout's working tree as the tree with the change,
* builds several API descriptions in Python (no protoc),
* runs the generator on every description with BOTH trees, each in its own
  subprocess (so that the two copies of the `gapic` package never mix),
* compares all emitted files (names and bytes).

Exit status 0 and a one-line summary when everything is identical, 1 (and a
list of differing files) otherwise.
"""

import hashlib
import os
import pickle
import shutil
import subprocess
import sys
import tempfile


# --------------------------------------------------------------------------
# Worker: runs inside a subprocess, with exactly one `gapic` tree importable.
# --------------------------------------------------------------------------
def _isolate(tree):
    """Make `tree` the only provider of the `gapic` package."""
    tree = os.path.realpath(tree)
    assert "gapic" not in sys.modules, "gapic imported too early"
    cwd = os.path.realpath(os.getcwd())

    def provides_gapic(entry):
        if "__editable__" in entry:
            return True
        real = os.path.realpath(entry or cwd)
        if real == tree:
            return False
        return os.path.isdir(os.path.join(real, "gapic"))

    sys.path[:] = [tree] + [
        p for p in sys.path if p not in ("", ".") and not provides_gapic(p)
    ]

    def is_editable_finder(finder):
        name = getattr(finder, "__name__", None) or type(finder).__name__
        module = getattr(finder, "__module__", "") or ""
        return "editable" in name.lower() or "editable" in module.lower()

    sys.meta_path[:] = [f for f in sys.meta_path if not is_editable_finder(f)]
    sys.path_hooks[:] = [
        h
        for h in sys.path_hooks
        if "editable" not in (getattr(h, "__module__", "") or "").lower()
        and "editable" not in (getattr(h, "__qualname__", "") or "").lower()
    ]
    sys.path_importer_cache.clear()
    for name in [m for m in sys.modules if m.startswith("__editable__")]:
        del sys.modules[name]
    return tree


def _check_provenance(tree, template_dirs):
    import gapic

    root = os.path.join(tree, "gapic")
    paths = [os.path.realpath(p) for p in gapic.__path__]
    assert paths == [root], f"gapic.__path__ = {paths}, expected [{root}]"
    loaded = 0
    for name, module in sorted(sys.modules.items()):
        if name != "gapic" and not name.startswith("gapic."):
            continue
        origin = getattr(module, "__file__", None)
        if origin is None:  # namespace package
            origins = [os.path.realpath(p) for p in module.__path__]
        else:
            origins = [os.path.realpath(origin)]
        for origin in origins:
            assert origin == root or origin.startswith(root + os.sep), (
                f"module {name} loaded from {origin}, not from {root}"
            )
        loaded += 1
    assert loaded > 10, "suspiciously few gapic modules loaded"
    for directory in template_dirs:
        real = os.path.realpath(directory)
        assert real.startswith(root + os.sep), (
            f"template directory {real} is outside {root}"
        )
    return loaded


def worker(tree, in_path, out_path):
    tree = _isolate(tree)

    with open(in_path, "rb") as fh:
        job = pickle.load(fh)

    import pypandoc

    if job["stub_pandoc"]:

        def convert_text(source, to, format=None, extra_args=(), **kwargs):
            # Deterministic stand-in (identical for both trees).
            return "\n".join(line.rstrip() for line in str(source).splitlines())

        pypandoc.convert_text = convert_text

    from google.protobuf import descriptor_pb2

    from gapic.generator import generator as generator_module
    from gapic.schema import api as api_module
    from gapic.utils import Options

    results = {}
    template_dirs = set()
    for case in job["cases"]:
        fds = []
        for blob in case["files"]:
            fd = descriptor_pb2.FileDescriptorProto()
            fd.ParseFromString(blob)
            fds.append(fd)
        opts = Options.build(case["options"])
        template_dirs.update(opts.templates)
        api = api_module.API.build(fds, package=case["package"], opts=opts)
        gen = generator_module.Generator(opts)
        template_dirs.update(gen._env.loader.searchpath)
        response = gen.get_response(api, opts)
        files = {}
        for f in response.file:
            assert f.name not in files, f"duplicate output file {f.name}"
            files[f.name] = f.content.encode("utf-8")
        results[case["name"]] = files

    loaded = _check_provenance(tree, template_dirs)
    with open(out_path, "wb") as fh:
        pickle.dump({"results": results, "gapic_modules": loaded}, fh)


# --------------------------------------------------------------------------
# Parent: API descriptions.
# --------------------------------------------------------------------------
def _build_cases():
    from google.api import annotations_pb2, client_pb2, field_behavior_pb2
    from google.api import resource_pb2
    from google.longrunning import operations_pb2
    from google.protobuf import descriptor_pb2 as dpb
    from google.protobuf import empty_pb2  # noqa: F401

    F = dpb.FieldDescriptorProto

    def dependency_closure(*modules):
        """FileDescriptorProtos of the given *_pb2 modules and their imports."""
        seen = {}

        def visit(file_desc):
            if file_desc.name in seen:
                return
            for dep in file_desc.dependencies:
                visit(dep)
            fd = dpb.FileDescriptorProto()
            file_desc.CopyToProto(fd)
            seen[file_desc.name] = fd

        for module in modules:
            visit(module.DESCRIPTOR)
        return list(seen.values())

    well_known = dependency_closure(
        annotations_pb2,
        client_pb2,
        field_behavior_pb2,
        resource_pb2,
        operations_pb2,
        empty_pb2,
    )
    well_known_names = [fd.name for fd in well_known]

    def field(name, number, type_=F.TYPE_STRING, type_name=None, repeated=False,
              ref=None, child_ref=None, required=False, oneof_index=None,
              proto3_optional=False):
        f = F(
            name=name,
            number=number,
            type=type_,
            label=F.LABEL_REPEATED if repeated else F.LABEL_OPTIONAL,
        )
        if type_name:
            f.type_name = type_name
        if ref:
            f.options.Extensions[resource_pb2.resource_reference].type = ref
        if child_ref:
            f.options.Extensions[resource_pb2.resource_reference].child_type = child_ref
        if required:
            f.options.Extensions[field_behavior_pb2.field_behavior].append(
                field_behavior_pb2.REQUIRED
            )
        if oneof_index is not None:
            f.oneof_index = oneof_index
        if proto3_optional:
            f.proto3_optional = True
        return f

    def message(name, fields=(), resource=None, patterns=(), nested=(), oneofs=(),
                map_entry=False, enums=()):
        m = dpb.DescriptorProto(name=name)
        m.field.extend(fields)
        m.nested_type.extend(nested)
        m.enum_type.extend(enums)
        for oneof in oneofs:
            m.oneof_decl.add(name=oneof)
        if resource is not None:
            res = m.options.Extensions[resource_pb2.resource]
            res.type = resource
            res.pattern.extend(patterns)
        if map_entry:
            m.options.map_entry = True
        return m

    def method(name, input_type, output_type, http=None, signature=None,
               client_streaming=False, server_streaming=False, lro=None,
               deprecated=False):
        m = dpb.MethodDescriptorProto(
            name=name,
            input_type=input_type,
            output_type=output_type,
            client_streaming=client_streaming,
            server_streaming=server_streaming,
        )
        if http:
            verb, uri, body = http
            rule = m.options.Extensions[annotations_pb2.http]
            setattr(rule, verb, uri)
            if body:
                rule.body = body
        if signature is not None:
            m.options.Extensions[client_pb2.method_signature].append(signature)
        if lro:
            info = m.options.Extensions[operations_pb2.operation_info]
            info.response_type, info.metadata_type = lro
        if deprecated:
            m.options.deprecated = True
        return m

    def service(name, methods, host="example.googleapis.com", scopes=None):
        s = dpb.ServiceDescriptorProto(name=name)
        s.method.extend(methods)
        if host:
            s.options.Extensions[client_pb2.default_host] = host
        if scopes:
            s.options.Extensions[client_pb2.oauth_scopes] = scopes
        return s

    def file_(name, package, messages=(), services=(), definitions=(), enums=(),
              extra_deps=()):
        fd = dpb.FileDescriptorProto(name=name, package=package, syntax="proto3")
        fd.dependency.extend(well_known_names)
        fd.dependency.extend(extra_deps)
        fd.message_type.extend(messages)
        fd.service.extend(services)
        fd.enum_type.extend(enums)
        for type_, patterns in definitions:
            fd.options.Extensions[resource_pb2.resource_definition].add(
                type=type_, pattern=patterns
            )
        return fd

    def enum(name, *values):
        e = dpb.EnumDescriptorProto(name=name)
        for number, value in enumerate(values):
            e.value.add(name=value, number=number)
        return e

    cases = []

    # ---- Case 1: a library with many pattern shapes, paging, LRO, gRPC + REST.
    pkg = "google.example.library.v1"
    p = "." + pkg + "."
    lib = file_(
        "google/example/library/v1/library.proto",
        pkg,
        definitions=[
            ("pubsub.googleapis.com/Topic", ["projects/{project}/topics/{topic}"]),
            ("example.googleapis.com/Anything", ["*"]),
            ("example.googleapis.com/Unreferenced", ["unreferenced/{unreferenced}"]),
        ],
        enums=[enum("Genre", "GENRE_UNSPECIFIED", "FICTION", "POETRY")],
        messages=[
            message(
                "Book",
                [
                    field("name", 1),
                    field("genre", 2, F.TYPE_ENUM, p + "Genre"),
                    field("topic", 3, ref="pubsub.googleapis.com/Topic"),
                    field("blob", 4, F.TYPE_MESSAGE, p + "Blob"),
                ],
                resource="library.googleapis.com/Book",
                patterns=["shelves/{shelf}/books/{book}", "archives/{archive}/books/{book}"],
            ),
            message(
                "Shelf",
                [field("name", 1), field("theme", 2)],
                resource="library.googleapis.com/Shelf",
                patterns=["shelves/{shelf}"],
            ),
            message(
                "Blob",
                [field("name", 1), field("data", 2, F.TYPE_BYTES)],
                resource="library.googleapis.com/Blob",
                patterns=["buckets/{bucket}/objects/{object=**}"],
            ),
            message(
                "Compound",
                [field("name", 1)],
                resource="library.googleapis.com/CompoundThing",
                patterns=["as/{a}-{b}/cs/{c}.{d}_{e}~{f}"],
            ),
            message(
                "Settings",
                [field("name", 1)],
                resource="library.googleapis.com/Settings",
                patterns=["projects/{project}/locations/{location}/settings"],
            ),
            message(
                "GetBookRequest",
                [field("name", 1, ref="library.googleapis.com/Book", required=True)],
            ),
            message(
                "ListBooksRequest",
                [
                    field("parent", 1, child_ref="library.googleapis.com/Book", required=True),
                    field("page_size", 2, F.TYPE_INT32),
                    field("page_token", 3),
                    field("anything", 4, ref="example.googleapis.com/Anything"),
                    field("star", 5, ref="*"),
                    field("project", 6, ref="cloudresourcemanager.googleapis.com/Project"),
                ],
            ),
            message(
                "ListBooksResponse",
                [
                    field("books", 1, F.TYPE_MESSAGE, p + "Book", repeated=True),
                    field("next_page_token", 2),
                ],
            ),
            message(
                "GetCompoundRequest",
                [
                    field("name", 1, ref="library.googleapis.com/CompoundThing"),
                    field("settings", 2, ref="library.googleapis.com/Settings"),
                ],
            ),
            message(
                "MoveBookRequest",
                [
                    field("name", 1, ref="library.googleapis.com/Book"),
                    field("other_shelf", 2, ref="library.googleapis.com/Shelf"),
                ],
            ),
            message("MoveBookMetadata", [field("progress", 1, F.TYPE_INT32)]),
        ],
        services=[
            service(
                "Library",
                [
                    method("GetBook", p + "GetBookRequest", p + "Book",
                           http=("get", "/v1/{name=shelves/*/books/*}", None),
                           signature="name"),
                    method("ListBooks", p + "ListBooksRequest", p + "ListBooksResponse",
                           http=("get", "/v1/{parent=shelves/*}/books", None),
                           signature="parent"),
                    method("GetCompound", p + "GetCompoundRequest", p + "Compound",
                           http=("get", "/v1/{name=as/*/cs/*}", None)),
                    method("MoveBook", p + "MoveBookRequest",
                           ".google.longrunning.Operation",
                           http=("post", "/v1/{name=shelves/*/books/*}:move", "*"),
                           lro=("Shelf", "MoveBookMetadata")),
                ],
                host="library.googleapis.com",
                scopes="https://www.googleapis.com/auth/cloud-platform,"
                       "https://www.googleapis.com/auth/library",
            )
        ],
    )
    cases.append(dict(name="library-default", files=well_known + [lib], package=pkg,
                      options=""))
    cases.append(dict(name="library-rest-numeric", files=well_known + [lib], package=pkg,
                      options="transport=rest,rest-numeric-enums,autogen-snippets=false"))

    # ---- Case 2: no resources at all, streaming, gRPC only.
    pkg = "google.example.stream.v1"
    p = "." + pkg + "."
    stream = file_(
        "google/example/stream/v1/stream.proto",
        pkg,
        messages=[
            message("Chunk", [field("data", 1, F.TYPE_BYTES), field("index", 2, F.TYPE_INT64)]),
            message("Summary", [field("count", 1, F.TYPE_INT32)]),
        ],
        services=[
            service(
                "Streamer",
                [
                    method("Upload", p + "Chunk", p + "Summary", client_streaming=True),
                    method("Download", p + "Summary", p + "Chunk", server_streaming=True),
                    method("Chat", p + "Chunk", p + "Chunk", client_streaming=True,
                           server_streaming=True),
                    method("Ping", p + "Summary", ".google.protobuf.Empty", deprecated=True),
                ],
                host="",
            )
        ],
    )
    cases.append(dict(name="stream-grpc", files=well_known + [stream], package=pkg,
                      options="transport=grpc"))

    # ---- Case 3: two files / two services, a sub-package, odd names.
    pkg = "google.example.multi.v1"
    p = "." + pkg + "."
    common = file_(
        "google/example/multi/v1/resources.proto",
        pkg,
        definitions=[
            # Same short type name as a message resource below, other domain.
            ("other.googleapis.com/Thing", ["others/{other}/things/{thing}"]),
            ("multi.googleapis.com/lower_case-kind", ["kinds/{kind-id}"]),
        ],
        messages=[
            message(
                "Thing",
                [
                    field("name", 1),
                    field("labels", 2, F.TYPE_MESSAGE, p + "Thing.LabelsEntry", repeated=True),
                    field("text", 3, oneof_index=0),
                    field("number", 4, F.TYPE_INT64, oneof_index=0),
                    field("child", 5, F.TYPE_MESSAGE, p + "Thing"),
                    field("inner", 6, F.TYPE_MESSAGE, p + "Thing.Inner"),
                    field("maybe", 7, oneof_index=1, proto3_optional=True),
                ],
                resource="multi.googleapis.com/Thing",
                patterns=["things/{thing}", "projects/{project}/things/{thing}"],
                nested=[
                    message("LabelsEntry", [field("key", 1), field("value", 2)],
                            map_entry=True),
                    message(
                        "Inner",
                        [field("name", 1),
                         field("widgets", 2, F.TYPE_MESSAGE,
                               p + "Thing.Inner.WidgetsEntry", repeated=True)],
                        resource="multi.googleapis.com/InnerThing",
                        patterns=["things/{thing}/inners/{inner_thing}"],
                        nested=[
                            message(
                                "WidgetsEntry",
                                [field("key", 1),
                                 field("value", 2, F.TYPE_MESSAGE, p + "Widget")],
                                map_entry=True,
                            )
                        ],
                    ),
                ],
                oneofs=["payload", "_maybe"],
            ),
            message(
                "Widget",
                [field("name", 1)],
                resource="multi.googleapis.com/HTTPWidget",
                patterns=["classes/{class}/from/{from_}/widgets/{http_widget}"],
            ),
            message(
                "Patternless",
                [field("name", 1)],
                resource="multi.googleapis.com/Patternless",
                patterns=[],
            ),
            message(
                "NoSlashType",
                [field("name", 1)],
                resource="NoSlashType",
                patterns=["noslash/{no_slash}"],
            ),
        ],
    )
    sub_pkg = pkg + ".admin"
    sp = "." + sub_pkg + "."
    admin = file_(
        "google/example/multi/v1/admin/admin.proto",
        sub_pkg,
        extra_deps=[common.name],
        messages=[
            message(
                "AuditRequest",
                [
                    field("thing", 1, ref="multi.googleapis.com/Thing"),
                    field("other_thing", 2, ref="other.googleapis.com/Thing"),
                    field("kind", 3, ref="multi.googleapis.com/lower_case-kind"),
                    field("patternless", 4, ref="multi.googleapis.com/Patternless"),
                    field("unknown", 5, ref="multi.googleapis.com/DoesNotExist"),
                    field("noslash", 6, child_ref="NoSlashType"),
                    field("location", 7, ref="locations.googleapis.com/Location"),
                ],
            ),
            message("AuditResponse", [field("widget", 1, F.TYPE_MESSAGE, p + "Widget")]),
        ],
        services=[
            service(
                "Auditor",
                [
                    method("Audit", sp + "AuditRequest", sp + "AuditResponse",
                           http=("post", "/v1/audit", "*"), signature="thing,kind"),
                ],
                host="multi.googleapis.com:443",
            ),
        ],
    )
    things = file_(
        "google/example/multi/v1/things.proto",
        pkg,
        extra_deps=[common.name],
        messages=[
            message("GetThingRequest",
                    [field("name", 1, ref="multi.googleapis.com/Thing", required=True)]),
            message("DeleteThingRequest", [field("name", 1)]),
        ],
        services=[
            service(
                "ThingService",
                [
                    method("GetThing", p + "GetThingRequest", p + "Thing",
                           http=("get", "/v1/{name=things/*}", None), signature="name"),
                    method("DeleteThing", p + "DeleteThingRequest", ".google.protobuf.Empty",
                           http=("delete", "/v1/{name=things/*}", None), signature=""),
                ],
                host="multi.googleapis.com",
            ),
            service(
                "EmptyService",
                [],
                host="multi.googleapis.com",
            ),
        ],
    )
    multi_files = well_known + [common, things, admin]
    cases.append(dict(name="multi-default", files=multi_files, package=pkg,
                      options="autogen-snippets=false"))
    cases.append(dict(name="multi-rest", files=multi_files, package=pkg,
                      options="transport=rest,autogen-snippets=false"))

    # ---- Case 4: resources reachable only through an LRO result, old naming.
    pkg = "google.example.ops.v2beta1"
    p = "." + pkg + "."
    ops = file_(
        "google/example/ops/v2beta1/ops.proto",
        pkg,
        messages=[
            message(
                "Report",
                [field("name", 1),
                 field("sections", 2, F.TYPE_MESSAGE, p + "Section", repeated=True)],
                resource="ops.googleapis.com/Report",
                patterns=["organizations/{organization}/reports/{report}"],
            ),
            message(
                "Section",
                [field("name", 1),
                 field("parent_report", 2, ref="ops.googleapis.com/Report"),
                 field("folder", 3, ref="cloudresourcemanager.googleapis.com/Folder")],
                resource="ops.googleapis.com/Section",
                patterns=["organizations/{organization}/reports/{report}/sections/{section=**}"],
            ),
            message("Wrapper", [field("report", 1, F.TYPE_MESSAGE, p + "Report")]),
            message("StartRequest", [field("scope", 1), field("count", 2, F.TYPE_INT32)]),
            message("Progress", [field("percent", 1, F.TYPE_INT32)]),
        ],
        services=[
            service(
                "Reporter",
                [
                    method("Start", p + "StartRequest", ".google.longrunning.Operation",
                           http=("post", "/v2beta1/reports:start", "*"),
                           lro=(pkg + ".Wrapper", pkg + ".Progress"),
                           signature="scope,count"),
                ],
                host="ops.googleapis.com",
            )
        ],
    )
    cases.append(dict(name="ops-lro", files=well_known + [ops], package=pkg,
                      options="rest-numeric-enums"))
    cases.append(dict(name="ops-lro-old-naming", files=well_known + [ops], package=pkg,
                      options="old-naming,transport=grpc,autogen-snippets=false"))

    for case in cases:
        case["files"] = [fd.SerializeToString(deterministic=True) for fd in case["files"]]
    return cases


def _pandoc_missing():
    try:
        import pypandoc

        pypandoc.convert_text("*x*", "rst", format="commonmark")
        return False
    except Exception:
        return True


def main(argv):
    if len(argv) != 2:
        print(__doc__)
        return 2
    checkout = os.path.realpath(argv[1])
    tmp = tempfile.mkdtemp(prefix="v19-demo-")
    try:
        pristine = os.path.join(tmp, "pristine")
        changed = checkout  # the tree under test: the checkout's working tree
        os.mkdir(pristine)
        archive = subprocess.Popen(
            ["git", "-C", checkout, "archive", "HEAD"], stdout=subprocess.PIPE
        )
        subprocess.check_call(["tar", "-x", "-C", pristine], stdin=archive.stdout)
        archive.stdout.close()
        if archive.wait() != 0:
            raise RuntimeError("git archive failed")

        cases = _build_cases()
        job_path = os.path.join(tmp, "job.pkl")
        with open(job_path, "wb") as fh:
            pickle.dump({"cases": cases, "stub_pandoc": _pandoc_missing()}, fh)

        outputs = {}
        env = dict(os.environ, PYTHONHASHSEED="0", PYTHONDONTWRITEBYTECODE="1")
        env.pop("PYTHONPATH", None)
        for label, tree in (("pristine", pristine), ("changed", changed)):
            out_path = os.path.join(tmp, label + ".pkl")
            proc = subprocess.run(
                [sys.executable, os.path.abspath(__file__), "--worker", tree, job_path,
                 out_path],
                cwd=tmp,
                env=env,
                stdout=subprocess.PIPE,
                stderr=subprocess.STDOUT,
                text=True,
            )
            if proc.returncode != 0:
                print(f"worker for the {label} tree failed:\n{proc.stdout}")
                return 1
            with open(out_path, "rb") as fh:
                outputs[label] = pickle.load(fh)

        # Which source files differ between the two trees (informational).
        changed_sources = []
        for dirpath, _, filenames in os.walk(os.path.join(changed, "gapic")):
            for filename in filenames:
                if filename.endswith(".pyc"):
                    continue
                path = os.path.join(dirpath, filename)
                rel = os.path.relpath(path, changed)
                other = os.path.join(pristine, rel)
                if not os.path.exists(other) or open(path, "rb").read() != open(other, "rb").read():
                    changed_sources.append(rel)

        differences = []
        total_files = 0
        helper_defs = 0
        digest = hashlib.sha256()
        a_all, b_all = outputs["pristine"]["results"], outputs["changed"]["results"]
        if sorted(a_all) != sorted(b_all):
            differences.append("case lists differ")
        for case in sorted(set(a_all) & set(b_all)):
            a, b = a_all[case], b_all[case]
            for name in sorted(set(a) | set(b)):
                total_files += 1
                if name not in a:
                    differences.append(f"{case}: {name} only with the change")
                elif name not in b:
                    differences.append(f"{case}: {name} only in the pristine tree")
                elif a[name] != b[name]:
                    differences.append(f"{case}: {name} differs")
                else:
                    digest.update(name.encode() + b"\0" + a[name])
                    if name.endswith("client.py"):
                        helper_defs += a[name].count(b"_path(")
                        helper_defs += a[name].count(b"_path = staticmethod(")

        if differences:
            print(f"DIFFERENT: {len(differences)} difference(s) in {total_files} files")
            for line in differences:
                print("  " + line)
            return 1
        if helper_defs < 100:
            print(f"suspicious: only {helper_defs} path helper lines were generated")
            return 1
        print(
            f"IDENTICAL: {len(a_all)} API cases, {total_files} output files, "
            f"{helper_defs} path-helper lines compared byte for byte "
            f"(sha256 {digest.hexdigest()[:16]}); "
            f"{len(changed_sources)} changed source file(s): {', '.join(sorted(changed_sources)) or '-'}"
        )
        return 0
    finally:
        shutil.rmtree(tmp, ignore_errors=True)


if __name__ == "__main__":
    if len(sys.argv) >= 2 and sys.argv[1] == "--worker":
        worker(*sys.argv[2:5])
        sys.exit(0)
    sys.exit(main(sys.argv))
