#!/usr/bin/env python
"""Twin V07 (property C07, pagination): show that the refactoring leaves the generator's output unchanged.

Usage:  /venv/bin/python demo.py <path-to-a-checkout-with-the-change>

  before = `git archive HEAD` of the checkout (pristine sources)
  after  = the checkout's working tree (its gapic/ directory, copied)

Six API descriptions are generated with both trees, each tree in its own subprocess
(only that tree's `gapic` is importable there).  Compared byte for byte:
  * every file of the CodeGeneratorResponse (names and contents), and
  * every raw template rendering, i.e. the text *before* the generator's
    `formatter.fix_whitespace` post-processing (which could mask blank-line changes).
Exit 0 + one summary line if identical, exit 1 + the differing files otherwise.
"""
import hashlib
import os
import pickle
import shutil
import subprocess
import sys
import tempfile

# ----------------------------------------------------------------------------------------------
# Worker (runs in a subprocess; argv: tree, cases.pickle, result.pickle)
# ----------------------------------------------------------------------------------------------
WORKER = r'''
import importlib, os, pickle, sys

tree, in_path, out_path = sys.argv[1:4]
tree = os.path.realpath(tree)
assert os.path.isfile(os.path.join(tree, "gapic", "schema", "wrappers.py")), tree


def provides_gapic(entry):
    if "__editable__" in entry or entry.endswith(".pth"):
        return True
    try:
        return os.path.isdir(os.path.join(entry or os.getcwd(), "gapic"))
    except OSError:
        return False


# The tree under test is FIRST on sys.path; every other provider of `gapic` is dropped
# (the venv has an editable install of another checkout: path entries, meta-path finders, hooks).
sys.path[:] = [tree] + [e for e in sys.path if os.path.realpath(e or ".") != tree and not provides_gapic(e)]


def is_editable_finder(obj):
    text = (getattr(obj, "__module__", "") or "") + " " + repr(obj) + " " + getattr(obj, "__name__", "")
    return "editable" in text.lower()


sys.meta_path[:] = [f for f in sys.meta_path if not is_editable_finder(f)]
sys.path_hooks[:] = [h for h in sys.path_hooks if not is_editable_finder(h)]
sys.path_importer_cache.clear()
for mod_name in [m for m in sys.modules if m == "gapic" or m.startswith("gapic.") or "__editable__" in m]:
    del sys.modules[mod_name]
importlib.invalidate_caches()

# pandoc is not installed here: the same deterministic stub is used for both trees.
import pypandoc


def fake_convert_text(source, to, format=None, extra_args=(), **kwargs):
    return "[%s->%s %s] %s" % (format, to, " ".join(extra_args), source)


pypandoc.convert_text = fake_convert_text

from google.protobuf import descriptor_pb2
import gapic
from gapic.schema import api as api_mod
from gapic.generator import generator as generator_mod
from gapic.generator import formatter as formatter_mod
from gapic.utils import Options

gapic_origin = getattr(gapic, "__file__", None) or list(gapic.__path__)[0]
assert os.path.realpath(gapic_origin).startswith(tree + os.sep), gapic_origin
assert all(os.path.realpath(d).startswith(tree + os.sep) for d in gapic.__path__), list(gapic.__path__)

# Record the raw renderings (input of fix_whitespace) as well as the final files.
raw = []
real_fix_whitespace = formatter_mod.fix_whitespace
assert generator_mod.formatter is formatter_mod


def recording_fix_whitespace(code):
    raw.append(code)
    return real_fix_whitespace(code)


formatter_mod.fix_whitespace = recording_fix_whitespace

with open(in_path, "rb") as fh:
    cases = pickle.load(fh)

results = {}
for case in cases:
    protos = [descriptor_pb2.FileDescriptorProto.FromString(blob) for blob in case["files"]]
    opts = Options.build(case["opts"])
    for template_dir in opts.templates:
        assert os.path.realpath(template_dir).startswith(tree + os.sep), (template_dir, tree)
    schema = api_mod.API.build(protos, package=case["package"], opts=opts)
    gen = generator_mod.Generator(opts)
    for search_dir in gen._env.loader.searchpath:
        assert os.path.realpath(search_dir).startswith(tree + os.sep), (search_dir, tree)
    response = gen.get_response(schema, opts)
    out = {}
    for f in response.file:
        assert f.name not in out, f.name
        out[f.name] = f.content
    assert len(raw) >= len(out), (len(raw), len(out))
    for index, code in enumerate(raw):
        out["<raw>/%05d" % index] = code
    del raw[:]
    results[case["name"]] = out

# Every loaded gapic module comes from the tree under test.
checked = 0
for mod_name, mod in sorted(sys.modules.items()):
    if mod_name == "gapic" or mod_name.startswith("gapic."):
        origin = getattr(mod, "__file__", None) or list(getattr(mod, "__path__", ["<none>"]))[0]
        assert os.path.realpath(origin).startswith(tree + os.sep), (mod_name, origin, tree)
        checked += 1
assert checked > 10, checked

with open(out_path, "wb") as fh:
    pickle.dump(results, fh)
'''

# ----------------------------------------------------------------------------------------------
# Descriptors (built in the parent, which never imports gapic)
# ----------------------------------------------------------------------------------------------
from google.protobuf import descriptor_pb2 as dpb  # noqa: E402
from google.protobuf import descriptor_pool  # noqa: E402
from google.api import annotations_pb2, client_pb2, field_behavior_pb2, resource_pb2  # noqa: E402
from google.longrunning import operations_pb2  # noqa: E402
from google.protobuf import empty_pb2, wrappers_pb2, struct_pb2, field_mask_pb2  # noqa: E402,F401

FD = dpb.FieldDescriptorProto
OPTIONAL, REQUIRED, REPEATED = FD.LABEL_OPTIONAL, FD.LABEL_REQUIRED, FD.LABEL_REPEATED
T = FD  # T.TYPE_STRING etc.

ANN = "google/api/annotations.proto"
CLI = "google/api/client.proto"
FB = "google/api/field_behavior.proto"
RES = "google/api/resource.proto"
LRO = "google/longrunning/operations.proto"
EMPTY = "google/protobuf/empty.proto"
WRAP = "google/protobuf/wrappers.proto"
STRUCT = "google/protobuf/struct.proto"


def field(name, number, ftype, label=OPTIONAL, type_name=None, oneof=None, optional=False, required=False):
    f = FD(name=name, number=number, type=ftype, label=label, json_name=name)
    if type_name:
        f.type_name = type_name
    if oneof is not None:
        f.oneof_index = oneof
    if optional:
        f.proto3_optional = True
    if required:
        f.options.Extensions[field_behavior_pb2.field_behavior].append(field_behavior_pb2.REQUIRED)
    return f


def s(name, number, **kw):
    return field(name, number, T.TYPE_STRING, **kw)


def i32(name, number, **kw):
    return field(name, number, T.TYPE_INT32, **kw)


def m(name, number, type_name, **kw):
    return field(name, number, T.TYPE_MESSAGE, type_name=type_name, **kw)


def message(name, fields=(), nested=(), enums=(), oneofs=(), resource=None):
    d = dpb.DescriptorProto(name=name)
    d.field.extend(fields)
    d.nested_type.extend(nested)
    d.enum_type.extend(enums)
    for o in oneofs:
        d.oneof_decl.add(name=o)
    if resource:
        r = d.options.Extensions[resource_pb2.resource]
        r.type = resource[0]
        r.pattern.append(resource[1])
    return d


def map_entry(name, value_type, value_type_name=None, key_type=T.TYPE_STRING):
    d = dpb.DescriptorProto(name=name)
    d.field.append(field("key", 1, key_type))
    d.field.append(field("value", 2, value_type, type_name=value_type_name))
    d.options.map_entry = True
    return d


def enum(name, *values):
    e = dpb.EnumDescriptorProto(name=name)
    for number, value in enumerate(values):
        e.value.add(name=value, number=number)
    return e


def rpc(name, inp, out, http=None, sigs=(), client_streaming=False, server_streaming=False, lro=None,
        deprecated=False):
    d = dpb.MethodDescriptorProto(name=name, input_type=inp, output_type=out,
                                  client_streaming=client_streaming, server_streaming=server_streaming)
    if http:
        verb, path, body = http
        rule = d.options.Extensions[annotations_pb2.http]
        setattr(rule, verb, path)
        if body:
            rule.body = body
    for sig in sigs:
        d.options.Extensions[client_pb2.method_signature].append(sig)
    if lro:
        info = d.options.Extensions[operations_pb2.operation_info]
        info.response_type, info.metadata_type = lro
    if deprecated:
        d.options.deprecated = True
    return d


def service(name, methods, host="svc.example.com", scopes="https://www.googleapis.com/auth/cloud-platform"):
    d = dpb.ServiceDescriptorProto(name=name)
    d.method.extend(methods)
    if host:
        d.options.Extensions[client_pb2.default_host] = host
    if scopes:
        d.options.Extensions[client_pb2.oauth_scopes] = scopes
    return d


def proto_file(name, package, deps=(), messages=(), services=(), enums=(), comments=None, syntax="proto3"):
    d = dpb.FileDescriptorProto(name=name, package=package, syntax=syntax)
    d.dependency.extend(deps)
    d.message_type.extend(messages)
    d.service.extend(services)
    d.enum_type.extend(enums)
    for path, text in (comments or {}).items():
        loc = d.source_code_info.location.add()
        loc.path.extend(path)
        loc.leading_comments = text
    return d


def closure(files):
    """Serialized files, preceded by their well-known transitive dependencies (dependency order)."""
    own = {f.name for f in files}
    pool = descriptor_pool.Default()
    ordered, seen = [], set()

    def visit(name):
        if name in seen or name in own:
            return
        seen.add(name)
        fd = pool.FindFileByName(name)
        for dep in fd.dependencies:
            visit(dep.name)
        ordered.append(dpb.FileDescriptorProto.FromString(fd.serialized_pb))

    for f in files:
        for dep in f.dependency:
            visit(dep)
    return [f.SerializeToString(deterministic=True) for f in ordered + list(files)]


# -- case 1 ------------------------------------------------------------------------------------
def case_catalog():
    """Default options (grpc+rest, snippets): message / map / scalar item fields next to unary, void,
    LRO and streaming methods; a second service without any paged method (empty pagers module)."""
    p = ".shop.catalog.v1."
    msgs = [
        message("Product", [s("name", 1), s("title", 2), i32("class", 3)],
                resource=("shop.example.com/Product", "shelves/{shelf}/products/{product}")),
        message("ListProductsRequest", [s("parent", 1, required=True), i32("page_size", 2), s("page_token", 3),
                                        s("order_by", 4)]),
        message("ListProductsResponse", [m("products", 1, p + "Product", label=REPEATED), s("next_page_token", 2),
                                         s("unreachable", 3, label=REPEATED)]),
        # map valued items: message values
        message("ListPricesRequest", [i32("page_size", 1), s("page_token", 2)]),
        message("ListPricesResponse", [s("next_page_token", 1),
                                       m("prices", 2, p + "ListPricesResponse.PricesEntry", label=REPEATED)],
                nested=[map_entry("PricesEntry", T.TYPE_MESSAGE, p + "Product")]),
        # map valued items: scalar values
        message("ListStockResponse", [m("stock", 1, p + "ListStockResponse.StockEntry", label=REPEATED),
                                      s("next_page_token", 2)],
                nested=[map_entry("StockEntry", T.TYPE_INT64)]),
        # repeated scalar items
        message("ListTagsResponse", [s("tags", 1, label=REPEATED), s("next_page_token", 2),
                                     m("products", 3, p + "Product", label=REPEATED)]),
        message("GetProductRequest", [s("name", 1)]),
        message("ReindexMetadata", [i32("percent", 1)]),
    ]
    catalog = service("Catalog", [
        rpc("ListProducts", p + "ListProductsRequest", p + "ListProductsResponse",
            http=("get", "/v1/{parent=shelves/*}/products", None), sigs=["parent", "parent,order_by"]),
        rpc("ListPrices", p + "ListPricesRequest", p + "ListPricesResponse", http=("get", "/v1/prices", None)),
        rpc("ListStock", p + "ListPricesRequest", p + "ListStockResponse", http=("post", "/v1/stock:list", "*")),
        rpc("ListTags", p + "ListPricesRequest", p + "ListTagsResponse", http=("get", "/v1/tags", None),
            deprecated=True),
        rpc("GetProduct", p + "GetProductRequest", p + "Product",
            http=("get", "/v1/{name=shelves/*/products/*}", None), sigs=["name"]),
        rpc("DeleteProduct", p + "GetProductRequest", ".google.protobuf.Empty",
            http=("delete", "/v1/{name=shelves/*/products/*}", None)),
        rpc("Reindex", p + "GetProductRequest", ".google.longrunning.Operation",
            http=("post", "/v1/{name=shelves/*/products/*}:reindex", "*"), lro=("Product", "ReindexMetadata")),
        rpc("WatchProducts", p + "ListProductsRequest", p + "ListProductsResponse", server_streaming=True,
            http=("get", "/v1/{parent=shelves/*}/products:watch", None)),
        rpc("PushProducts", p + "ListProductsRequest", p + "ListProductsResponse", client_streaming=True),
        rpc("SyncProducts", p + "ListProductsRequest", p + "ListProductsResponse", client_streaming=True,
            server_streaming=True),
    ], host="catalog.example.com")
    plain = service("Health", [rpc("Check", p + "GetProductRequest", p + "Product", http=("get", "/v1/health", None))])
    comments = {
        (4, 1): "Request for `ListProducts`.\n\n* first\n* second",
        (4, 2): "Response of [ListProducts][shop.catalog.v1.Catalog.ListProducts].",
        (6, 0): "The *catalog*.",
        (6, 0, 2, 0): "Lists products, page by page (`page_token`).",
    }
    fd = proto_file("shop/catalog/v1/catalog.proto", "shop.catalog.v1", [ANN, CLI, FB, RES, LRO, EMPTY], msgs,
                    [catalog, plain], comments=comments)
    return dict(name="catalog-default", package="shop.catalog.v1", opts="", files=closure([fd]))


# -- case 2 ------------------------------------------------------------------------------------
def case_classification():
    """Every branch of the classification: max_results vs page_size, wrapper types (allowed and not),
    wrong token types, missing fields, enum/float/bool sizes; gRPC only, no snippets."""
    p = ".acme.bq.v2."
    item = p + "Row"
    ok_resp = p + "RowsResponse"
    msgs = [
        message("Row", [field("id", 1, T.TYPE_INT64), s("from", 2)]),
        message("RowsResponse", [m("rows", 1, item, label=REPEATED), s("next_page_token", 2)]),
        message("ReqPageSizeI32", [i32("page_size", 1), s("page_token", 2)]),
        message("ReqPageSizeI64", [field("page_size", 1, T.TYPE_INT64), s("page_token", 2)]),
        message("ReqPageSizeU32", [field("page_size", 1, T.TYPE_UINT32), s("page_token", 2)]),
        message("ReqPageSizeSfixed", [field("page_size", 1, T.TYPE_SFIXED64), s("page_token", 2)]),
        message("ReqMaxResultsI32", [i32("max_results", 1), s("page_token", 2)]),
        message("ReqMaxResultsUInt32Value", [m("max_results", 1, ".google.protobuf.UInt32Value"), s("page_token", 2)]),
        message("ReqMaxResultsInt32Value", [m("max_results", 1, ".google.protobuf.Int32Value"), s("page_token", 2)]),
        message("ReqPageSizeInt32Value", [m("page_size", 1, ".google.protobuf.Int32Value"), s("page_token", 2)]),
        # max_results wins over page_size: wrong-typed max_results + good page_size -> not paged
        message("ReqBothBadMax", [s("max_results", 1), i32("page_size", 2), s("page_token", 3)]),
        message("ReqBothGood", [i32("page_size", 1), i32("max_results", 2), s("page_token", 3)]),
        # not allowed
        message("ReqMaxResultsInt64Value", [m("max_results", 1, ".google.protobuf.Int64Value"), s("page_token", 2)]),
        message("ReqMaxResultsBoolValue", [m("max_results", 1, ".google.protobuf.BoolValue"), s("page_token", 2)]),
        message("ReqMaxResultsOwnMsg", [m("max_results", 1, p + "UInt32Value"), s("page_token", 2)]),
        message("UInt32Value", [field("value", 1, T.TYPE_UINT32)]),  # same simple name, other package: allowed
        message("ReqSizeString", [s("page_size", 1), s("page_token", 2)]),
        message("ReqSizeFloat", [field("page_size", 1, T.TYPE_DOUBLE), s("page_token", 2)]),
        message("ReqSizeBool", [field("page_size", 1, T.TYPE_BOOL), s("page_token", 2)]),
        message("ReqSizeEnum", [field("page_size", 1, T.TYPE_ENUM, type_name=p + "Size"), s("page_token", 2)]),
        message("ReqTokenBytes", [i32("page_size", 1), field("page_token", 2, T.TYPE_BYTES)]),
        message("ReqTokenInt", [i32("page_size", 1), i32("page_token", 2)]),
        message("ReqNoToken", [i32("page_size", 1)]),
        message("ReqNoSize", [s("page_token", 2)]),
        message("ReqRepeatedSize", [i32("page_size", 1, label=REPEATED), s("page_token", 2)]),
        message("RespNoRepeated", [m("row", 1, item), s("next_page_token", 2)]),
        message("RespNoNextToken", [m("rows", 1, item, label=REPEATED)]),
        message("RespNextTokenInt", [m("rows", 1, item, label=REPEATED), i32("next_page_token", 2)]),
        message("RespRepeatedToken", [s("next_page_token", 1, label=REPEATED)]),
        # (repeated *enum* items are left out: the pristine pagers.py.j2 itself fails to render them -
        #  `paged_result_field.message` is None - so there is no output to compare, with either tree)
        message("RespBytesItems", [s("next_page_token", 1), field("chunks", 2, T.TYPE_BYTES, label=REPEATED)]),
    ]
    reqs = [d.name for d in msgs if d.name.startswith("Req")]
    resps = [d.name for d in msgs if d.name.startswith("Resp")]
    methods = [rpc("Call" + name[3:], p + name, ok_resp) for name in reqs]
    methods += [rpc("Fetch" + name[4:], p + "ReqPageSizeI32", p + name) for name in resps]
    methods.append(rpc("PagedButVoid", p + "ReqPageSizeI32", ".google.protobuf.Empty"))
    fd = proto_file("acme/bq/v2/bq.proto", "acme.bq.v2", [CLI, WRAP, EMPTY], msgs,
                    [service("Tables", methods), service("NoPaging", [rpc("Echo", item, item)])],
                    enums=[enum("Size", "SIZE_UNSPECIFIED", "S", "L")])
    return dict(name="classification-grpc", package="acme.bq.v2", opts="transport=grpc,autogen-snippets=false",
                files=closure([fd]))


# -- case 3 ------------------------------------------------------------------------------------
def case_subpackages_rest():
    """REST only (no async pagers), numeric enums; sub-packages, items / requests from other files and
    from another package, several services with paged methods, oneofs / maps / repeated request fields."""
    common = proto_file("corp/fleet/v1/common/things.proto", "corp.fleet.v1.common", [],
                        [message("Thing", [s("name", 1),
                                           field("kind", 2, T.TYPE_ENUM, type_name=".corp.fleet.v1.common.Kind")])],
                        enums=[enum("Kind", "KIND_UNSPECIFIED", "SMALL", "LARGE")])
    p = ".corp.fleet.v1.inventory."
    inv = proto_file(
        "corp/fleet/v1/inventory/inventory.proto", "corp.fleet.v1.inventory",
        [ANN, CLI, STRUCT, "corp/fleet/v1/common/things.proto"],
        [
            message("ScanRequest", [i32("page_size", 1), s("page_token", 2), s("parent", 3),
                                    s("tags", 4, label=REPEATED),
                                    m("labels", 5, p + "ScanRequest.LabelsEntry", label=REPEATED),
                                    s("by_name", 6, oneof=0), field("by_id", 7, T.TYPE_INT64, oneof=0),
                                    s("hint", 8, oneof=1, optional=True),
                                    m("extra", 9, ".google.protobuf.Value", label=REPEATED)],
                    nested=[map_entry("LabelsEntry", T.TYPE_STRING)], oneofs=["selector", "_hint"]),
            message("ScanResponse", [s("next_page_token", 1), m("things", 2, ".corp.fleet.v1.common.Thing", label=REPEATED),
                                     i32("total", 3)]),
            message("ListValuesResponse", [m("values", 1, ".google.protobuf.Value", label=REPEATED),
                                           s("next_page_token", 2)]),
            message("ListScoresResponse", [field("scores", 1, T.TYPE_DOUBLE, label=REPEATED), s("next_page_token", 2)]),
        ],
        [service("Inventory", [
            rpc("Scan", p + "ScanRequest", p + "ScanResponse", http=("post", "/v1/{parent=fleets/*}/things:scan", "*"),
                sigs=["parent,tags,labels,extra"]),
            rpc("ListValues", p + "ScanRequest", p + "ListValuesResponse", http=("get", "/v1/values", None)),
            rpc("ListScores", p + "ScanRequest", p + "ListScoresResponse", http=("get", "/v1/scores", None)),
        ], host="fleet.example.com:8443"),
         service("Yield", [rpc("List", p + "ScanRequest", p + "ScanResponse", http=("get", "/v1/yield", None))])])
    q = ".corp.fleet.v1."
    top = proto_file("corp/fleet/v1/fleet.proto", "corp.fleet.v1",
                     [ANN, CLI, "corp/fleet/v1/common/things.proto", "corp/fleet/v1/inventory/inventory.proto"],
                     [message("ListFleetRequest", [s("page_token", 1), i32("page_size", 2)]),
                      message("ListFleetResponse", [s("next_page_token", 1),
                                                    m("fleet", 2, ".corp.fleet.v1.common.Thing", label=REPEATED)])],
                     [service("FleetService", [
                         rpc("ListFleet", q + "ListFleetRequest", q + "ListFleetResponse", http=("get", "/v1/fleet", None)),
                         # request and response both live in the sub-package
                         rpc("ScanAll", p + "ScanRequest", p + "ScanResponse", http=("post", "/v1/fleet:scan", "*"),
                             sigs=["tags", "labels"]),
                     ])])
    return dict(name="subpackages-rest", package="corp.fleet.v1",
                opts="transport=rest,rest-numeric-enums,autogen-snippets=false", files=closure([common, inv, top]))


# -- case 4 ------------------------------------------------------------------------------------
def case_proto2_labels():
    """proto2 file: `required` / `optional` / `repeated` labels around the paging fields; names that collide
    with the generated method's own parameters; two paged methods sharing request and response."""
    p = ".solo.notes."
    msgs = [
        message("Note", [s("text", 1, label=REQUIRED)]),
        message("ListNotesRequest", [i32("page_size", 1, label=REQUIRED), s("page_token", 2, label=REQUIRED),
                                     s("request", 3), s("retry", 4), m("notes", 5, p + "Note", label=REPEATED),
                                     s("timeout", 6), s("metadata", 7)]),
        message("ListNotesResponse", [m("pinned", 1, p + "Note", label=REQUIRED),
                                      m("notes", 2, p + "Note", label=REPEATED),
                                      m("drafts", 3, p + "Note", label=REPEATED),
                                      s("next_page_token", 4, label=REQUIRED)]),
        # `required` message field first, no repeated field at all -> not paged
        message("OnlyRequiredResponse", [m("note", 1, p + "Note", label=REQUIRED), s("next_page_token", 2)]),
    ]
    methods = [
        rpc("ListNotes", p + "ListNotesRequest", p + "ListNotesResponse", http=("get", "/notes", None),
            sigs=["request", "notes", "retry,timeout,metadata"]),
        rpc("SearchNotes", p + "ListNotesRequest", p + "ListNotesResponse", http=("post", "/notes:search", "*")),
        rpc("PeekNote", p + "ListNotesRequest", p + "OnlyRequiredResponse", http=("get", "/notes:peek", None)),
    ]
    fd = proto_file("solo/notes/notes.proto", "solo.notes", [ANN, CLI], msgs, [service("Notes", methods)],
                    syntax="proto2")
    return dict(name="proto2-oldnaming-metadata", package="solo.notes",
                opts="old-naming,metadata,transport=grpc+rest", files=closure([fd]))


# -- case 5 ------------------------------------------------------------------------------------
def case_no_paging():
    """No paged method anywhere: pagers.py must stay absent/empty and nothing may import it."""
    p = ".tiny.echo.v1beta1."
    msgs = [message("EchoRequest", [s("text", 1), s("page_token", 2)]),
            message("EchoResponse", [s("texts", 1, label=REPEATED)])]
    fd = proto_file("tiny/echo/v1beta1/echo.proto", "tiny.echo.v1beta1", [ANN, CLI], msgs,
                    [service("Echo", [rpc("Echo", p + "EchoRequest", p + "EchoResponse", http=("post", "/v1beta1/echo", "*")),
                                      rpc("Expand", p + "EchoRequest", p + "EchoResponse", server_streaming=True)])])
    return dict(name="no-paging", package="tiny.echo.v1beta1", opts="", files=closure([fd]))


# -- case 6 ------------------------------------------------------------------------------------
def case_ads_like_lazy():
    """Name collisions between item/request module names and the generated imports; only the last method of
    the service is paged (loop.first with a filtered loop); grpc_asyncio-only relevant code with warehouse name."""
    other = proto_file("big/store/v3/types/operation.proto", "big.store.v3.types",
                       [], [message("Operation", [s("name", 1)]), message("Pagers", [s("name", 1)])])
    p = ".big.store.v3."
    msgs = [
        message("ListOperationsRequest", [i32("page_size", 1), s("page_token", 2), s("filter", 3)]),
        message("ListOperationsResponse", [s("next_page_token", 1),
                                           m("operations", 2, ".big.store.v3.types.Operation", label=REPEATED)]),
        message("ListPagersResponse", [m("pagers", 1, ".big.store.v3.types.Pagers", label=REPEATED),
                                       s("next_page_token", 2)]),
    ]
    svc = service("Operations", [
        rpc("GetOperation", p + "ListOperationsRequest", ".big.store.v3.types.Operation"),
        rpc("CancelOperation", p + "ListOperationsRequest", ".google.protobuf.Empty"),
        rpc("ListOperations", p + "ListOperationsRequest", p + "ListOperationsResponse", sigs=["filter"]),
    ])
    svc2 = service("PagersService", [
        rpc("ListPagers", p + "ListOperationsRequest", p + "ListPagersResponse"),
    ])
    fd = proto_file("big/store/v3/store.proto", "big.store.v3", [CLI, EMPTY, "big/store/v3/types/operation.proto"],
                    msgs, [svc, svc2])
    return dict(name="collisions-grpc-warehouse", package="big.store.v3",
                opts="transport=grpc,warehouse-package-name=big-store-client", files=closure([other, fd]))


CASES = [case_catalog, case_classification, case_subpackages_rest, case_proto2_labels, case_no_paging,
         case_ads_like_lazy]


# ----------------------------------------------------------------------------------------------
def run_worker(worker_py, tree, in_path, out_path, cwd):
    env = {k: v for k, v in os.environ.items() if k != "PYTHONPATH"}
    env["PYTHONHASHSEED"] = "0"
    env["PYTHONDONTWRITEBYTECODE"] = "1"
    proc = subprocess.run([sys.executable, worker_py, tree, in_path, out_path], cwd=cwd, env=env,
                          stdout=subprocess.PIPE, stderr=subprocess.STDOUT, text=True, timeout=600)
    if proc.returncode != 0:
        sys.stdout.write(proc.stdout)
        raise SystemExit("worker failed for %s (exit code %d)" % (tree, proc.returncode))
    with open(out_path, "rb") as fh:
        return pickle.load(fh)


def main(argv):
    if len(argv) != 2:
        print(__doc__)
        return 2
    checkout = os.path.realpath(argv[1])
    tmp = tempfile.mkdtemp(prefix="twin-V07-demo-")
    try:
        before_tree = os.path.join(tmp, "before")
        after_tree = os.path.join(tmp, "after")
        os.makedirs(before_tree)
        os.makedirs(after_tree)
        archive = subprocess.run(["git", "-C", checkout, "archive", "HEAD"], stdout=subprocess.PIPE, check=True)
        subprocess.run(["tar", "-x", "-C", before_tree], input=archive.stdout, check=True)
        shutil.copytree(os.path.join(checkout, "gapic"), os.path.join(after_tree, "gapic"),
                        ignore=shutil.ignore_patterns("__pycache__", "*.pyc"))

        cases = [build() for build in CASES]
        in_path = os.path.join(tmp, "cases.pickle")
        with open(in_path, "wb") as fh:
            pickle.dump(cases, fh)
        worker_py = os.path.join(tmp, "worker.py")
        with open(worker_py, "w") as fh:
            fh.write(WORKER)
        cwd = os.path.join(tmp, "cwd")
        os.makedirs(cwd)

        before = run_worker(worker_py, before_tree, in_path, os.path.join(tmp, "before.pickle"), cwd)
        after = run_worker(worker_py, after_tree, in_path, os.path.join(tmp, "after.pickle"), cwd)

        changed = subprocess.run(["git", "-C", checkout, "diff", "--name-only", "HEAD"], stdout=subprocess.PIPE,
                                 text=True, check=True).stdout.split()

        problems = []
        n_files = n_raw = 0
        stats = dict(pager=0, async_pager=0, map_pager=0, wraps=0, pagers_modules=0, rst_pagers=0)
        digest = hashlib.sha256()
        for case in cases:
            a, b = before[case["name"]], after[case["name"]]
            for name in sorted(set(a) | set(b)):
                if name not in b:
                    problems.append("%s: %s missing from the output of the modified tree" % (case["name"], name))
                elif name not in a:
                    problems.append("%s: %s only in the output of the modified tree" % (case["name"], name))
                elif a[name] != b[name]:
                    problems.append("%s: %s differs" % (case["name"], name))
            for name in sorted(a):
                digest.update(name.encode() + b"\0" + a[name].encode() + b"\0")
                if name.startswith("<raw>/"):
                    n_raw += 1
                    continue
                n_files += 1
                text = a[name]
                if name.endswith("/pagers.py"):
                    stats["pagers_modules"] += 1
                    stats["pager"] += text.count("Pager:\n") - text.count("AsyncPager:\n")
                    stats["async_pager"] += text.count("AsyncPager:\n")
                    stats["map_pager"] += text.count("def get(self, key: str)")
                if name.endswith("client.py"):
                    stats["wraps"] += text.count("# This method is paged; wrap the response in a pager")
                if name.endswith(".rst"):
                    stats["rst_pagers"] += text.count(".pagers")
        # The inputs really reach the refactored code (values are those of the pristine tree).
        assert stats["pager"] >= 25 and stats["async_pager"] >= 15 and stats["map_pager"] >= 3, stats
        assert stats["async_pager"] < stats["pager"], stats        # REST-only APIs have no async pagers
        assert stats["wraps"] >= 40 and stats["rst_pagers"] >= 5, stats
        assert not any(n.endswith("/pagers.py") for n in before["no-paging"]), "unexpected pagers.py"

        if problems:
            print("DIFFERENT: %d of %d outputs differ" % (len(problems), n_files + n_raw))
            for line in problems:
                print("  " + line)
            return 1
        print("IDENTICAL: %d APIs, %d files + %d raw renderings byte-identical (%d pagers modules, %d sync / %d async "
              "pagers, %d map getters, %d pager wrappings); changed: %s; sha256 %s"
              % (len(cases), n_files, n_raw, stats["pagers_modules"], stats["pager"], stats["async_pager"],
                 stats["map_pager"], stats["wraps"], ",".join(os.path.basename(c) for c in changed) or "-",
                 digest.hexdigest()[:16]))
        return 0
    finally:
        shutil.rmtree(tmp, ignore_errors=True)


if __name__ == "__main__":
    sys.exit(main(sys.argv))
