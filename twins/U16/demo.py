#!/usr/bin/env python
"""Twin demo for U16 (second behaviour-preserving refactoring of the selective
GAPIC generation code, property C16).

Usage:  /venv/bin/python demo.py <path-to-a-checkout-with-the-change>

* exports the pristine HEAD of the checkout (git archive | tar -x) to a temp dir,
* builds several API descriptions in Python (no protoc) and a set of
  (descriptors x options x service-yaml) cases,
* runs the generator of BOTH trees over all cases, each tree in its own
  subprocess in which only that tree can provide the ``gapic`` package,
* compares every emitted file (names and bytes) plus a dump of the pruned /
  marked schema model; cases that must be rejected compare the exception text.

Exit 0 + one summary line when everything is identical, exit 1 + the list of
differences otherwise (exit 2 on infrastructure failure).
"""

import json
import os
import pickle
import shutil
import subprocess
import sys
import tempfile


# --------------------------------------------------------------------------
# Worker (subprocess): exactly one tree may provide `gapic`.
# --------------------------------------------------------------------------
def _isolate_imports(tree: str) -> None:
    """Put `tree` first on sys.path and remove every other provider of `gapic`."""
    tree = os.path.realpath(tree)

    def provides_gapic(entry: str) -> bool:
        if "__editable__" in entry:
            return True
        base = entry or os.getcwd()
        try:
            if os.path.realpath(base) == tree:
                return False
            return os.path.isdir(os.path.join(base, "gapic"))
        except OSError:
            return False

    sys.path[:] = [tree] + [p for p in sys.path if not provides_gapic(p)]

    def is_editable(obj) -> bool:
        text = " ".join(
            str(getattr(obj, attr, "")) for attr in ("__module__", "__name__", "__qualname__")
        ) + " " + type(obj).__name__ + " " + str(getattr(type(obj), "__module__", ""))
        return "editable" in text.lower()

    sys.meta_path[:] = [f for f in sys.meta_path if not is_editable(f)]
    sys.path_hooks[:] = [h for h in sys.path_hooks if not is_editable(h)]
    sys.path_importer_cache.clear()
    for name in [m for m in sys.modules if m == "gapic" or m.startswith("gapic.")]:
        del sys.modules[name]
    for name in [m for m in sys.modules if "__editable__" in m and "gapic" in m]:
        del sys.modules[name]


def worker(tree: str, cases_path: str, out_path: str) -> None:
    sys.dont_write_bytecode = True
    _isolate_imports(tree)
    root = os.path.realpath(tree) + os.sep

    import pypandoc  # type: ignore

    def _fake_convert_text(text, to, format=None, extra_args=(), **kwargs):
        # pandoc is not installed; the same deterministic stub is used for both trees.
        return "\n".join(line.rstrip() for line in str(text).splitlines())

    pypandoc.convert_text = _fake_convert_text

    import gapic
    from google.protobuf import descriptor_pb2
    from gapic.schema import api as gapic_api
    from gapic.generator import Generator
    from gapic.utils import Options

    def check_provenance(generator=None):
        for entry in list(gapic.__path__):
            assert os.path.realpath(entry).startswith(root), ("gapic.__path__", list(gapic.__path__))
        n = 0
        for mod_name, mod in list(sys.modules.items()):
            if mod_name == "gapic" or mod_name.startswith("gapic."):
                mod_file = getattr(mod, "__file__", None)
                if mod_file is not None:
                    n += 1
                    assert os.path.realpath(mod_file).startswith(root), (mod_name, mod_file, tree)
                for entry in list(getattr(mod, "__path__", [])):
                    assert os.path.realpath(entry).startswith(root), (mod_name, entry, tree)
        assert n > 10, n
        if generator is not None:
            searchpath = list(generator._env.loader.searchpath)
            assert searchpath, searchpath
            for entry in searchpath:
                assert os.path.realpath(entry).startswith(root + "gapic" + os.sep), (entry, tree)

    check_provenance()

    with open(cases_path, "rb") as f:
        cases = pickle.load(f)

    def dump_model(api_schema):
        """The facts property C16 talks about, straight from the schema objects."""
        lines = []
        for proto_name, proto in sorted(api_schema.all_protos.items()):
            lines.append("proto %s generate=%s" % (proto_name, proto.file_to_generate))
            for svc_name, svc in proto.services.items():
                lines.append("  service %s client=%s async=%s internal=%s" % (
                    svc_name, svc.client_name, svc.async_client_name, svc.is_internal))
                for m_name, m in svc.methods.items():
                    lines.append("    rpc %s -> %s safe=%s internal=%s lro=%s xlro=%s" % (
                        m_name, m.client_method_name, m.transport_safe_name, m.is_internal,
                        bool(m.lro), bool(m.extended_lro)))
            lines.extend("  message " + k for k in proto.all_messages)
            lines.extend("  enum " + k for k in proto.all_enums)
        return "\n".join(lines).encode("utf-8")

    results = {}
    for case in cases:
        fdps = [descriptor_pb2.FileDescriptorProto.FromString(b) for b in case["files"]]
        try:
            opts = Options.build(case["opts"])
            api_schema = gapic_api.API.build(fdps, opts=opts, package=case["package"])
            generator = Generator(opts)
            check_provenance(generator)
            res = generator.get_response(api_schema, opts)
            files = {}
            for out_file in res.file:
                assert out_file.name not in files, out_file.name
                files[out_file.name] = out_file.content.encode("utf-8")
            files["<model>"] = dump_model(api_schema)
            results[case["id"]] = ("ok", files)
        except AssertionError:
            raise
        except Exception as exc:  # noqa: BLE001 - the failure mode is part of the comparison
            if not case.get("expect_error"):
                import traceback

                traceback.print_exc()
            results[case["id"]] = (
                "error",
                {"<exception>": ("%s: %s" % (type(exc).__name__, exc)).encode("utf-8")},
            )

    check_provenance()
    with open(out_path, "wb") as f:
        pickle.dump(results, f)


# --------------------------------------------------------------------------
# Descriptor construction (parent process only; no gapic import here).
# --------------------------------------------------------------------------
def build_cases(scratch: str):
    from google.protobuf import descriptor_pb2 as d
    from google.protobuf import descriptor_pool
    from google.api import annotations_pb2, client_pb2, field_behavior_pb2, resource_pb2
    from google.cloud import extended_operations_pb2 as ex_ops_pb2
    from google.longrunning import operations_pb2
    from google.protobuf import empty_pb2, field_mask_pb2, timestamp_pb2  # noqa: F401

    T = d.FieldDescriptorProto
    pool = descriptor_pool.Default()

    def dependency_closure(names):
        """FileDescriptorProtos of `names` and everything they import, deps first."""
        ordered, seen = [], set()

        def visit(name):
            if name in seen:
                return
            seen.add(name)
            fd = pool.FindFileByName(name)
            for dep in fd.dependencies:
                visit(dep.name)
            fdp = d.FileDescriptorProto()
            fd.CopyToProto(fdp)
            ordered.append(fdp)

        for n in names:
            visit(n)
        return ordered

    def field(name, number, type_=T.TYPE_STRING, type_name=None, label=T.LABEL_OPTIONAL,
              oneof_index=None, resource_ref=None, child_ref=None, required=False,
              op_field=None, op_request_field=None, op_response_field=None):
        f = T(name=name, number=number, type=type_, label=label,
              json_name="".join(w if i == 0 else w.capitalize() for i, w in enumerate(name.split("_"))))
        if type_name:
            f.type_name = type_name
        if oneof_index is not None:
            f.oneof_index = oneof_index
        if resource_ref:
            f.options.Extensions[resource_pb2.resource_reference].type = resource_ref
        if child_ref:
            f.options.Extensions[resource_pb2.resource_reference].child_type = child_ref
        if required:
            f.options.Extensions[field_behavior_pb2.field_behavior].append(
                field_behavior_pb2.FieldBehavior.Value("REQUIRED"))
        if op_field is not None:
            f.options.Extensions[ex_ops_pb2.operation_field] = op_field
        if op_request_field:
            f.options.Extensions[ex_ops_pb2.operation_request_field] = op_request_field
        if op_response_field:
            f.options.Extensions[ex_ops_pb2.operation_response_field] = op_response_field
        return f

    def message(name, fields=(), nested=(), enums=(), oneofs=(), resource=None, map_entry=False):
        m = d.DescriptorProto(name=name, field=list(fields), nested_type=list(nested),
                              enum_type=list(enums))
        for o in oneofs:
            m.oneof_decl.add(name=o)
        if resource:
            r = m.options.Extensions[resource_pb2.resource]
            r.type = resource[0]
            r.pattern.extend(resource[1:])
        if map_entry:
            m.options.map_entry = True
        return m

    def enum(name, *values):
        return d.EnumDescriptorProto(
            name=name,
            value=[d.EnumValueDescriptorProto(name=v, number=i) for i, v in enumerate(values)],
        )

    def map_entry(name, value_type=T.TYPE_STRING, value_type_name=None):
        return message(name, fields=[field("key", 1),
                                     field("value", 2, value_type, value_type_name)], map_entry=True)

    def rpc(name, inp, out, http=None, body=None, signature=None, client_streaming=False,
            server_streaming=False, lro=None, op_service=None, polling=False):
        m = d.MethodDescriptorProto(name=name, input_type=inp, output_type=out,
                                    client_streaming=client_streaming,
                                    server_streaming=server_streaming)
        if http:
            verb, path = http
            rule = m.options.Extensions[annotations_pb2.http]
            setattr(rule, verb, path)
            if body:
                rule.body = body
        if signature is not None:
            m.options.Extensions[client_pb2.method_signature].append(signature)
        if lro:
            info = m.options.Extensions[operations_pb2.operation_info]
            info.response_type, info.metadata_type = lro
        if op_service:
            m.options.Extensions[ex_ops_pb2.operation_service] = op_service
        if polling:
            m.options.Extensions[ex_ops_pb2.operation_polling_method] = True
        return m

    def service(name, methods, host, scopes="https://www.googleapis.com/auth/cloud-platform"):
        s = d.ServiceDescriptorProto(name=name, method=list(methods))
        s.options.Extensions[client_pb2.default_host] = host
        s.options.Extensions[client_pb2.oauth_scopes] = scopes
        return s

    def file_(name, package, deps=(), messages=(), enums=(), services=(), file_resources=()):
        fdp = d.FileDescriptorProto(name=name, package=package, syntax="proto3",
                                    dependency=list(deps), message_type=list(messages),
                                    enum_type=list(enums), service=list(services))
        for res_type, pattern in file_resources:
            fdp.options.Extensions[resource_pb2.resource_definition].add(type=res_type, pattern=[pattern])
        # A few comments so that docstrings are not all empty.
        for i, m in enumerate(fdp.message_type):
            fdp.source_code_info.location.add(path=[4, i], leading_comments=" The %s message.\n" % m.name)
        for i, s in enumerate(fdp.service):
            fdp.source_code_info.location.add(path=[6, i], leading_comments=" The %s service.\n" % s.name)
            for j, meth in enumerate(s.method):
                fdp.source_code_info.location.add(
                    path=[6, i, 2, j], leading_comments=" Calls %s on the ``%s`` service.\n" % (meth.name, s.name))
        return fdp

    # ---------------------------------------------------------------- museum (gRPC + REST, LRO, paging)
    P = "acme.museum.v1"
    Q = "." + P
    RES = "museum.example.com/"
    resources = file_(
        "acme/museum/v1/resources.proto", P,
        deps=["google/api/resource.proto", "google/api/field_behavior.proto",
              "google/protobuf/timestamp.proto"],
        # A resource that exists only as a file-level definition (no message carries it).
        file_resources=[(RES + "Wing", "wings/{wing}")],
        enums=[enum("Period", "PERIOD_UNSPECIFIED", "ANCIENT", "MODERN"),
               enum("UnusedPeriod", "UNUSED_PERIOD_UNSPECIFIED", "NEVER")],
        messages=[
            message(
                "Exhibit",
                resource=(RES + "Exhibit", "rooms/{room}/exhibits/{exhibit}"),
                oneofs=["medium"],
                enums=[enum("Condition", "CONDITION_UNSPECIFIED", "GOOD", "FRAGILE")],
                nested=[
                    message("Part", fields=[field("label", 1),
                                            field("sub_parts", 2, T.TYPE_MESSAGE, Q + ".Exhibit.Part",
                                                  label=T.LABEL_REPEATED)]),
                    map_entry("TagsEntry"),
                    map_entry("NotesEntry", T.TYPE_MESSAGE, Q + ".Note"),
                ],
                fields=[
                    field("name", 1),
                    field("title", 2, required=True),
                    field("condition", 3, T.TYPE_ENUM, Q + ".Exhibit.Condition"),
                    field("period", 4, T.TYPE_ENUM, Q + ".Period"),
                    field("parts", 5, T.TYPE_MESSAGE, Q + ".Exhibit.Part", label=T.LABEL_REPEATED),
                    field("tags", 6, T.TYPE_MESSAGE, Q + ".Exhibit.TagsEntry", label=T.LABEL_REPEATED),
                    field("notes", 7, T.TYPE_MESSAGE, Q + ".Exhibit.NotesEntry", label=T.LABEL_REPEATED),
                    field("canvas", 8, oneof_index=0),
                    field("sculpture", 9, T.TYPE_MESSAGE, Q + ".Exhibit.Part", oneof_index=0),
                    field("companion", 10, T.TYPE_MESSAGE, Q + ".Exhibit"),
                    field("artist", 11, resource_ref=RES + "Artist"),
                    field("acquire_time", 12, T.TYPE_MESSAGE, ".google.protobuf.Timestamp"),
                    field("class", 13),
                    # reference to a resource without a message, to the wildcard, and to nothing known
                    field("wing", 14, resource_ref=RES + "Wing"),
                    field("anything", 15, resource_ref="*"),
                    field("elsewhere", 16, child_ref="other.example.com/Unknown"),
                ],
            ),
            message("Note", fields=[field("text", 1), field("about", 2, T.TYPE_MESSAGE, Q + ".Exhibit")]),
            message("Artist", resource=(RES + "Artist", "artists/{artist}"),
                    fields=[field("name", 1), field("patron", 2, resource_ref=RES + "Patron")]),
            message("Patron", resource=(RES + "Patron", "patrons/{patron}"),
                    fields=[field("name", 1), field("favourite", 2, child_ref=RES + "Exhibit")]),
            message("Room", resource=(RES + "Room", "rooms/{room}"),
                    fields=[field("name", 1), field("theme", 2, T.TYPE_ENUM, Q + ".Period")]),
            message("Unused", fields=[field("period", 1, T.TYPE_ENUM, Q + ".UnusedPeriod")]),
        ],
    )
    # A file of the same package from which (usually) nothing survives pruning.
    extras = file_(
        "acme/museum/v1/extras.proto", P,
        deps=["acme/museum/v1/resources.proto"],
        enums=[enum("Weekday", "WEEKDAY_UNSPECIFIED", "MONDAY")],
        messages=[message("OpeningHours", fields=[field("day", 1, T.TYPE_ENUM, Q + ".Weekday"),
                                                  field("room", 2, T.TYPE_MESSAGE, Q + ".Room")])],
    )
    museum = file_(
        "acme/museum/v1/museum.proto", P,
        deps=["google/api/annotations.proto", "google/api/client.proto", "google/api/resource.proto",
              "google/api/field_behavior.proto", "google/longrunning/operations.proto",
              "google/protobuf/empty.proto", "acme/museum/v1/resources.proto",
              "acme/museum/v1/extras.proto"],
        messages=[
            message("GetExhibitRequest", fields=[field("name", 1, resource_ref=RES + "Exhibit", required=True)]),
            message("ListExhibitsRequest", fields=[field("parent", 1, child_ref=RES + "Exhibit"),
                                                   field("page_size", 2, T.TYPE_INT32), field("page_token", 3)]),
            message("ListExhibitsResponse", fields=[field("exhibits", 1, T.TYPE_MESSAGE, Q + ".Exhibit", label=T.LABEL_REPEATED),
                                                    field("next_page_token", 2)]),
            message("DeleteExhibitRequest", fields=[field("name", 1, resource_ref=RES + "Exhibit")]),
            message("MoveExhibitRequest", fields=[field("name", 1, resource_ref=RES + "Exhibit"),
                                                  field("other_room", 2, resource_ref=RES + "Room")]),
            message("MoveExhibitResponse", fields=[field("moved", 1, T.TYPE_BOOL)]),
            message("StreamExhibitsRequest", fields=[field("query", 1)]),
            message("ImportRequest", fields=[field("uri", 1), field("room", 2, resource_ref=RES + "Room")]),
            message("ImportResponse", fields=[field("count", 1, T.TYPE_INT64)]),
            message("ImportMetadata", fields=[field("progress", 1, T.TYPE_MESSAGE, Q + ".ImportMetadata.Progress")],
                    nested=[message("Progress", fields=[field("percent", 1, T.TYPE_INT32)])]),
            message("CreateRoomRequest", fields=[field("room", 1, T.TYPE_MESSAGE, Q + ".Room")]),
            message("GetHoursRequest", fields=[field("room", 1, resource_ref=RES + "Room")]),
            message("GlobalRequest", fields=[field("wing", 1, resource_ref=RES + "Wing")]),
        ],
        services=[
            service("Museum", host="museum.example.com", methods=[
                rpc("GetExhibit", Q + ".GetExhibitRequest", Q + ".Exhibit", http=("get", "/v1/{name=rooms/*/exhibits/*}"), signature="name"),
                rpc("ListExhibits", Q + ".ListExhibitsRequest", Q + ".ListExhibitsResponse", http=("get", "/v1/{parent=rooms/*}/exhibits"), signature="parent"),
                rpc("DeleteExhibit", Q + ".DeleteExhibitRequest", ".google.protobuf.Empty", http=("delete", "/v1/{name=rooms/*/exhibits/*}")),
                rpc("MoveExhibit", Q + ".MoveExhibitRequest", Q + ".MoveExhibitResponse", http=("post", "/v1/{name=rooms/*/exhibits/*}:move"), body="*", signature="name,other_room"),
                rpc("StreamExhibits", Q + ".StreamExhibitsRequest", Q + ".Exhibit", http=("get", "/v1/exhibits:stream"), server_streaming=True),
                # reserved words as RPC names (client_method_name appends "_")
                rpc("Import", Q + ".ImportRequest", ".google.longrunning.Operation", http=("post", "/v1/exhibits:import"), body="*",
                    lro=("ImportResponse", "ImportMetadata")),
                rpc("Global", Q + ".GlobalRequest", ".google.protobuf.Empty", http=("post", "/v1/global"), body="*"),
            ]),
            service("Rooms", host="museum.example.com", methods=[
                rpc("CreateRoom", Q + ".CreateRoomRequest", Q + ".Room", http=("post", "/v1/rooms"), body="room", signature="room"),
                rpc("GetHours", Q + ".GetHoursRequest", Q + ".OpeningHours", http=("get", "/v1/{room=rooms/*}/hours")),
            ]),
        ],
    )
    admin = file_(
        "acme/museum/v1/admin/admin.proto", P + ".admin",
        deps=["google/api/annotations.proto", "google/api/client.proto", "acme/museum/v1/resources.proto"],
        enums=[enum("Severity", "SEVERITY_UNSPECIFIED", "LOW", "HIGH")],
        messages=[
            message("PurgeRequest", fields=[field("filter", 1), field("severity", 2, T.TYPE_ENUM, Q + ".admin.Severity")]),
            message("PurgeResponse", fields=[field("purged", 1, T.TYPE_MESSAGE, Q + ".Patron", label=T.LABEL_REPEATED)]),
            message("AuditRecord", fields=[field("note", 1)]),
        ],
        services=[
            service("Admin", host="museum.example.com", methods=[
                rpc("Purge", Q + ".admin.PurgeRequest", Q + ".admin.PurgeResponse", http=("post", "/v1/admin:purge"), body="*"),
                rpc("Audit", Q + ".admin.AuditRecord", Q + ".admin.AuditRecord", client_streaming=True, server_streaming=True),
            ]),
        ],
    )
    common = dependency_closure([
        "google/api/annotations.proto", "google/api/client.proto", "google/api/resource.proto",
        "google/api/field_behavior.proto", "google/longrunning/operations.proto",
        "google/protobuf/empty.proto", "google/protobuf/timestamp.proto",
    ])
    mus = common + [resources, extras, museum]
    mussub = common + [resources, extras, museum, admin]

    other_version = file_(
        "acme/museum/v2/museum.proto", "acme.museum.v2",
        deps=["google/api/client.proto"],
        messages=[message("PingRequest"), message("PingResponse")],
        services=[service("Pinger", host="museum.example.com", methods=[
            rpc("Ping", ".acme.museum.v2.PingRequest", ".acme.museum.v2.PingResponse")])],
    )

    # ---------------------------------------------------------------- fleet (REST only, extended operations)
    C = "acme.fleet.v1"
    CQ = "." + C
    fleet = file_(
        "acme/fleet/v1/fleet.proto", C,
        deps=["google/api/annotations.proto", "google/api/client.proto", "google/api/field_behavior.proto",
              "google/cloud/extended_operations.proto"],
        messages=[
            message("Operation",
                    enums=[enum("Status", "UNDEFINED_STATUS", "DONE", "PENDING", "RUNNING")],
                    fields=[field("name", 1, op_field=ex_ops_pb2.NAME),
                            field("status", 2, T.TYPE_ENUM, CQ + ".Operation.Status", op_field=ex_ops_pb2.STATUS),
                            field("http_error_status_code", 3, T.TYPE_INT32, op_field=ex_ops_pb2.ERROR_CODE),
                            field("http_error_message", 4, op_field=ex_ops_pb2.ERROR_MESSAGE),
                            field("warnings", 5, T.TYPE_MESSAGE, CQ + ".Warning", label=T.LABEL_REPEATED)]),
            message("Warning", fields=[field("code", 1), field("message", 2)]),
            message("Truck", fields=[field("name", 1), field("wheels", 2, T.TYPE_MESSAGE, CQ + ".Wheel", label=T.LABEL_REPEATED)]),
            message("Wheel", fields=[field("source", 1), field("mode", 2, T.TYPE_ENUM, CQ + ".Wheel.Mode")],
                    enums=[enum("Mode", "UNDEFINED_MODE", "SUMMER", "WINTER")]),
            message("Depot", fields=[field("address", 1), field("region", 2)]),
            message("InsertTruckRequest", fields=[
                field("project", 1, required=True, op_request_field="project"),
                field("zone", 2, required=True, op_request_field="zone"),
                field("truck_resource", 3, T.TYPE_MESSAGE, CQ + ".Truck", required=True)]),
            message("GetTruckRequest", fields=[field("project", 1), field("zone", 2), field("truck", 3)]),
            message("ListTrucksRequest", fields=[field("project", 1), field("zone", 2),
                                                 field("max_results", 3, T.TYPE_UINT32), field("page_token", 4)]),
            message("TruckList", fields=[field("items", 1, T.TYPE_MESSAGE, CQ + ".Truck", label=T.LABEL_REPEATED),
                                         field("next_page_token", 2)]),
            message("InsertDepotRequest", fields=[
                field("project", 1, required=True, op_request_field="project"),
                field("region", 2, required=True, op_request_field="region"),
                field("depot_resource", 3, T.TYPE_MESSAGE, CQ + ".Depot", required=True)]),
            message("GetZoneOperationRequest", fields=[
                field("operation", 1, required=True, op_response_field="name"),
                field("project", 2, required=True), field("zone", 3, required=True)]),
            message("DeleteZoneOperationRequest", fields=[field("operation", 1), field("project", 2), field("zone", 3)]),
            message("DeleteZoneOperationResponse"),
            message("GetRegionOperationRequest", fields=[
                field("operation", 1, required=True, op_response_field="name"),
                field("project", 2, required=True), field("region", 3, required=True)]),
            message("WaitRegionOperationRequest", fields=[field("operation", 1), field("project", 2), field("region", 3)]),
        ],
        services=[
            service("Trucks", host="fleet.example.com", methods=[
                rpc("Insert", CQ + ".InsertTruckRequest", CQ + ".Operation",
                    http=("post", "/fleet/v1/projects/{project}/zones/{zone}/trucks"), body="truck_resource",
                    signature="project,zone,truck_resource", op_service="ZoneOperations"),
                rpc("Get", CQ + ".GetTruckRequest", CQ + ".Truck",
                    http=("get", "/fleet/v1/projects/{project}/zones/{zone}/trucks/{truck}"), signature="project,zone,truck"),
                rpc("List", CQ + ".ListTrucksRequest", CQ + ".TruckList",
                    http=("get", "/fleet/v1/projects/{project}/zones/{zone}/trucks"), signature="project,zone"),
            ]),
            service("Depots", host="fleet.example.com", methods=[
                rpc("Insert", CQ + ".InsertDepotRequest", CQ + ".Operation",
                    http=("post", "/fleet/v1/projects/{project}/regions/{region}/depots"), body="depot_resource",
                    signature="project,region,depot_resource", op_service="RegionOperations"),
            ]),
            service("ZoneOperations", host="fleet.example.com", methods=[
                rpc("Get", CQ + ".GetZoneOperationRequest", CQ + ".Operation",
                    http=("get", "/fleet/v1/projects/{project}/zones/{zone}/operations/{operation}"),
                    signature="project,zone,operation", polling=True),
                rpc("Delete", CQ + ".DeleteZoneOperationRequest", CQ + ".DeleteZoneOperationResponse",
                    http=("delete", "/fleet/v1/projects/{project}/zones/{zone}/operations/{operation}")),
            ]),
            service("RegionOperations", host="fleet.example.com", methods=[
                rpc("Get", CQ + ".GetRegionOperationRequest", CQ + ".Operation",
                    http=("get", "/fleet/v1/projects/{project}/regions/{region}/operations/{operation}"),
                    signature="project,region,operation", polling=True),
                rpc("Wait", CQ + ".WaitRegionOperationRequest", CQ + ".Operation",
                    http=("post", "/fleet/v1/projects/{project}/regions/{region}/operations/{operation}/wait")),
            ]),
        ],
    )
    fleet_files = dependency_closure([
        "google/api/annotations.proto", "google/api/client.proto", "google/api/field_behavior.proto",
        "google/cloud/extended_operations.proto",
    ]) + [fleet]

    # ---------------------------------------------------------------- bare API: no annotations at all
    M = "bare.v1beta1"
    bare = d.FileDescriptorProto(
        name="bare/v1beta1/bare.proto", package=M, syntax="proto3",
        message_type=[message("Req", fields=[field("inner", 1, T.TYPE_MESSAGE, "." + M + ".Req.Inner")],
                              nested=[message("Inner", fields=[field("again", 1, T.TYPE_MESSAGE, "." + M + ".Req")])]),
                      message("Resp"), message("Lonely")],
        enum_type=[enum("Colour", "COLOUR_UNSPECIFIED", "RED")],
        service=[d.ServiceDescriptorProto(name="Bare", method=[
            rpc("Do", "." + M + ".Req", "." + M + ".Resp"),
            rpc("Return", "." + M + ".Resp", "." + M + ".Req"),
            rpc("Yield", "." + M + ".Req", "." + M + ".Req", client_streaming=True),
            rpc("Del", "." + M + ".Resp", "." + M + ".Resp", server_streaming=True)]),
            d.ServiceDescriptorProto(name="Hollow")],
    )
    bare_files = [bare]

    # ---------------------------------------------------------------- service yaml files
    yaml_counter = [0]

    def service_yaml(name, library_settings, apis=()):
        yaml_counter[0] += 1
        path = os.path.join(scratch, "service_%02d.yaml" % yaml_counter[0])
        config = {
            "type": "google.api.Service",
            "config_version": 3,
            "name": name,
            "publishing": {"library_settings": library_settings},
        }
        if apis:
            config["apis"] = [{"name": a} for a in apis]
        with open(path, "w") as f:
            json.dump(config, f, indent=1, sort_keys=True)  # JSON is valid YAML
        return path

    def selective(version, methods, internal=None):
        sel = {"methods": list(methods)}
        if internal is not None:
            sel["generate_omitted_as_internal"] = internal
        return {"version": version, "python_settings": {"common": {"selective_gapic_generation": sel}}}

    cases = []

    def add(case_id, files, package, opts="", yaml_path=None, expect_error=False):
        opt_string = opts
        if yaml_path:
            opt_string = (opt_string + "," if opt_string else "") + "service-yaml=" + yaml_path
        cases.append({"id": case_id, "files": [f.SerializeToString(deterministic=True) for f in files],
                      "package": package, "opts": opt_string, "expect_error": expect_error})

    HOST = "museum.example.com"
    L = P + ".Museum."
    R = P + ".Rooms."
    # NOTE: the sub-package is only combined with autogen-snippets=false and with method lists
    # living entirely in the sub-package: the unmodified generator fails otherwise.

    # museum: no selective generation in effect
    add("museum-full", mus, P)
    add("museum-sub-full-rest", mussub, P, "autogen-snippets=false,transport=rest,rest-numeric-enums")
    add("museum-settings-for-other-version", mus + [other_version], P, "transport=grpc",
        service_yaml(HOST, [selective("acme.museum.v2", [], internal=True)]))
    add("museum-empty-method-list", mus, P, "autogen-snippets=false",
        service_yaml(HOST, [selective(P, [])]))
    # museum: omit mode
    add("museum-omit-get", mus, P, "",
        service_yaml(HOST, [selective(P, [L + "GetExhibit"])]))
    add("museum-omit-lro-paged-rest", mus, P, "transport=rest,rest-numeric-enums",
        service_yaml(HOST, [selective(P, [L + "Import", L + "ListExhibits"], internal=False)],
                     apis=["google.longrunning.Operations"]))
    add("museum-omit-move-delete-stream", mus, P, "transport=grpc+rest,autogen-snippets=false",
        service_yaml(HOST, [selective(P, [L + "MoveExhibit", L + "DeleteExhibit", L + "StreamExhibits"])]))
    add("museum-omit-global-only", mus, P, "",
        service_yaml(HOST, [selective(P, [L + "Global"])]))
    add("museum-omit-rooms-create", mus, P, "metadata",
        service_yaml(HOST, [selective(P, [R + "CreateRoom"])]))
    add("museum-omit-hours-keeps-extras", mus, P, "transport=grpc",
        service_yaml(HOST, [selective(P, [R + "GetHours"])]))
    add("museum-omit-subpackage-only", mussub, P, "autogen-snippets=false",
        service_yaml(HOST, [selective(P, [P + ".admin.Admin.Purge"])]))
    add("museum-omit-everything-listed", mus, P, "",
        service_yaml(HOST, [selective(P, [
            L + "GetExhibit", L + "ListExhibits", L + "DeleteExhibit", L + "MoveExhibit",
            L + "StreamExhibits", L + "Import", L + "Global", R + "CreateRoom", R + "GetHours"])]))
    # museum: internal mode
    add("museum-internal-get", mus, P, "",
        service_yaml(HOST, [selective(P, [L + "GetExhibit"], internal=True)]))
    add("museum-internal-reserved-words-rest", mus, P, "transport=rest",
        service_yaml(HOST, [selective(P, [L + "ListExhibits", R + "CreateRoom", R + "GetHours"], internal=True)]))
    add("museum-internal-import-public", mus, P, "autogen-snippets=false,rest-numeric-enums",
        service_yaml(HOST, [selective(P, [L + "Import", L + "Global"], internal=True)]))
    add("museum-internal-subpackage-only", mussub, P, "autogen-snippets=false",
        service_yaml(HOST, [selective(P, [P + ".admin.Admin.Audit"], internal=True)]))
    # museum: rejected settings
    add("museum-reject-unknown", mus, P, "",
        service_yaml(HOST, [selective(P, [L + "GetExhibit", L + "Nonesuch"])]), expect_error=True)
    add("museum-reject-mismatched-version", mussub, P, "",
        service_yaml(HOST, [selective(P + ".admin", [L + "GetExhibit", P + ".admin.Admin.Purge",
                                                     P + ".admin.Admin.Missing"]),
                            selective("acme.museum.v2", ["acme.museum.v2.Pinger.Ping"])]),
        expect_error=True)
    add("museum-reject-duplicate-version", mus, P, "",
        service_yaml(HOST, [selective(P, [L + "GetExhibit"]), selective(P, [L + "Nope"])]),
        expect_error=True)

    # fleet: extended operations, REST only
    F = C + ".Trucks."
    FH = "fleet.example.com"
    add("fleet-full", fleet_files, C, "transport=rest")
    add("fleet-omit-insert", fleet_files, C, "transport=rest",
        service_yaml(FH, [selective(C, [F + "Insert"])]))
    add("fleet-omit-get-list", fleet_files, C, "transport=rest,rest-numeric-enums,autogen-snippets=false",
        service_yaml(FH, [selective(C, [F + "Get", F + "List"])]))
    add("fleet-omit-depot-and-wait", fleet_files, C, "transport=rest",
        service_yaml(FH, [selective(C, [C + ".Depots.Insert", C + ".RegionOperations.Wait"])]))
    add("fleet-internal-insert", fleet_files, C, "transport=rest",
        service_yaml(FH, [selective(C, [F + "Insert", C + ".ZoneOperations.Get"], internal=True)]))

    # bare: no annotations, recursive types, reserved-word rpc names, a service without methods
    B = M + ".Bare."
    add("bare-full", bare_files, M, "transport=grpc")
    add("bare-omit-do", bare_files, M, "",
        service_yaml("bare.example.com", [selective(M, [B + "Do"])]))
    add("bare-omit-return-del", bare_files, M, "autogen-snippets=false",
        service_yaml("bare.example.com", [selective(M, [B + "Return", B + "Del"])]))
    add("bare-internal-yield-public", bare_files, M, "transport=grpc+rest",
        service_yaml("bare.example.com", [selective(M, [B + "Yield"], internal=True)]))
    add("bare-internal-reserved-private", bare_files, M, "autogen-snippets=false",
        service_yaml("bare.example.com", [selective(M, [B + "Do"], internal=True)]))
    return cases


# --------------------------------------------------------------------------
# Driver
# --------------------------------------------------------------------------
def main(argv) -> int:
    if len(argv) >= 2 and argv[1] == "--worker":
        worker(argv[2], argv[3], argv[4])
        return 0
    if len(argv) != 2:
        print("usage: demo.py <path-to-a-checkout-with-your-change>")
        return 2

    checkout = os.path.abspath(argv[1])
    scratch = tempfile.mkdtemp(prefix="twin-U16-demo-")
    try:
        pristine = os.path.join(scratch, "pristine")
        os.mkdir(pristine)
        archive = subprocess.Popen(["git", "-C", checkout, "archive", "HEAD"], stdout=subprocess.PIPE)
        subprocess.check_call(["tar", "-x", "-C", pristine], stdin=archive.stdout)
        archive.stdout.close()
        if archive.wait() != 0:
            print("git archive failed")
            return 2

        cases = build_cases(scratch)
        cases_path = os.path.join(scratch, "cases.pkl")
        with open(cases_path, "wb") as f:
            pickle.dump(cases, f)

        env = dict(os.environ, PYTHONDONTWRITEBYTECODE="1", PYTHONHASHSEED="0")
        env.pop("PYTHONPATH", None)
        workdir = os.path.join(scratch, "cwd")
        os.mkdir(workdir)
        procs = {}
        for label, tree in (("pristine", pristine), ("changed", checkout)):
            out_path = os.path.join(scratch, label + ".pkl")
            procs[label] = (
                subprocess.Popen(
                    [sys.executable, os.path.abspath(__file__), "--worker", tree, cases_path, out_path],
                    cwd=workdir, env=env, stdout=subprocess.PIPE, stderr=subprocess.STDOUT),
                out_path,
            )
        outputs = {}
        for label, (proc, out_path) in procs.items():
            log, _ = proc.communicate(timeout=600)
            if proc.returncode != 0:
                print("worker for %s tree failed:\n%s" % (label, log.decode("utf-8", "replace")))
                return 2
            with open(out_path, "rb") as f:
                outputs[label] = pickle.load(f)
            if log.strip():
                print("[%s worker output]\n%s" % (label, log.decode("utf-8", "replace")))

        differing = []
        n_files = 0
        n_errors = 0
        for case in cases:
            cid = case["id"]
            status_a, files_a = outputs["pristine"][cid]
            status_b, files_b = outputs["changed"][cid]
            expected_status = "error" if case["expect_error"] else "ok"
            if status_a != expected_status:
                differing.append("%s: pristine tree gave %r, expected %r (%s)" % (
                    cid, status_a, expected_status, files_a.get("<exception>", b"")[:300]))
            if status_a != status_b:
                differing.append("%s: status %s vs %s" % (cid, status_a, status_b))
            if status_a == "error":
                n_errors += 1
            for name in sorted(set(files_a) | set(files_b)):
                n_files += 1
                if name not in files_a:
                    differing.append("%s: %s only produced by the changed tree" % (cid, name))
                elif name not in files_b:
                    differing.append("%s: %s only produced by the pristine tree" % (cid, name))
                elif files_a[name] != files_b[name]:
                    differing.append("%s: %s differs" % (cid, name))

        if differing:
            print("DIFFERENT: %d difference(s)" % len(differing))
            for line in differing:
                print("  " + line)
            return 1
        print("IDENTICAL: %d cases (%d rejected identically), %d outputs compared byte for byte" % (
            len(cases), n_errors, n_files))
        return 0
    finally:
        shutil.rmtree(scratch, ignore_errors=True)


if __name__ == "__main__":
    sys.exit(main(sys.argv))
