#!/usr/bin/env python
"""Twin demo for T05 (property C05: flattened keyword arguments).

Usage:  /venv/bin/python demo.py <path-to-a-checkout-with-the-change>

Exports the checkout's HEAD into a temp dir (pristine tree), then runs the
generator from BOTH trees (pristine export vs. the checkout's working tree) in
separate subprocesses on several hand-built API descriptions and compares every
output file byte for byte.  Exit 0 if everything is identical, 1 otherwise.
"""
import importlib
import os
import pickle
import shutil
import subprocess
import sys
import tempfile

from google.api import annotations_pb2, client_pb2, field_behavior_pb2  # noqa: F401
from google.longrunning import operations_pb2
from google.protobuf import descriptor_pb2 as desc
from google.protobuf import struct_pb2, field_mask_pb2, timestamp_pb2  # noqa: F401

F = desc.FieldDescriptorProto

# --------------------------------------------------------------------------
# Runner executed in a subprocess: argv = tree, input pickle, output pickle.
# --------------------------------------------------------------------------
RUNNER = r'''
import pickle, sys
tree, inp, outp = sys.argv[1:4]
sys.path.insert(0, tree)
import pypandoc

def _fake_convert_text(text, to, format=None, extra_args=(), **kw):
    # Deterministic stand-in for pandoc (not installed); identical in both runs.
    return "[[%s|%s|%s]] %s" % (to, format, ",".join(extra_args), text)

pypandoc.convert_text = _fake_convert_text

import gapic.schema.wrappers, gapic.utils.options
for _m in (gapic.schema.wrappers, gapic.utils.options):
    assert _m.__file__.startswith(tree + "/"), (_m.__file__, tree)
from google.protobuf import descriptor_pb2
from gapic.schema.api import API
from gapic.generator import Generator
from gapic.utils import Options

with open(inp, "rb") as fh:
    cases = pickle.load(fh)

results = {}
for case in cases:
    sys.stderr.write("case %s\n" % case["name"])
    fds = [descriptor_pb2.FileDescriptorProto.FromString(b) for b in case["fds"]]
    opts = Options.build(case["opts"])
    api = API.build(fds, package=case["package"], opts=opts)
    res = Generator(opts).get_response(api, opts)
    files = {}
    for f in res.file:
        assert f.name not in files, f.name
        files[f.name] = f.content
    results[case["name"]] = files

with open(outp, "wb") as fh:
    pickle.dump(results, fh)
'''


# --------------------------------------------------------------------------
# Descriptor building helpers
# --------------------------------------------------------------------------
def field(name, number, type_, label=F.LABEL_OPTIONAL, type_name=None, oneof=None,
          proto3_optional=False, required=False):
    f = F(name=name, number=number, type=type_, label=label)
    if type_name:
        f.type_name = type_name
    if oneof is not None:
        f.oneof_index = oneof
    if proto3_optional:
        f.proto3_optional = True
    if required:
        f.options.Extensions[field_behavior_pb2.field_behavior].append(
            field_behavior_pb2.REQUIRED)
    return f


def s(name, n, **kw):
    return field(name, n, F.TYPE_STRING, **kw)


def i32(name, n, **kw):
    return field(name, n, F.TYPE_INT32, **kw)


def msgf(name, n, type_name, **kw):
    return field(name, n, F.TYPE_MESSAGE, type_name=type_name, **kw)


def enumf(name, n, type_name, **kw):
    return field(name, n, F.TYPE_ENUM, type_name=type_name, **kw)


def message(name, fields, nested=(), oneofs=(), enums=()):
    m = desc.DescriptorProto(name=name)
    m.field.extend(fields)
    m.nested_type.extend(nested)
    m.enum_type.extend(enums)
    for o in oneofs:
        m.oneof_decl.add(name=o)
    return m


def map_entry(name, key_type, value_field):
    e = desc.DescriptorProto(name=name)
    e.field.append(field("key", 1, key_type))
    e.field.append(value_field)
    e.options.map_entry = True
    return e


def enum(name, values):
    e = desc.EnumDescriptorProto(name=name)
    for i, v in enumerate(values):
        e.value.add(name=v, number=i)
    return e


def method(name, inp, out, signatures=(), http=None, client_streaming=False,
           server_streaming=False, lro=None, deprecated=False):
    m = desc.MethodDescriptorProto(name=name, input_type=inp, output_type=out,
                                   client_streaming=client_streaming,
                                   server_streaming=server_streaming)
    for sig in signatures:
        m.options.Extensions[client_pb2.method_signature].append(sig)
    if http:
        rule = m.options.Extensions[annotations_pb2.http]
        verb, uri, body = http
        setattr(rule, verb, uri)
        if body:
            rule.body = body
    if lro:
        info = m.options.Extensions[operations_pb2.operation_info]
        info.response_type, info.metadata_type = lro
    if deprecated:
        m.options.deprecated = True
    return m


def service(name, host, methods, scopes=None):
    sv = desc.ServiceDescriptorProto(name=name)
    sv.method.extend(methods)
    if host:
        sv.options.Extensions[client_pb2.default_host] = host
    if scopes:
        sv.options.Extensions[client_pb2.oauth_scopes] = scopes
    return sv


def file_(name, package, deps=(), messages=(), services=(), enums=(), comments=None):
    fd = desc.FileDescriptorProto(name=name, package=package, syntax="proto3")
    fd.dependency.extend(deps)
    fd.message_type.extend(messages)
    fd.service.extend(services)
    fd.enum_type.extend(enums)
    # comments: {path tuple: leading comment}
    for path, text in sorted((comments or {}).items()):
        loc = fd.source_code_info.location.add()
        loc.path.extend(path)
        loc.leading_comments = text
    return fd


def well_known():
    """FileDescriptorProtos of all the imports we may use, from the pool."""
    mods = [
        "google.protobuf.descriptor_pb2", "google.protobuf.any_pb2",
        "google.protobuf.duration_pb2", "google.protobuf.empty_pb2",
        "google.protobuf.struct_pb2", "google.protobuf.field_mask_pb2",
        "google.protobuf.timestamp_pb2",
        "google.api.http_pb2", "google.api.annotations_pb2",
        "google.api.launch_stage_pb2", "google.api.client_pb2",
        "google.api.field_behavior_pb2", "google.api.resource_pb2",
        "google.rpc.status_pb2", "google.longrunning.operations_pb2",
    ]
    out = []
    for mod in mods:
        d = importlib.import_module(mod).DESCRIPTOR
        fdp = desc.FileDescriptorProto()
        d.CopyToProto(fdp)
        out.append(fdp)
    return out


COMMON_DEPS = [
    "google/api/annotations.proto", "google/api/client.proto",
    "google/api/field_behavior.proto", "google/protobuf/empty.proto",
    "google/protobuf/struct.proto", "google/protobuf/field_mask.proto",
    "google/longrunning/operations.proto",
]


# --------------------------------------------------------------------------
# API descriptions
# --------------------------------------------------------------------------
def api_library():
    """Same-package requests: every signature shape the property names."""
    P = ".google.example.library.v1"
    shelf = message("Shelf", [s("name", 1), s("theme", 2)])
    book = message(
        "Book",
        [s("name", 1), s("author", 2), msgf("shelf", 3, P + ".Shelf"),
         enumf("genre", 4, P + ".Genre"), s("global", 5), i32("rating", 6)],
    )
    get_req = message("GetBookRequest", [s("name", 1, required=True)])
    create_req = message(
        "CreateBookRequest",
        [
            s("parent", 1, required=True),
            msgf("book", 2, P + ".Book", required=True),
            s("from", 3),                                    # reserved word
            s("class", 4),                                   # reserved word
            s("tags", 5, label=F.LABEL_REPEATED),
            msgf("labels", 6, P + ".CreateBookRequest.LabelsEntry",
                 label=F.LABEL_REPEATED),                     # map<string,string>
            msgf("extra_shelves", 7, P + ".Shelf", label=F.LABEL_REPEATED),
            enumf("genre", 8, P + ".Genre"),
            msgf("values", 9, ".google.protobuf.Value", label=F.LABEL_REPEATED),
            msgf("update_mask", 10, ".google.protobuf.FieldMask"),
            s("request_id", 11, proto3_optional=True, oneof=1),
            s("isbn", 12, oneof=0),
            i32("legacy_id", 13, oneof=0),
            msgf("shelf_index", 14, P + ".CreateBookRequest.ShelfIndexEntry",
                 label=F.LABEL_REPEATED),                     # map<string,Shelf>
            enumf("genres", 15, P + ".Genre", label=F.LABEL_REPEATED),
            field("weight", 16, F.TYPE_DOUBLE),
            field("cover", 17, F.TYPE_BYTES),
            field("signed", 18, F.TYPE_BOOL),
        ],
        nested=[
            map_entry("LabelsEntry", F.TYPE_STRING, s("value", 2)),
            map_entry("ShelfIndexEntry", F.TYPE_STRING, msgf("value", 2, P + ".Shelf")),
        ],
        oneofs=["identifier", "_request_id"],
    )
    list_req = message(
        "ListBooksRequest",
        [s("parent", 1), i32("page_size", 2), s("page_token", 3), s("filter", 4)],
    )
    list_resp = message(
        "ListBooksResponse",
        [msgf("books", 1, P + ".Book", label=F.LABEL_REPEATED), s("next_page_token", 2)],
    )
    delete_req = message("DeleteBookRequest", [s("name", 1), field("force", 2, F.TYPE_BOOL)])
    move_req = message("MoveBookRequest", [s("name", 1), s("other_shelf_name", 2)])
    move_meta = message("MoveBookMetadata", [s("progress", 1)])
    stream_req = message("StreamBooksRequest", [s("parent", 1), s("in", 2)])
    empty_sig_req = message("PingRequest", [s("note", 1)])

    methods = [
        method("GetBook", P + ".GetBookRequest", P + ".Book", ["name"],
               http=("get", "/v1/{name=shelves/*/books/*}", None)),
        # dotted paths, reserved names (top-level and nested), repeated, maps,
        # enum, struct Value list, message, several overlapping signatures.
        method("CreateBook", P + ".CreateBookRequest", P + ".Book",
               ["parent,book", "parent, book.name ,from,class",
                "book.shelf.theme,book.global,tags,labels,extra_shelves,genre,values",
                "update_mask,request_id,isbn,legacy_id,shelf_index,genres,weight,cover,signed",
                "parent"],
               http=("post", "/v1/{parent=shelves/*}/books", "book")),
        method("ListBooks", P + ".ListBooksRequest", P + ".ListBooksResponse",
               ["parent", "parent,filter"],
               http=("get", "/v1/{parent=shelves/*}/books", None)),
        method("DeleteBook", P + ".DeleteBookRequest", ".google.protobuf.Empty",
               ["name", "name,force"],
               http=("delete", "/v1/{name=shelves/*/books/*}", None), deprecated=True),
        method("MoveBook", P + ".MoveBookRequest", ".google.longrunning.Operation",
               ["name,other_shelf_name"],
               http=("post", "/v1/{name=shelves/*/books/*}:move", "*"),
               lro=("Book", "MoveBookMetadata")),
        method("StreamBooks", P + ".StreamBooksRequest", P + ".Book", ["parent,in"],
               http=("get", "/v1/{parent=shelves/*}/books:stream", None),
               server_streaming=True),
        method("UploadBooks", P + ".CreateBookRequest", P + ".ListBooksResponse",
               ["parent,book"], client_streaming=True),
        method("Chat", P + ".StreamBooksRequest", P + ".Book", ["parent"],
               client_streaming=True, server_streaming=True),
        # An empty signature ("") and no signature at all.
        method("Ping", P + ".PingRequest", P + ".PingRequest", [""],
               http=("post", "/v1/ping", "*")),
        method("Pong", P + ".PingRequest", ".google.protobuf.Empty", [],
               http=("post", "/v1/pong", "*")),
    ]
    comments = {
        (6, 0): "Manages `books` on *shelves*.",
        (6, 0, 2, 0): "Gets a book. Plain text only.",
        (6, 0, 2, 1): "Creates a `Book` in a [Shelf][google.example.library.v1.Shelf].",
        (4, 3): "Request for CreateBook with `markup` and a trailing quote \"",
        (4, 3, 2, 0): "The parent shelf, e.g. `shelves/1`.",
        (4, 3, 2, 2): "Where the book comes from.",
        (4, 3, 2, 4): "Free-form tags.",
        (4, 3, 2, 5): "Labels [key -> value].",
        (4, 1, 2, 0): "Resource name of the book.",
    }
    fd = file_(
        "google/example/library/v1/library.proto", "google.example.library.v1",
        deps=COMMON_DEPS,
        messages=[shelf, book, get_req, create_req, list_req, list_resp, delete_req,
                  move_req, move_meta, stream_req, empty_sig_req],
        enums=[enum("Genre", ["GENRE_UNSPECIFIED", "FICTION", "SCIENCE"])],
        services=[service("Library", "library.example.com", methods,
                          scopes="https://www.googleapis.com/auth/cloud-platform")],
        comments=comments,
    )
    return fd


def api_cross_package():
    """Requests that live in a dependency package (no proto-plus wrapper)."""
    D = ".google.example.policy.v1"
    binding = message("Binding", [s("role", 1), s("members", 2, label=F.LABEL_REPEATED)])
    set_req = message(
        "SetPolicyRequest",
        [
            s("resource", 1),
            msgf("binding", 2, D + ".Binding"),             # non-primitive: dropped
            s("members", 3, label=F.LABEL_REPEATED),         # repeated primitive
            msgf("annotations", 4, D + ".SetPolicyRequest.AnnotationsEntry",
                 label=F.LABEL_REPEATED),                    # map: non-primitive
            # reserved word; not named in a signature (the pinned revision cannot
            # resolve reserved names on non-proto-plus messages: KeyError 'class_').
            s("class", 5),
            field("etag", 6, F.TYPE_BYTES),
            enumf("mode", 7, D + ".Mode"),                   # enum: non-primitive
            i32("versions", 8, label=F.LABEL_REPEATED),
            field("dry_run", 9, F.TYPE_BOOL),
        ],
        nested=[map_entry("AnnotationsEntry", F.TYPE_STRING, s("value", 2))],
    )
    get_req = message("GetPolicyRequest", [s("resource", 1), s("global", 2), s("scope", 3)])
    policy = message("Policy", [i32("version", 1),
                                msgf("bindings", 2, D + ".Binding", label=F.LABEL_REPEATED)])
    dep = file_(
        "google/example/policy/v1/policy.proto", "google.example.policy.v1",
        messages=[binding, set_req, get_req, policy],
        enums=[enum("Mode", ["MODE_UNSPECIFIED", "STRICT"])],
        comments={(4, 1, 2, 0): "The `resource` being changed.",
                  (4, 1, 2, 2): "Members to add."},
    )

    P = ".google.example.vault.v1"
    local_req = message("SealRequest", [s("name", 1), msgf("policy", 2, D + ".Policy")])
    local_resp = message("SealResponse", [s("name", 1)])
    methods = [
        method("SetPolicy", D + ".SetPolicyRequest", D + ".Policy",
               ["resource,binding,members,annotations",
                "resource,etag,mode,versions,dry_run"],
               http=("post", "/v1/{resource=vaults/*}:setPolicy", "*")),
        method("GetPolicy", D + ".GetPolicyRequest", D + ".Policy",
               ["resource", "resource,scope"],
               http=("get", "/v1/{resource=vaults/*}:getPolicy", None)),
        method("WatchPolicy", D + ".GetPolicyRequest", D + ".Policy", ["resource"],
               server_streaming=True),
        # Only non-primitive fields named: the mapping ends up empty.
        method("ReplaceBinding", D + ".SetPolicyRequest", D + ".Policy", ["binding,mode"]),
        # Same-package request in the same service, message from the dependency.
        method("Seal", P + ".SealRequest", P + ".SealResponse", ["name,policy", "policy.version"],
               http=("post", "/v1/{name=vaults/*}:seal", "*")),
    ]
    main = file_(
        "google/example/vault/v1/vault.proto", "google.example.vault.v1",
        deps=COMMON_DEPS + ["google/example/policy/v1/policy.proto"],
        messages=[local_req, local_resp],
        services=[service("Vault", "vault.example.com", methods)],
    )
    return [dep, main]


def api_multi():
    """Several services, a sub-package, paging + LRO; used with REST options."""
    P = ".google.example.fleet.v1"
    S = ".google.example.fleet.v1.telemetry"
    sub_msgs = [
        message("Reading", [s("sensor", 1), field("value", 2, F.TYPE_DOUBLE),
                            enumf("unit", 3, S + ".Unit")]),
        message("PushReadingsRequest",
                [s("vehicle", 1),
                 msgf("readings", 2, S + ".Reading", label=F.LABEL_REPEATED),
                 msgf("latest", 3, S + ".Reading"),
                 enumf("unit", 4, S + ".Unit"),
                 s("return", 5)]),
        message("PushReadingsResponse", [i32("accepted", 1)]),
    ]
    sub = file_(
        "google/example/fleet/v1/telemetry/telemetry.proto",
        "google.example.fleet.v1.telemetry",
        deps=COMMON_DEPS,
        messages=sub_msgs,
        enums=[enum("Unit", ["UNIT_UNSPECIFIED", "CELSIUS", "KPH"])],
        services=[service("Telemetry", "fleet.example.com", [
            method("PushReadings", S + ".PushReadingsRequest", S + ".PushReadingsResponse",
                   ["vehicle,readings", "vehicle,latest.sensor,unit,return"],
                   http=("post", "/v1/{vehicle=vehicles/*}/readings", "*")),
        ])],
    )
    vehicle = message("Vehicle", [s("name", 1), s("vin", 2),
                                  msgf("last_reading", 3, S + ".Reading")])
    msgs = [
        vehicle,
        message("ListVehiclesRequest", [s("parent", 1), i32("page_size", 2),
                                        s("page_token", 3), s("order_by", 4)]),
        message("ListVehiclesResponse",
                [msgf("vehicles", 1, P + ".Vehicle", label=F.LABEL_REPEATED),
                 s("next_page_token", 2)]),
        message("UpdateVehicleRequest",
                [msgf("vehicle", 1, P + ".Vehicle"),
                 msgf("update_mask", 2, ".google.protobuf.FieldMask"),
                 msgf("attributes", 3, P + ".UpdateVehicleRequest.AttributesEntry",
                      label=F.LABEL_REPEATED)],
                nested=[map_entry("AttributesEntry", F.TYPE_STRING,
                                  msgf("value", 2, ".google.protobuf.Value"))]),
        message("RecallVehiclesRequest", [s("parent", 1),
                                          s("vins", 2, label=F.LABEL_REPEATED),
                                          s("yield", 3)]),
        message("RecallVehiclesResponse", [i32("count", 1)]),
        message("RecallMetadata", [s("state", 1)]),
        message("Driver", [s("name", 1), s("license", 2)]),
        message("AssignDriverRequest", [s("vehicle", 1), msgf("driver", 2, P + ".Driver"),
                                        msgf("reading", 3, S + ".Reading")]),
    ]
    main = file_(
        "google/example/fleet/v1/fleet.proto", "google.example.fleet.v1",
        deps=COMMON_DEPS + ["google/example/fleet/v1/telemetry/telemetry.proto"],
        messages=msgs,
        services=[
            service("Fleet", "fleet.example.com", [
                method("ListVehicles", P + ".ListVehiclesRequest", P + ".ListVehiclesResponse",
                       ["parent", "parent,order_by"],
                       http=("get", "/v1/{parent=fleets/*}/vehicles", None)),
                method("UpdateVehicle", P + ".UpdateVehicleRequest", P + ".Vehicle",
                       ["vehicle,update_mask", "vehicle.name,vehicle.last_reading.sensor,attributes"],
                       http=("patch", "/v1/{vehicle.name=fleets/*/vehicles/*}", "vehicle")),
                method("RecallVehicles", P + ".RecallVehiclesRequest",
                       ".google.longrunning.Operation", ["parent,vins,yield"],
                       http=("post", "/v1/{parent=fleets/*}/vehicles:recall", "*"),
                       lro=("RecallVehiclesResponse", "RecallMetadata")),
            ]),
            service("Drivers", "drivers.example.com", [
                method("AssignDriver", P + ".AssignDriverRequest", P + ".Driver",
                       ["vehicle,driver", "vehicle,driver.license,reading"],
                       http=("post", "/v1/{vehicle=fleets/*/vehicles/*}:assign", "driver")),
                method("UnassignDriver", P + ".AssignDriverRequest", ".google.protobuf.Empty",
                       http=("post", "/v1/{vehicle=fleets/*/vehicles/*}:unassign", "*")),
            ]),
        ],
        comments={(6, 0, 2, 1): "Updates a vehicle; see `update_mask`.",
                  (4, 3, 2, 1): "Mask of fields to update, e.g. `vin`."},
    )
    return [sub, main]


def api_bare():
    """No annotations at all (no signatures, no http, no default host)."""
    P = ".example.bare.v1"
    fd = file_(
        "example/bare/v1/bare.proto", "example.bare.v1",
        messages=[message("EchoRequest", [s("content", 1), s("import", 2)]),
                  message("EchoResponse", [s("content", 1)])],
        services=[service("Echo", None, [
            method("Echo", P + ".EchoRequest", P + ".EchoResponse"),
            method("Expand", P + ".EchoRequest", P + ".EchoResponse", server_streaming=True),
            method("Collect", P + ".EchoRequest", P + ".EchoResponse", client_streaming=True),
        ])],
    )
    return [fd]


def build_cases():
    wk = well_known()
    lib = [api_library()]
    cross = api_cross_package()
    multi = api_multi()
    bare = api_bare()

    def ser(fds):
        return [fd.SerializeToString(deterministic=True) for fd in wk + fds]

    return [
        dict(name="library-default", package="google.example.library.v1",
             opts="", fds=ser(lib)),
        dict(name="library-grpc-nosnippets", package="google.example.library.v1",
             opts="transport=grpc,autogen-snippets=false", fds=ser(lib)),
        dict(name="library-rest-numeric", package="google.example.library.v1",
             opts="transport=rest,rest-numeric-enums", fds=ser(lib)),
        dict(name="cross-package-default", package="google.example.vault.v1",
             opts="", fds=ser(cross)),
        dict(name="cross-package-rest", package="google.example.vault.v1",
             opts="transport=rest,autogen-snippets=false", fds=ser(cross)),
        dict(name="fleet-subpackage-rest-numeric", package="google.example.fleet.v1",
             # (snippets off: the pinned revision cannot index snippets for a service
             # that lives in a sub-package -- KeyError in generate_sample_specs)
             opts="transport=grpc+rest,rest-numeric-enums,autogen-snippets=false",
             fds=ser(multi)),
        dict(name="fleet-old-naming", package="google.example.fleet.v1",
             opts="old-naming,autogen-snippets=false", fds=ser(multi)),
        dict(name="bare-no-annotations", package="example.bare.v1",
             opts="", fds=ser(bare)),
    ]


# --------------------------------------------------------------------------
def run_tree(tree, runner, inp, outp):
    env = dict(os.environ)
    env.pop("PYTHONPATH", None)
    env["PYTHONDONTWRITEBYTECODE"] = "1"
    env["PYTHONHASHSEED"] = "0"
    proc = subprocess.run([sys.executable, runner, tree, inp, outp],
                          cwd=os.path.dirname(runner), env=env,
                          stdout=subprocess.PIPE, stderr=subprocess.STDOUT, text=True)
    if proc.returncode != 0:
        print(proc.stdout)
        raise SystemExit("generator run failed for tree %s" % tree)
    with open(outp, "rb") as fh:
        return pickle.load(fh)


def main(argv):
    if len(argv) != 2:
        print(__doc__)
        return 2
    checkout = os.path.realpath(argv[1])
    tmp = tempfile.mkdtemp(prefix="twin-T05-")
    try:
        pristine = os.path.join(tmp, "pristine")
        os.mkdir(pristine)
        archive = subprocess.Popen(["git", "-C", checkout, "archive", "HEAD"],
                                   stdout=subprocess.PIPE)
        subprocess.check_call(["tar", "-x", "-C", pristine], stdin=archive.stdout)
        archive.stdout.close()
        if archive.wait() != 0:
            raise SystemExit("git archive failed")

        runner = os.path.join(tmp, "runner.py")
        with open(runner, "w") as fh:
            fh.write(RUNNER)
        inp = os.path.join(tmp, "cases.pkl")
        cases = build_cases()
        with open(inp, "wb") as fh:
            pickle.dump(cases, fh)

        base = run_tree(pristine, runner, inp, os.path.join(tmp, "out-base.pkl"))
        new = run_tree(checkout, runner, inp, os.path.join(tmp, "out-new.pkl"))

        diffs = []
        nfiles = 0
        flattened_hits = 0
        for case in cases:
            a, b = base[case["name"]], new[case["name"]]
            nfiles += len(a)
            for name in sorted(set(a) | set(b)):
                if name not in a:
                    diffs.append("%s: only in changed tree: %s" % (case["name"], name))
                elif name not in b:
                    diffs.append("%s: only in pristine tree: %s" % (case["name"], name))
                elif a[name] != b[name]:
                    diffs.append("%s: content differs: %s" % (case["name"], name))
                if name in a and "flattened_params = [" in a[name]:
                    flattened_hits += 1
        if not flattened_hits:
            diffs.append("sanity: no generated file contains the flattened_params block")
        if diffs:
            print("DIFFERENT: %d problem(s)" % len(diffs))
            for d in diffs:
                print("  " + d)
            return 1
        print("IDENTICAL: %d cases, %d files compared byte for byte "
              "(%d files contain flattened-argument code)"
              % (len(cases), nfiles, flattened_hits))
        return 0
    finally:
        shutil.rmtree(tmp, ignore_errors=True)


if __name__ == "__main__":
    sys.exit(main(sys.argv))
