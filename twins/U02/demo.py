#!/venv/bin/python
"""Twin U02 demo: the refactored generator emits byte-identical output.

Usage: /venv/bin/python demo.py <path-to-a-checkout-with-the-change>

A pristine copy of the checkout's HEAD is exported with ``git archive`` and the
generator is run from both trees (pristine, changed) in separate subprocesses
on the same serialized API descriptions.  Every emitted file is compared by
name and by content; a case that is expected to be rejected by the generator
must be rejected with the same exception type and message by both trees.
"""
import os
import pickle
import shutil
import subprocess
import sys
import tempfile

from google.protobuf import descriptor_pb2 as dpb

F = dpb.FieldDescriptorProto
OPT, REP = F.LABEL_OPTIONAL, F.LABEL_REPEATED
STR, I32, I64, BOOL, BYTES, MSG, ENUM = (
    F.TYPE_STRING, F.TYPE_INT32, F.TYPE_INT64, F.TYPE_BOOL, F.TYPE_BYTES,
    F.TYPE_MESSAGE, F.TYPE_ENUM,
)


# --------------------------------------------------------------------------
# Descriptor helpers
# --------------------------------------------------------------------------

def json_name(name):
    head, *rest = name.split("_")
    return head + "".join(p.capitalize() for p in rest)


def fld(name, number, type_, type_name=None, label=OPT, oneof=None, optional=False,
        options=None):
    f = F(name=name, number=number, type=type_, label=label, json_name=json_name(name))
    if type_name:
        f.type_name = type_name
    if oneof is not None:
        f.oneof_index = oneof
    if optional:
        f.proto3_optional = True
    if options is not None:
        f.options.CopyFrom(options)
    return f


def msg(name, fields=(), nested=(), enums=(), oneofs=()):
    m = dpb.DescriptorProto(name=name)
    m.field.extend(fields)
    m.nested_type.extend(nested)
    m.enum_type.extend(enums)
    for o in oneofs:
        m.oneof_decl.add(name=o)
    # protoc gives each proto3 optional field a synthetic oneof, after the real ones.
    for f in m.field:
        if f.proto3_optional:
            f.oneof_index = len(m.oneof_decl)
            m.oneof_decl.add(name="_" + f.name)
    return m


def enum(name, values, allow_alias=False, deprecated=False):
    e = dpb.EnumDescriptorProto(name=name)
    for n, v in values:
        e.value.add(name=n, number=v)
    if allow_alias:
        e.options.allow_alias = True
    if deprecated:
        e.options.deprecated = True
    return e


def add_map(parent, scope, name, number, key, value, value_type_name=None):
    entry = dpb.DescriptorProto(
        name="".join(p.capitalize() for p in name.split("_")) + "Entry")
    entry.field.extend([fld("key", 1, key), fld("value", 2, value, value_type_name)])
    entry.options.map_entry = True
    parent.nested_type.append(entry)
    parent.field.append(fld(name, number, MSG, f".{scope}.{entry.name}", label=REP))


def comment(fd, path, leading=None, trailing=None, detached=()):
    loc = fd.source_code_info.location.add()
    loc.path.extend(path)
    if leading is not None:
        loc.leading_comments = leading
    if trailing is not None:
        loc.trailing_comments = trailing
    loc.leading_detached_comments.extend(detached)


def dep(module):
    return dpb.FileDescriptorProto.FromString(module.DESCRIPTOR.serialized_pb)


def well_known():
    from google.api import annotations_pb2, client_pb2, field_behavior_pb2
    from google.api import http_pb2, launch_stage_pb2, resource_pb2
    from google.longrunning import operations_pb2
    from google.protobuf import any_pb2, descriptor_pb2, duration_pb2, empty_pb2
    from google.protobuf import field_mask_pb2, struct_pb2, timestamp_pb2
    from google.rpc import status_pb2
    return [dep(m) for m in (
        descriptor_pb2, any_pb2, duration_pb2, empty_pb2, field_mask_pb2, struct_pb2,
        timestamp_pb2, http_pb2, annotations_pb2, launch_stage_pb2, client_pb2,
        field_behavior_pb2, resource_pb2, status_pb2, operations_pb2,
    )]


def method(name, inp, out, http=None, sig=None, client_stream=False,
           server_stream=False, lro=None):
    from google.api import annotations_pb2, client_pb2
    from google.longrunning import operations_pb2
    m = dpb.MethodDescriptorProto(
        name=name, input_type=inp, output_type=out,
        client_streaming=client_stream, server_streaming=server_stream,
    )
    if http:
        verb, uri, body = http
        rule = m.options.Extensions[annotations_pb2.http]
        setattr(rule, verb, uri)
        if body:
            rule.body = body
    if sig:
        m.options.Extensions[client_pb2.method_signature].append(sig)
    if lro:
        info = m.options.Extensions[operations_pb2.operation_info]
        info.response_type, info.metadata_type = lro
    return m


def service(name, host, methods):
    from google.api import client_pb2
    s = dpb.ServiceDescriptorProto(name=name)
    s.method.extend(methods)
    s.options.Extensions[client_pb2.default_host] = host
    return s


# --------------------------------------------------------------------------
# Case 1: documented/undocumented enum values, every oneof shape, nested
# messages and map entries, reserved words, forward/recursive references that
# are resolved late (messages and nested enums declared after their first use).
# --------------------------------------------------------------------------

def case_library():
    pkg = "acme.library.v1"
    shared = dpb.FileDescriptorProto(
        name="acme/library/v1/shared.proto", package=pkg, syntax="proto3",
        dependency=["google/protobuf/timestamp.proto"],
    )
    shared.enum_type.extend([
        enum("Genre", [("GENRE_UNSPECIFIED", 0), ("FICTION", 1), ("POETRY", 2),
                       ("DRAMA", 3), ("ESSAY", 4)]),
        enum("Undocumented", [("UNDOCUMENTED_UNSPECIFIED", 0), ("None", 1), ("mro", 2)]),
        enum("Twin", [("TWIN_UNSPECIFIED", 0), ("A", 1), ("B", 1), ("NEG", -5)],
             allow_alias=True, deprecated=True),
    ])
    comment(shared, [5, 0], leading=" The genre of a book.\n Second line with *stars*.\n")
    comment(shared, [5, 0, 2, 0], leading=" Not known.\n")
    comment(shared, [5, 0, 2, 1], trailing=" Trailing only.\n")
    comment(shared, [5, 0, 2, 2], detached=[" Detached one.\n", " Detached two.\n"])
    comment(shared, [5, 0, 2, 3], leading="   \n")            # strips to the empty string
    # value 4 (ESSAY) has no location at all.
    comment(shared, [5, 2, 2, 2], leading=" Same number as A: a rather long description that "
            "needs to be wrapped because it runs on well beyond seventy-two columns.\n")

    # ``Shelf`` precedes everything it refers to (forward references, also to a
    # nested enum and a nested message of a later message).
    shelf = msg("Shelf", fields=[
        fld("name", 1, STR),
        fld("books", 2, MSG, f".{pkg}.Book", label=REP),
        fld("cover", 3, ENUM, f".{pkg}.Book.Cover"),
        fld("first_chapter", 4, MSG, f".{pkg}.Book.Chapter"),
        fld("genre", 5, ENUM, f".{pkg}.Genre"),
        fld("added", 6, MSG, ".google.protobuf.Timestamp"),
        fld("next", 7, MSG, f".{pkg}.Shelf"),
    ])
    page = msg("Page", fields=[
        fld("number", 1, I32),
        fld("chapter", 2, MSG, f".{pkg}.Book.Chapter"),           # up and sideways
        fld("notes", 3, MSG, f".{pkg}.Book.Chapter.Page.Note", label=REP),
    ], nested=[msg("Note", fields=[
        fld("text", 1, STR), fld("page", 2, MSG, f".{pkg}.Book.Chapter.Page"),
        fld("cover", 3, ENUM, f".{pkg}.Book.Cover", optional=True),
    ])])
    chapter = msg("Chapter", fields=[
        fld("title", 1, STR),
        fld("pages", 2, MSG, f".{pkg}.Book.Chapter.Page", label=REP),
        fld("style", 3, ENUM, f".{pkg}.Book.Chapter.Style"),
    ], nested=[page], enums=[enum("Style", [("STYLE_UNSPECIFIED", 0), ("PLAIN", 1)])])
    add_map(chapter, f"{pkg}.Book.Chapter", "page_by_number", 4, I32, MSG,
            f".{pkg}.Book.Chapter.Page")
    book = msg("Book", oneofs=["binding", "single"], fields=[
        fld("name", 1, STR),
        fld("class", 2, STR), fld("from", 3, STR), fld("import", 4, BYTES),
        fld("max", 5, I64), fld("not_reserved", 6, STR),
        fld("hardcover", 7, BOOL, oneof=0),
        fld("paperback", 8, MSG, f".{pkg}.Book.Chapter", oneof=0),
        fld("yield", 9, ENUM, f".{pkg}.Book.Cover", oneof=0),
        fld("lonely", 10, STR, oneof=1),
        fld("subtitle", 11, STR, optional=True),
        fld("genre", 12, ENUM, f".{pkg}.Genre", optional=True),
        fld("chapters", 13, MSG, f".{pkg}.Book.Chapter", label=REP),
        fld("sequel", 14, MSG, f".{pkg}.Book"),
        fld("author", 15, MSG, f".{pkg}.Author"),
        fld("covers", 16, ENUM, f".{pkg}.Book.Cover", label=REP),
    ], nested=[chapter], enums=[
        enum("Cover", [("COVER_UNSPECIFIED", 0), ("CLOTH", 1), ("LEATHER", 2)])])
    add_map(book, f"{pkg}.Book", "labels", 17, STR, STR)
    add_map(book, f"{pkg}.Book", "genre_by_code", 18, I64, ENUM, f".{pkg}.Genre")
    add_map(book, f"{pkg}.Book", "reviews", 19, STR, MSG, f".{pkg}.Author")
    add_map(book, f"{pkg}.Book", "cover_by_name", 20, STR, ENUM, f".{pkg}.Book.Cover")
    only_optional = msg("OnlyOptional", fields=[
        fld("a", 1, STR, optional=True), fld("b", 2, MSG, f".{pkg}.Author", optional=True)])
    single_oneof = msg("SingleOneof", oneofs=["just"], fields=[
        fld("one", 1, STR, oneof=0), fld("plain", 2, I32)])
    only_maps = msg("OnlyMaps")
    add_map(only_maps, f"{pkg}.OnlyMaps", "m", 1, BOOL, BYTES)
    author = msg("Author", fields=[
        fld("name", 1, STR), fld("books", 2, MSG, f".{pkg}.Book", label=REP)])
    shared.message_type.extend(
        [shelf, book, only_optional, single_oneof, only_maps, msg("Blank"), author])
    comment(shared, [4, 1], leading=" A book.\n\n With a second paragraph.\n")
    comment(shared, [4, 1, 2, 1], leading=" Reserved word as a name.\n")
    comment(shared, [4, 1, 2, 6], trailing=" A oneof member.\n")
    comment(shared, [4, 1, 4, 0], leading=" What it is bound in.\n")
    comment(shared, [4, 1, 4, 0, 2, 1], leading=" Woven.\n")
    comment(shared, [4, 1, 3, 0], leading=" Part of a book.\n")
    comment(shared, [4, 1, 3, 0, 4, 0, 2, 1], trailing=" Nothing fancy.\n")

    api_fd = dpb.FileDescriptorProto(
        name="acme/library/v1/library_service.proto", package=pkg, syntax="proto3",
        dependency=["acme/library/v1/shared.proto", "google/api/annotations.proto",
                    "google/api/client.proto", "google/longrunning/operations.proto",
                    "google/protobuf/empty.proto"],
    )
    api_fd.message_type.extend([
        msg("GetBookRequest", fields=[fld("name", 1, STR)]),
        msg("ListBooksRequest", fields=[
            fld("parent", 1, STR), fld("page_size", 2, I32), fld("page_token", 3, STR)]),
        msg("ListBooksResponse", fields=[
            fld("books", 1, MSG, f".{pkg}.Book", label=REP),
            fld("next_page_token", 2, STR)]),
        msg("PrintMetadata", fields=[fld("percent", 1, F.TYPE_FLOAT)]),
    ])
    api_fd.service.append(service("Library", "library.example.com", [
        method("GetBook", f".{pkg}.GetBookRequest", f".{pkg}.Book",
               http=("get", "/v1/{name=shelves/*/books/*}", None), sig="name"),
        method("ListBooks", f".{pkg}.ListBooksRequest", f".{pkg}.ListBooksResponse",
               http=("get", "/v1/{parent=shelves/*}/books", None), sig="parent"),
        method("PrintBook", f".{pkg}.GetBookRequest", ".google.longrunning.Operation",
               http=("post", "/v1/{name=shelves/*/books/*}:print", "*"),
               lro=(f"{pkg}.Book", f"{pkg}.PrintMetadata")),
        method("WatchBook", f".{pkg}.GetBookRequest", f".{pkg}.Book",
               http=("get", "/v1/{name=shelves/*/books/*}:watch", None), server_stream=True),
        method("Discuss", f".{pkg}.Author", f".{pkg}.Author",
               client_stream=True, server_stream=True),
        method("DeleteBook", f".{pkg}.GetBookRequest", ".google.protobuf.Empty",
               http=("delete", "/v1/{name=shelves/*/books/*}", None)),
    ]))
    return well_known() + [shared, api_fd], pkg


# --------------------------------------------------------------------------
# Case 2: sub-package, files that declare no top-level types at all (service
# only / completely empty / enums only), several services.
# --------------------------------------------------------------------------

def case_store():
    pkg = "acme.store.v2"
    sub = "acme.store.v2.inventory"
    base = dpb.FileDescriptorProto(
        name="acme/store/v2/base.proto", package=pkg, syntax="proto3")
    base.enum_type.append(enum("Currency", [("CURRENCY_UNSPECIFIED", 0), ("EUR", 978)]))
    base.message_type.extend([
        msg("Money", fields=[fld("currency", 1, ENUM, f".{pkg}.Currency"),
                             fld("units", 2, I64), fld("proto", 3, STR)]),
        msg("Order", fields=[fld("total", 1, MSG, f".{pkg}.Money"),
                             fld("items", 2, MSG, f".{pkg}.Order.Line", label=REP)],
            nested=[msg("Line", fields=[fld("sku", 1, STR), fld("in", 2, I32)])]),
    ])
    only_enums = dpb.FileDescriptorProto(
        name="acme/store/v2/codes.proto", package=pkg, syntax="proto3")
    only_enums.enum_type.append(enum("Code", [("CODE_UNSPECIFIED", 0), ("OK", 200)]))
    nothing = dpb.FileDescriptorProto(
        name="acme/store/v2/nothing.proto", package=pkg, syntax="proto3")
    # Services only: no message or enum is declared in this file.
    svc_only = dpb.FileDescriptorProto(
        name="acme/store/v2/orders_service.proto", package=pkg, syntax="proto3",
        dependency=["acme/store/v2/base.proto", "google/api/client.proto",
                    "google/api/annotations.proto"])
    svc_only.service.extend([
        service("Orders", "store.example.com", [
            method("PlaceOrder", f".{pkg}.Order", f".{pkg}.Order",
                   http=("post", "/v2/orders", "*"))]),
        service("Refunds", "store.example.com", [
            method("Refund", f".{pkg}.Order", f".{pkg}.Money",
                   http=("post", "/v2/refunds", "*"))]),
    ])
    item_fd = dpb.FileDescriptorProto(
        name="acme/store/v2/inventory/item.proto", package=sub, syntax="proto3",
        dependency=["acme/store/v2/base.proto", "google/api/client.proto",
                    "google/api/annotations.proto"])
    item = msg("Item", oneofs=["price_kind"], fields=[
        fld("price", 1, MSG, f".{pkg}.Money", oneof=0),
        fld("free", 2, BOOL, oneof=0),
        fld("parts", 3, MSG, f".{sub}.Item.Part", label=REP),
        fld("state", 4, ENUM, f".{sub}.Item.State"),
    ], nested=[msg("Part", fields=[
        fld("whole", 1, MSG, f".{sub}.Item"),
        fld("cost", 2, MSG, f".{pkg}.Money", optional=True)])],
        enums=[enum("State", [("STATE_UNSPECIFIED", 0), ("NEW", 1)])])
    add_map(item, f"{sub}.Item", "prices", 5, STR, MSG, f".{pkg}.Money")
    item_fd.message_type.extend([
        item, msg("FindItemRequest", fields=[fld("item", 1, MSG, f".{sub}.Item")])])
    item_fd.service.append(service("Stock", "store.example.com", [
        method("FindItem", f".{sub}.FindItemRequest", f".{sub}.Item",
               http=("post", "/v2/items:find", "*"), sig="item")]))
    sub_nothing = dpb.FileDescriptorProto(
        name="acme/store/v2/inventory/void.proto", package=sub, syntax="proto3")
    return well_known() + [base, only_enums, nothing, svc_only, item_fd, sub_nothing], pkg


# --------------------------------------------------------------------------
# Case 3: types only; degenerate shapes (enum without values, message without
# fields, nested-only content, late-resolved nested enum, extreme numbers).
# --------------------------------------------------------------------------

def case_bare():
    pkg = "acme.bare.v1beta1"
    enums_fd = dpb.FileDescriptorProto(
        name="acme/bare/v1beta1/only_enums.proto", package=pkg, syntax="proto3")
    enums_fd.enum_type.extend([
        enum("Solo", [("SOLO_UNSPECIFIED", 0)]),
        enum("Hollow", []),
        enum("Wide", [("WIDE_UNSPECIFIED", 0), ("MIN", -2147483648), ("MAX", 2147483647)]),
    ])
    comment(enums_fd, [5, 2, 2, 1], leading=" The smallest.\n")
    shapes = dpb.FileDescriptorProto(
        name="acme/bare/v1beta1/shapes.proto", package=pkg, syntax="proto3",
        dependency=["acme/bare/v1beta1/only_enums.proto"])
    holder = msg("Holder", nested=[
        msg("Empty"),
        msg("A", fields=[fld("b", 1, MSG, f".{pkg}.Holder.B"),
                         fld("e", 2, MSG, f".{pkg}.Holder.Empty"),
                         fld("tint", 3, ENUM, f".{pkg}.Holder.B.Tint")]),
        msg("B", fields=[fld("a", 1, MSG, f".{pkg}.Holder.A", label=REP),
                         fld("holder", 2, MSG, f".{pkg}.Holder"),
                         fld("wide", 3, ENUM, f".{pkg}.Wide")],
            enums=[enum("Tint", [("TINT_UNSPECIFIED", 0), ("RED", 1)])]),
    ])
    a = msg("A", fields=[
        fld("inner", 1, MSG, f".{pkg}.Holder.A"),
        fld("solo", 2, ENUM, f".{pkg}.Solo", label=REP),
        fld("next_page_token", 3, STR),
        fld("big_number", 536870911, F.TYPE_FIXED64),
    ])
    either = msg("Either", oneofs=["which", "what"], fields=[
        fld("left", 1, MSG, f".{pkg}.A", oneof=0),
        fld("right", 2, MSG, f".{pkg}.Holder.B", oneof=0),
        fld("this", 3, STR, oneof=1),
        fld("that", 4, ENUM, f".{pkg}.Zed.Last", oneof=1),
    ])
    zed = msg("Zed", enums=[enum("Last", [("LAST_UNSPECIFIED", 0), ("Z", 26)])])
    shapes.message_type.extend([holder, a, either, zed])
    return [enums_fd, shapes], pkg


# --------------------------------------------------------------------------
# Case 4: reserved-word fields inside a dependency package, rendered either as
# plain protobuf types or (proto-plus-deps) as proto-plus types.
# --------------------------------------------------------------------------

def case_deps():
    from google.api import field_behavior_pb2
    dep_pkg = "acme.shared.v1"
    pkg = "acme.app.v1"
    shared = dpb.FileDescriptorProto(
        name="acme/shared/v1/shared.proto", package=dep_pkg, syntax="proto3")
    shared.enum_type.append(enum("Level", [("LEVEL_UNSPECIFIED", 0), ("TOP", 1)]))
    shared.message_type.append(msg("Tag", fields=[
        fld("from", 1, STR), fld("level", 2, ENUM, f".{dep_pkg}.Level"),
        fld("note", 3, MSG, f".{dep_pkg}.Tag.Note"),
    ], nested=[msg("Note", fields=[fld("class", 1, STR), fld("plain", 2, STR)])]))
    required = dpb.FieldOptions()
    required.Extensions[field_behavior_pb2.field_behavior].append(
        field_behavior_pb2.FieldBehavior.Value("REQUIRED"))
    app = dpb.FileDescriptorProto(
        name="acme/app/v1/app.proto", package=pkg, syntax="proto3",
        dependency=["acme/shared/v1/shared.proto", "google/api/client.proto",
                    "google/api/annotations.proto", "google/api/field_behavior.proto",
                    "google/rpc/status.proto", "google/protobuf/any.proto"])
    thing = msg("Thing", fields=[
        fld("name", 1, STR),
        fld("tag", 2, MSG, f".{dep_pkg}.Tag"),
        fld("notes", 3, MSG, f".{dep_pkg}.Tag.Note", label=REP),
        fld("level", 4, ENUM, f".{dep_pkg}.Level", optional=True),
        fld("error", 5, MSG, ".google.rpc.Status"),
        fld("any", 6, MSG, ".google.protobuf.Any"),
        fld("global", 7, STR),
    ])
    add_map(thing, f"{pkg}.Thing", "tags", 8, STR, MSG, f".{dep_pkg}.Tag")
    add_map(thing, f"{pkg}.Thing", "levels", 9, I64, ENUM, f".{dep_pkg}.Level")
    req = msg("UpdateThingRequest", fields=[
        fld("thing", 1, MSG, f".{pkg}.Thing", options=required),
        fld("tag", 2, MSG, f".{dep_pkg}.Tag", options=required),
        fld("lambda", 3, STR, options=required),
    ])
    app.message_type.extend([thing, req])
    app.service.append(service("Things", "app.example.com", [
        method("UpdateThing", f".{pkg}.UpdateThingRequest", f".{pkg}.Thing",
               http=("patch", "/v1/{thing.name=things/*}", "thing"), sig="thing,tag,lambda"),
    ]))
    return well_known() + [shared, app], pkg


# --------------------------------------------------------------------------
# Case 5 (negative): a field that names a type nobody declares.  The late
# resolution pass must reject it with the very same error in both trees.
# --------------------------------------------------------------------------

def case_dangling():
    pkg = "acme.dangling.v1"
    fd = dpb.FileDescriptorProto(
        name="acme/dangling/v1/dangling.proto", package=pkg, syntax="proto3")
    fd.message_type.extend([
        msg("Fine", fields=[fld("later", 1, MSG, f".{pkg}.Later")]),
        msg("Broken", fields=[fld("ok", 1, STR), fld("ghost", 2, MSG, f".{pkg}.Ghost")]),
        msg("Later"),
    ])
    return [fd], pkg


def build_cases():
    library, library_pkg = case_library()
    store, store_pkg = case_store()
    bare, bare_pkg = case_bare()
    deps, deps_pkg = case_deps()
    dangling, dangling_pkg = case_dangling()
    cases = [
        ("library-default", library, library_pkg, ""),
        ("library-rest-numeric", library, library_pkg,
         "transport=rest,rest-numeric-enums,autogen-snippets=false"),
        ("store-subpackages", store, store_pkg, "autogen-snippets=false"),
        ("store-old-naming-grpc", store, store_pkg,
         "old-naming,transport=grpc,autogen-snippets=false"),
        ("bare-types-only", bare, bare_pkg, "autogen-snippets=false"),
        ("deps-plain", deps, deps_pkg, "transport=grpc+rest"),
        ("deps-proto-plus", deps, deps_pkg,
         "proto-plus-deps=acme.shared.v1,autogen-snippets=false"),
        ("dangling-reference", dangling, dangling_pkg, "autogen-snippets=false"),
    ]
    return [
        (name, [fd.SerializeToString() for fd in fds], pkg, opts)
        for name, fds, pkg, opts in cases
    ]


# --------------------------------------------------------------------------
# Worker: runs in a subprocess with exactly one copy of ``gapic`` importable.
# --------------------------------------------------------------------------

WORKER = r'''
import os, pickle, sys
tree, cases_path, out_path = sys.argv[1:4]
tree = os.path.realpath(tree)

# The virtualenv has an editable install of another checkout.  Make the tree
# under test the only provider of ``gapic``: drop the editable finder and its
# path hook, drop every other path entry that holds a ``gapic`` package, and
# put the tree first.
sys.meta_path[:] = [
    f for f in sys.meta_path
    if "editable" not in (getattr(f, "__module__", "") + getattr(f, "__name__", "")
                          + type(f).__name__).lower()
]
sys.path_hooks[:] = [
    h for h in sys.path_hooks
    if "editable" not in (getattr(h, "__module__", "") or "").lower()
    and "editable" not in getattr(h, "__qualname__", "").lower()
]
sys.path[:] = [tree] + [
    p for p in sys.path
    if "__editable__" not in p
    and os.path.realpath(p or os.getcwd()) != tree
    and not os.path.exists(os.path.join(p or os.getcwd(), "gapic"))
]
sys.path_importer_cache.clear()
for name in [m for m in sys.modules if m == "gapic" or m.startswith("gapic.")]:
    del sys.modules[name]

# pandoc is not installed here; stub the conversion identically for every run.
import pypandoc
pypandoc.convert_text = lambda text, to, format=None, extra_args=(), **kw: text

from google.protobuf import descriptor_pb2
from gapic.generator import Generator
from gapic.schema.api import API
from gapic.utils import Options


def under_tree(path):
    return os.path.realpath(path).startswith(tree + os.sep)


results = {}
with open(cases_path, "rb") as fh:
    cases = pickle.load(fh)
for name, blobs, package, opt_string in cases:
    fds = [descriptor_pb2.FileDescriptorProto.FromString(b) for b in blobs]
    opts = Options.build(opt_string)
    assert opts.templates and all(under_tree(t) for t in opts.templates), opts.templates
    try:
        api = API.build(fds, package=package, opts=opts)
        generator = Generator(opts)
        assert all(under_tree(p) for p in generator._env.loader.searchpath), (
            generator._env.loader.searchpath)
        response = generator.get_response(api, opts)
    except Exception as exc:  # compared between the two trees, see main()
        results[name] = {"<exception>": f"{type(exc).__name__}: {exc}"}
        continue
    files = {}
    for f in response.file:
        assert f.name not in files, f.name
        files[f.name] = f.content
    results[name] = files

loaded = {m: mod for m, mod in sys.modules.items()
          if (m == "gapic" or m.startswith("gapic.")) and mod is not None}
assert "gapic.schema.api" in loaded and "gapic.schema.wrappers" in loaded, sorted(loaded)
for m, mod in loaded.items():
    # ``gapic`` itself is a namespace package (no __init__.py, no __file__):
    # every directory it spans must then be inside the tree.
    origin = getattr(mod, "__file__", None)
    places = [origin] if origin else list(getattr(mod, "__path__", []))
    assert places and all(under_tree(p) for p in places), (m, places, tree)

with open(out_path, "wb") as fh:
    pickle.dump(results, fh)
'''


def run_worker(tree, workdir, cases_path, label):
    out_path = os.path.join(workdir, f"out-{label}.pickle")
    script = os.path.join(workdir, "worker.py")
    env = dict(os.environ)
    env.pop("PYTHONPATH", None)
    env["PYTHONHASHSEED"] = "0"
    env["PYTHONDONTWRITEBYTECODE"] = "1"
    proc = subprocess.run(
        [sys.executable, script, tree, cases_path, out_path],
        cwd=workdir, env=env, capture_output=True, text=True, timeout=300,
    )
    if proc.returncode != 0:
        sys.stderr.write(proc.stdout + proc.stderr)
        raise SystemExit(f"generator run failed in the {label} tree")
    with open(out_path, "rb") as fh:
        return pickle.load(fh)


EXPECTED_REJECTIONS = {"dangling-reference"}


def main(argv):
    if len(argv) != 2:
        print(__doc__)
        return 2
    checkout = os.path.abspath(argv[1])
    workdir = tempfile.mkdtemp(prefix="twin-U02-demo-")
    try:
        pristine = os.path.join(workdir, "pristine")
        os.mkdir(pristine)
        archive = subprocess.Popen(
            ["git", "-C", checkout, "archive", "HEAD"], stdout=subprocess.PIPE)
        subprocess.run(["tar", "-x", "-C", pristine], stdin=archive.stdout, check=True)
        if archive.wait() != 0:
            raise SystemExit("git archive failed")

        with open(os.path.join(workdir, "worker.py"), "w") as fh:
            fh.write(WORKER)
        cases_path = os.path.join(workdir, "cases.pickle")
        with open(cases_path, "wb") as fh:
            pickle.dump(build_cases(), fh)

        before = run_worker(pristine, workdir, cases_path, "pristine")
        after = run_worker(checkout, workdir, cases_path, "changed")

        problems = []
        total = type_files = rejected = 0
        for case in sorted(set(before) | set(after)):
            b, a = before.get(case, {}), after.get(case, {})
            failed = "<exception>" in b or "<exception>" in a
            if failed != (case in EXPECTED_REJECTIONS):
                problems.append(
                    f"{case}: unexpected outcome: pristine={b.get('<exception>', 'ok')!r} "
                    f"changed={a.get('<exception>', 'ok')!r}")
            if failed:
                rejected += 1
            for name in sorted(set(b) | set(a)):
                if name != "<exception>":
                    total += 1
                    type_files += "/types/" in name
                if name not in a:
                    problems.append(f"{case}: {name}: missing with the change")
                elif name not in b:
                    problems.append(f"{case}: {name}: only with the change")
                elif a[name].encode("utf-8") != b[name].encode("utf-8"):
                    problems.append(f"{case}: {name}: content differs")
        if problems:
            print(f"DIFFERENT: {len(problems)} problem(s) over {total} files")
            for p in problems:
                print("  " + p)
            return 1
        if not total or not type_files:
            print("no output produced; nothing was compared")
            return 1
        print(f"IDENTICAL: {len(before)} API/option cases ({rejected} rejected identically), "
              f"{total} files ({type_files} under types/) byte-for-byte equal")
        return 0
    finally:
        shutil.rmtree(workdir, ignore_errors=True)


if __name__ == "__main__":
    sys.exit(main(sys.argv))
