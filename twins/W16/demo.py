#!/usr/bin/env python
"""Differential demo for the W16 refactoring (property C16: selective GAPIC generation).

Usage:  /venv/bin/python demo.py <path-to-a-checkout-with-the-change>

* exports the checkout's HEAD (pristine baseline) with `git archive`,
* builds several API descriptions (descriptor_pb2, no protoc) and several
  service-yaml / option combinations for each of them,
* runs the generator on every case with BOTH trees (one subprocess per tree so
  that the two copies of the `gapic` package never mix),
* compares every output file (names and bytes).  Cases that are expected to be
  rejected (bad `selective_gapic_generation.methods`) are compared on the
  exception type and message.

Exit 0 + one summary line when everything is identical, exit 1 otherwise.
"""

import hashlib
import os
import pickle
import shutil
import subprocess
import sys
import tempfile

# --------------------------------------------------------------------------- #
#  Worker: runs inside a subprocess, with exactly one tree on sys.path.
# --------------------------------------------------------------------------- #


def _worker(tree: str, cases_path: str, out_path: str) -> None:
    tree = os.path.realpath(tree)

    # The tree under test goes FIRST; anything else that could provide `gapic`
    # (the editable install of /repo: a path hook entry + a meta path finder,
    # the script directory, the cwd) is dropped.
    def _provides_gapic(entry: str) -> bool:
        if "__editable__" in entry:
            return True
        if entry in ("", "."):
            return True
        try:
            return os.path.isdir(os.path.join(entry, "gapic")) and (
                os.path.realpath(entry) != tree
            )
        except OSError:
            return False

    sys.path[:] = [tree] + [p for p in sys.path if not _provides_gapic(p)]
    sys.meta_path[:] = [
        f
        for f in sys.meta_path
        if "editable" not in (getattr(f, "__name__", "") + type(f).__name__).lower()
        and "editable" not in getattr(f, "__module__", "").lower()
    ]
    sys.path_hooks[:] = [
        h for h in sys.path_hooks if "editable" not in getattr(h, "__module__", "").lower()
    ]
    sys.path_importer_cache.clear()
    for name in [m for m in sys.modules if m == "gapic" or m.startswith("gapic.")]:
        del sys.modules[name]
    os.chdir(tree)

    # pandoc is not installed: stub the conversion identically for both runs.
    import pypandoc  # type: ignore

    def _fake_convert_text(text, to, format=None, extra_args=(), **kwargs):
        return "[%s>%s %s] %s" % (format, to, " ".join(extra_args), text)

    pypandoc.convert_text = _fake_convert_text

    import yaml
    from google.protobuf import descriptor_pb2

    from gapic.generator import generator
    from gapic.schema import api as api_mod
    from gapic.utils import Options

    with open(cases_path, "rb") as f:
        cases = pickle.load(f)

    results = {}
    for case in cases:
        fds = []
        for blob in case["files"]:
            fd = descriptor_pb2.FileDescriptorProto()
            fd.ParseFromString(blob)
            fds.append(fd)

        opt_string = case["opts"]
        yaml_path = None
        if case["service_yaml"] is not None:
            fd_, yaml_path = tempfile.mkstemp(suffix=".yaml", dir=os.path.dirname(out_path))
            with os.fdopen(fd_, "w") as yf:
                yaml.safe_dump(case["service_yaml"], yf)
            opt_string = ",".join(x for x in (opt_string, "service-yaml=" + yaml_path) if x)

        files = {}
        try:
            opts = Options.build(opt_string)
            for tdir in opts.templates:
                assert os.path.realpath(tdir).startswith(tree + os.sep), (tdir, tree)
            api_schema = api_mod.API.build(fds, package=case["package"], opts=opts)
            res = generator.Generator(opts).get_response(api_schema, opts)
            for out in res.file:
                assert out.name not in files, out.name
                files[out.name] = out.content.encode("utf-8")
            # A few direct observations of the pruned / marked model as well.
            model = []
            for proto_name, proto in sorted(api_schema.all_protos.items()):
                model.append("proto %s" % proto_name)
                for sname, svc in proto.services.items():
                    model.append(
                        "  service %s internal=%s client=%s async=%s"
                        % (sname, svc.is_internal, svc.client_name, svc.async_client_name)
                    )
                    for mname, meth in svc.methods.items():
                        model.append(
                            "    method %s -> %s internal=%s"
                            % (mname, meth.client_method_name, meth.is_internal)
                        )
                for mname in proto.all_messages:
                    model.append("  message %s" % mname)
                for ename in proto.all_enums:
                    model.append("  enum %s" % ename)
            files["__model__"] = "\n".join(model).encode("utf-8")
        except Exception as exc:  # compared between the two trees
            if not case.get("expect_error"):
                raise
            files = {
                "__error__": ("%s: %s" % (type(exc).__name__, exc)).encode("utf-8")
            }
        else:
            assert not case.get("expect_error"), "case %s should be rejected" % case["id"]
        finally:
            if yaml_path:
                os.unlink(yaml_path)
        results[case["id"]] = files

    # Every gapic module (and the templates) must come from the tree under test.
    loaded = [m for n, m in sys.modules.items() if n == "gapic" or n.startswith("gapic.")]
    assert loaded
    for mod in loaded:
        mod_file = getattr(mod, "__file__", None)
        if mod_file is None:  # namespace package
            paths = [os.path.realpath(p) for p in list(mod.__path__)]
            assert paths and all(p.startswith(tree + os.sep) for p in paths), (mod, paths)
        else:
            assert os.path.realpath(mod_file).startswith(tree + os.sep), (mod, mod_file)

    with open(out_path, "wb") as f:
        pickle.dump(results, f)


# --------------------------------------------------------------------------- #
#  Descriptor construction helpers (driver side; only needs protobuf).
# --------------------------------------------------------------------------- #


def _build_cases():
    from google.api import annotations_pb2, client_pb2, field_behavior_pb2, resource_pb2
    from google.cloud import extended_operations_pb2 as ex_ops_pb2
    from google.longrunning import operations_pb2
    from google.protobuf import descriptor_pb2 as d

    F = d.FieldDescriptorProto

    def field(name, number, type_=F.TYPE_STRING, type_name=None, repeated=False,
              oneof_index=None, resource_ref=None, resource_child=None, required=False,
              op_field=None, op_request=None, op_response=None, proto3_optional=False):
        f = F(name=name, number=number, type=type_,
              label=F.LABEL_REPEATED if repeated else F.LABEL_OPTIONAL)
        if type_name:
            f.type_name = type_name
        if oneof_index is not None:
            f.oneof_index = oneof_index
        if proto3_optional:
            f.proto3_optional = True
        if resource_ref:
            f.options.Extensions[resource_pb2.resource_reference].type = resource_ref
        if resource_child:
            f.options.Extensions[resource_pb2.resource_reference].child_type = resource_child
        if required:
            f.options.Extensions[field_behavior_pb2.field_behavior].append(
                field_behavior_pb2.REQUIRED)
        if op_field is not None:
            f.options.Extensions[ex_ops_pb2.operation_field] = op_field
        if op_request:
            f.options.Extensions[ex_ops_pb2.operation_request_field] = op_request
        if op_response:
            f.options.Extensions[ex_ops_pb2.operation_response_field] = op_response
        return f

    def message(name, fields=(), nested=(), enums=(), oneofs=(), resource=None, map_entry=False):
        m = d.DescriptorProto(name=name)
        m.field.extend(fields)
        m.nested_type.extend(nested)
        m.enum_type.extend(enums)
        for o in oneofs:
            m.oneof_decl.add(name=o)
        if resource:
            r = m.options.Extensions[resource_pb2.resource]
            r.type = resource[0]
            r.pattern.extend(resource[1])
        if map_entry:
            m.options.map_entry = True
        return m

    def enum(name, values):
        e = d.EnumDescriptorProto(name=name)
        for i, v in enumerate(values):
            e.value.add(name=v, number=i)
        return e

    def method(name, inp, out, http=None, signature=None, lro=None, server_streaming=False,
               client_streaming=False, op_service=None, polling=False):
        m = d.MethodDescriptorProto(name=name, input_type=inp, output_type=out,
                                    server_streaming=server_streaming,
                                    client_streaming=client_streaming)
        if http:
            verb, uri, body = http
            rule = m.options.Extensions[annotations_pb2.http]
            setattr(rule, verb, uri)
            if body:
                rule.body = body
        if signature is not None:
            m.options.Extensions[client_pb2.method_signature].append(signature)
        if lro:
            info = m.options.Extensions[operations_pb2.operation_info]
            info.response_type, info.metadata_type = lro
        if op_service:
            m.options.Extensions[ex_ops_pb2.operation_service] = op_service
        if polling:
            m.options.Extensions[ex_ops_pb2.operation_polling_method] = True
        return m

    def service(name, host, methods, scopes=None):
        s = d.ServiceDescriptorProto(name=name)
        s.method.extend(methods)
        s.options.Extensions[client_pb2.default_host] = host
        if scopes:
            s.options.Extensions[client_pb2.oauth_scopes] = scopes
        return s

    def fdp(name, package, messages=(), enums=(), services=(), deps=(), file_resources=()):
        f = d.FileDescriptorProto(name=name, package=package, syntax="proto3")
        f.message_type.extend(messages)
        f.enum_type.extend(enums)
        f.service.extend(services)
        f.dependency.extend(deps)
        for rtype, patterns in file_resources:
            r = f.options.Extensions[resource_pb2.resource_definition].add()
            r.type = rtype
            r.pattern.extend(patterns)
        return f

    def settings(version, methods, internal=False):
        return {
            "version": version,
            "python_settings": {
                "common": {
                    "selective_gapic_generation": {
                        "methods": list(methods),
                        "generate_omitted_as_internal": internal,
                    }
                }
            },
        }

    def service_yaml(apis, *library_settings):
        return {
            "apis": [{"name": a} for a in apis],
            "publishing": {"library_settings": list(library_settings)},
        }

    cases = []

    def add(case_id, files, package, opts="", yaml_cfg=None, expect_error=False):
        cases.append({
            "id": case_id,
            "files": [f.SerializeToString() for f in files],
            "package": package,
            "opts": opts,
            "service_yaml": yaml_cfg,
            "expect_error": expect_error,
        })

    # ------------------------------------------------------------------ #
    # API 1: a library API spread over three files of the target package
    # (one in a sub-package) plus two dependency files.
    # ------------------------------------------------------------------ #
    P = "google.example.library.v1"

    def library_files():
        lro = fdp(
            "google/longrunning/operations.proto", "google.longrunning",
            messages=[message("Operation", [field("name", 1), field("done", 2, F.TYPE_BOOL)])],
        )
        dep = fdp(
            "google/dep/common.proto", "google.dep",
            messages=[
                message("Money", [field("units", 1, F.TYPE_INT64), field("currency", 2)]),
                message("Unused", [field("x", 1)]),
            ],
            enums=[enum("Colour", ["COLOUR_UNSPECIFIED", "RED"])],
        )
        types = fdp(
            "google/example/library/v1/types.proto", P,
            deps=["google/dep/common.proto"],
            file_resources=[("library.example.com/Publisher", ["publishers/{publisher}"])],
            messages=[
                message(
                    "Book",
                    [
                        field("name", 1),
                        field("author", 2, resource_ref="library.example.com/Author"),
                        field("price", 3, F.TYPE_MESSAGE, ".google.dep.Money"),
                        field("genre", 4, F.TYPE_ENUM, "." + P + ".Book.Genre"),
                        field("chapters", 5, F.TYPE_MESSAGE, "." + P + ".Book.Chapter",
                              repeated=True),
                        field("labels", 6, F.TYPE_MESSAGE, "." + P + ".Book.LabelsEntry",
                              repeated=True),
                        field("isbn", 7, oneof_index=0),
                        field("legacy_id", 8, F.TYPE_INT32, oneof_index=0),
                        field("class", 9),
                        field("subtitle", 10, oneof_index=1, proto3_optional=True),
                    ],
                    nested=[
                        message("Chapter", [
                            field("title", 1),
                            field("footnotes", 2, F.TYPE_MESSAGE,
                                  "." + P + ".Book.Chapter.Footnote", repeated=True),
                        ], nested=[message("Footnote", [field("text", 1)])]),
                        message("LabelsEntry", [field("key", 1), field("value", 2)],
                                map_entry=True),
                    ],
                    enums=[enum("Genre", ["GENRE_UNSPECIFIED", "FICTION", "ESSAY"])],
                    oneofs=["identifier", "_subtitle"],
                    resource=("library.example.com/Book",
                              ["shelves/{shelf}/books/{book}"]),
                ),
                message("Author", [field("name", 1), field("bio", 2)],
                        resource=("library.example.com/Author", ["authors/{author}"])),
                # recursive and mutually recursive types
                message("Shelf", [
                    field("name", 1),
                    field("sub_shelves", 2, F.TYPE_MESSAGE, "." + P + ".Shelf", repeated=True),
                    field("room", 3, F.TYPE_MESSAGE, "." + P + ".Room"),
                    field("theme", 4, F.TYPE_ENUM, "." + P + ".Theme"),
                ], resource=("library.example.com/Shelf", ["shelves/{shelf}"])),
                message("Room", [
                    field("name", 1),
                    field("shelves", 2, F.TYPE_MESSAGE, "." + P + ".Shelf", repeated=True),
                ]),
                message("Orphan", [field("name", 1),
                                   field("colour", 2, F.TYPE_ENUM, ".google.dep.Colour")]),
            ],
            enums=[enum("Theme", ["THEME_UNSPECIFIED", "DARK"]),
                   enum("OrphanEnum", ["ORPHAN_ENUM_UNSPECIFIED"])],
        )
        SP = P + ".audit"
        sub = fdp(
            "google/example/library/v1/audit/audit.proto", SP,
            messages=[
                message("AuditRecord", [field("actor", 1), field("when", 2, F.TYPE_INT64)]),
                message("NeverUsed", [field("z", 1)]),
            ],
        )
        svc = fdp(
            "google/example/library/v1/library.proto", P,
            deps=["google/example/library/v1/types.proto",
                  "google/example/library/v1/audit/audit.proto",
                  "google/longrunning/operations.proto"],
            messages=[
                message("GetBookRequest", [
                    field("name", 1, resource_ref="library.example.com/Book", required=True)]),
                message("ListBooksRequest", [
                    field("parent", 1, resource_child="library.example.com/Book"),
                    field("page_size", 2, F.TYPE_INT32),
                    field("page_token", 3),
                    # reference to a resource that is only defined at file level
                    field("publisher", 4, resource_ref="library.example.com/Publisher"),
                ]),
                message("ListBooksResponse", [
                    field("books", 1, F.TYPE_MESSAGE, "." + P + ".Book", repeated=True),
                    field("next_page_token", 2),
                ]),
                message("CreateBookRequest", [
                    field("parent", 1, resource_ref="library.example.com/Shelf"),
                    field("book", 2, F.TYPE_MESSAGE, "." + P + ".Book"),
                ]),
                message("CreateBookMetadata", [
                    field("progress", 1, F.TYPE_INT32),
                    field("record", 2, F.TYPE_MESSAGE, "." + SP + ".AuditRecord"),
                ]),
                message("StreamBooksRequest", [field("shelf", 1)]),
                message("ImportRequest", [field("source", 1),
                                          field("shelf", 2, F.TYPE_MESSAGE, "." + P + ".Shelf")]),
                message("ImportResponse", [field("count", 1, F.TYPE_INT32)]),
                message("ChatMessage", [field("text", 1)]),
                message("GetShelfRequest", [field("name", 1)]),
                message("PurgeRequest", [field("filter", 1)]),
                message("PurgeResponse", [field("purged", 1, F.TYPE_INT32)]),
            ],
            services=[
                service("Library", "library.example.com", [
                    method("GetBook", "." + P + ".GetBookRequest", "." + P + ".Book",
                           http=("get", "/v1/{name=shelves/*/books/*}", None), signature="name"),
                    method("ListBooks", "." + P + ".ListBooksRequest",
                           "." + P + ".ListBooksResponse",
                           http=("get", "/v1/{parent=shelves/*}/books", None),
                           signature="parent"),
                    method("CreateBook", "." + P + ".CreateBookRequest",
                           ".google.longrunning.Operation",
                           http=("post", "/v1/{parent=shelves/*}/books", "book"),
                           signature="parent,book",
                           lro=("Book", "CreateBookMetadata")),
                    method("StreamBooks", "." + P + ".StreamBooksRequest", "." + P + ".Book",
                           http=("get", "/v1/{shelf=shelves/*}:stream", None),
                           server_streaming=True),
                    method("Import", "." + P + ".ImportRequest", "." + P + ".ImportResponse",
                           http=("post", "/v1/books:import", "*")),
                    method("Chat", "." + P + ".ChatMessage", "." + P + ".ChatMessage",
                           client_streaming=True, server_streaming=True),
                ], scopes="https://www.googleapis.com/auth/cloud-platform"),
                service("Admin", "admin.example.com", [
                    method("GetShelf", "." + P + ".GetShelfRequest", "." + P + ".Shelf",
                           http=("get", "/v1/{name=shelves/*}", None), signature="name"),
                    method("Purge", "." + P + ".PurgeRequest", "." + P + ".PurgeResponse",
                           http=("post", "/v1/shelves:purge", "*")),
                ]),
            ],
        )
        return [lro, dep, types, sub, svc]

    L = P + ".Library."
    A = P + ".Admin."
    lib_apis = [P + ".Library", P + ".Admin"]

    add("lib/full", library_files(), P)
    add("lib/full-yaml-other-version", library_files(), P, "autogen-snippets=false",
        service_yaml(lib_apis, settings("google.example.library.v2", [])))
    add("lib/empty-method-list", library_files(), P, "",
        service_yaml(lib_apis, settings(P, [])))
    for internal in (False, True):
        tag = "internal" if internal else "omit"
        add("lib/get+create/" + tag, library_files(), P, "",
            service_yaml(lib_apis, settings(P, [L + "GetBook", L + "CreateBook"], internal)))
        add("lib/paged+import+rest/" + tag, library_files(), P,
            "transport=grpc+rest,rest-numeric-enums",
            service_yaml(lib_apis, settings(P, [L + "ListBooks", L + "Import"], internal)))
        add("lib/admin-only-rest/" + tag, library_files(), P,
            "transport=rest,autogen-snippets=false",
            service_yaml(lib_apis, settings(P, [A + "GetShelf"], internal)))
        add("lib/streams-both-services/" + tag, library_files(), P, "",
            service_yaml(lib_apis,
                         settings(P, [L + "StreamBooks", L + "Chat", A + "Purge",
                                      L + "StreamBooks"], internal)))
        add("lib/everything-listed/" + tag, library_files(), P, "",
            service_yaml(lib_apis, settings(
                P, [L + m for m in ("GetBook", "ListBooks", "CreateBook", "StreamBooks",
                                    "Import", "Chat")] + [A + "GetShelf", A + "Purge"],
                internal)))
    # settings for two versions, only one of which is the generated package
    add("lib/two-versions", library_files(), P, "",
        service_yaml(lib_apis,
                     settings("google.example.library.v2", []),
                     settings(P, [A + "Purge"])))

    # rejected configurations (settings validation)
    add("lib/bad/unknown-method", library_files(), P, "",
        service_yaml(lib_apis, settings(P, [L + "GetBook", L + "Nope", A + "AlsoNope"])),
        expect_error=True)
    add("lib/bad/mismatched-version", library_files(), P, "",
        service_yaml(lib_apis, settings("google.example.library.v2", [L + "GetBook"])),
        expect_error=True)
    add("lib/bad/duplicate-version", library_files(), P, "",
        service_yaml(lib_apis, settings(P, [L + "GetBook"]), settings(P, [L + "Nope"]),
                     settings("google.example.library.v2", [L + "Import", "x.y.Z"])),
        expect_error=True)

    # ------------------------------------------------------------------ #
    # API 2: compute-style API with extended operations (REST only).
    # ------------------------------------------------------------------ #
    C = "google.cloud.fakecompute.v1"
    OM = ex_ops_pb2.OperationResponseMapping

    def compute_files():
        main = fdp(
            "google/cloud/fakecompute/v1/compute.proto", C,
            messages=[
                message("Operation", [
                    field("name", 1, op_field=OM.NAME),
                    field("http_error_status_code", 2, F.TYPE_INT32, op_field=OM.ERROR_CODE),
                    field("http_error_message", 3, op_field=OM.ERROR_MESSAGE),
                    field("status", 4, F.TYPE_ENUM, "." + C + ".Operation.Status",
                          op_field=OM.STATUS),
                    field("warnings", 5, F.TYPE_MESSAGE, "." + C + ".Warning", repeated=True),
                ], enums=[enum("Status", ["UNDEFINED_STATUS", "DONE", "PENDING", "RUNNING"])]),
                message("Warning", [field("code", 1), field("message", 2)]),
                message("Address", [field("name", 1), field("region", 2),
                                    field("tier", 3, F.TYPE_ENUM, "." + C + ".Address.Tier")],
                        enums=[enum("Tier", ["UNDEFINED_TIER", "PREMIUM"])]),
                message("InsertAddressRequest", [
                    field("project", 1, op_request="project", required=True),
                    field("region", 2, op_request="region", required=True),
                    field("address_resource", 3, F.TYPE_MESSAGE, "." + C + ".Address"),
                ]),
                message("GetAddressRequest", [field("project", 1), field("region", 2),
                                              field("address", 3)]),
                message("ListAddressesRequest", [field("project", 1), field("region", 2),
                                                 field("max_results", 3, F.TYPE_UINT32),
                                                 field("page_token", 4)]),
                message("AddressList", [
                    field("items", 1, F.TYPE_MESSAGE, "." + C + ".Address", repeated=True),
                    field("next_page_token", 2)]),
                message("GetRegionOperationRequest", [
                    field("operation", 1, op_response="name", required=True),
                    field("project", 2, required=True),
                    field("region", 3, required=True),
                ]),
                message("WaitRegionOperationRequest", [field("operation", 1),
                                                       field("project", 2),
                                                       field("region", 3)]),
                message("DeleteRegionOperationRequest", [field("operation", 1)]),
                message("DeleteRegionOperationResponse", []),
                message("Firewall", [field("name", 1)]),
                message("GetFirewallRequest", [field("firewall", 1), field("project", 2)]),
            ],
            services=[
                service("Addresses", "compute.example.com", [
                    method("Insert", "." + C + ".InsertAddressRequest", "." + C + ".Operation",
                           http=("post", "/v1/projects/{project}/regions/{region}/addresses",
                                 "address_resource"),
                           signature="project,region,address_resource",
                           op_service="RegionOperations"),
                    method("Get", "." + C + ".GetAddressRequest", "." + C + ".Address",
                           http=("get",
                                 "/v1/projects/{project}/regions/{region}/addresses/{address}",
                                 None),
                           signature="project,region,address"),
                    method("List", "." + C + ".ListAddressesRequest", "." + C + ".AddressList",
                           http=("get", "/v1/projects/{project}/regions/{region}/addresses",
                                 None)),
                ]),
                service("RegionOperations", "compute.example.com", [
                    method("Get", "." + C + ".GetRegionOperationRequest", "." + C + ".Operation",
                           http=("get",
                                 "/v1/projects/{project}/regions/{region}/operations/{operation}",
                                 None),
                           signature="project,region,operation", polling=True),
                    method("Wait", "." + C + ".WaitRegionOperationRequest",
                           "." + C + ".Operation",
                           http=("post",
                                 "/v1/projects/{project}/regions/{region}/operations/"
                                 "{operation}/wait", None)),
                    method("Delete", "." + C + ".DeleteRegionOperationRequest",
                           "." + C + ".DeleteRegionOperationResponse",
                           http=("delete", "/v1/operations/{operation}", None)),
                ]),
                service("Firewalls", "compute.example.com", [
                    method("Get", "." + C + ".GetFirewallRequest", "." + C + ".Firewall",
                           http=("get", "/v1/projects/{project}/firewalls/{firewall}", None)),
                ]),
            ],
        )
        return [main]

    comp_apis = [C + ".Addresses", C + ".RegionOperations", C + ".Firewalls"]
    add("compute/full", compute_files(), C, "transport=rest")
    for internal in (False, True):
        tag = "internal" if internal else "omit"
        add("compute/insert-only/" + tag, compute_files(), C, "transport=rest",
            service_yaml(comp_apis, settings(C, [C + ".Addresses.Insert"], internal)))
        add("compute/list+fw/" + tag, compute_files(), C,
            "transport=rest,rest-numeric-enums,autogen-snippets=false",
            service_yaml(comp_apis,
                         settings(C, [C + ".Addresses.List", C + ".Firewalls.Get"], internal)))
        add("compute/ops-wait/" + tag, compute_files(), C, "transport=rest",
            service_yaml(comp_apis, settings(C, [C + ".RegionOperations.Wait"], internal)))

    # ------------------------------------------------------------------ #
    # API 3: un-versioned tiny API, one service, messages without any
    # annotations; a type shared between a kept and a dropped RPC.
    # ------------------------------------------------------------------ #
    T = "example.tiny"

    def tiny_files():
        return [fdp(
            "example/tiny/tiny.proto", T,
            messages=[
                message("Ping", [field("payload", 1, F.TYPE_BYTES),
                                 field("shared", 2, F.TYPE_MESSAGE, "." + T + ".Shared")]),
                message("Pong", [field("payload", 1, F.TYPE_BYTES)]),
                message("Other", [field("shared", 1, F.TYPE_MESSAGE, "." + T + ".Shared"),
                                  field("mode", 2, F.TYPE_ENUM, "." + T + ".Mode")]),
                message("Shared", [field("id", 1, F.TYPE_UINT64)]),
                message("Empty", []),
            ],
            enums=[enum("Mode", ["MODE_UNSPECIFIED", "FAST"])],
            services=[service("Pinger", "tiny.example.com", [
                method("Ping", "." + T + ".Ping", "." + T + ".Pong"),
                method("Other", "." + T + ".Other", "." + T + ".Empty"),
                method("Global", "." + T + ".Empty", "." + T + ".Empty"),
            ])],
        )]

    add("tiny/full", tiny_files(), T)
    for internal in (False, True):
        tag = "internal" if internal else "omit"
        add("tiny/ping/" + tag, tiny_files(), T, "",
            service_yaml([T + ".Pinger"], settings(T, [T + ".Pinger.Ping"], internal)))
        add("tiny/global-keyword/" + tag, tiny_files(), T, "transport=grpc+rest",
            service_yaml([T + ".Pinger"], settings(T, [T + ".Pinger.Global"], internal)))

    # ------------------------------------------------------------------ #
    # API 4: two files of the same package, the second one has only types
    # (it disappears entirely when nothing reachable is left), and a
    # service whose every RPC is dropped.
    # ------------------------------------------------------------------ #
    Q = "google.example.split.v1beta1"

    def split_files():
        extra = fdp(
            "google/example/split/v1beta1/extra_types.proto", Q,
            messages=[message("Extra", [field("note", 1)]),
                      message("ExtraHolder",
                              [field("extra", 1, F.TYPE_MESSAGE, "." + Q + ".Extra")])],
            enums=[enum("ExtraKind", ["EXTRA_KIND_UNSPECIFIED"])],
        )
        res = fdp(
            "google/example/split/v1beta1/resources.proto", Q,
            messages=[
                message("Widget", [field("name", 1),
                                   field("parts", 2, F.TYPE_MESSAGE, "." + Q + ".Widget.Part",
                                         repeated=True)],
                        nested=[message("Part", [field("serial", 1)])],
                        resource=("split.example.com/Widget", ["widgets/{widget}"])),
            ],
        )
        svc = fdp(
            "google/example/split/v1beta1/service.proto", Q,
            deps=["google/example/split/v1beta1/extra_types.proto",
                  "google/example/split/v1beta1/resources.proto"],
            messages=[
                message("DeleteWidgetRequest", [
                    field("name", 1, resource_ref="split.example.com/Widget")]),
                message("DeleteWidgetResponse", []),
                message("DescribeRequest", [
                    field("holder", 1, F.TYPE_MESSAGE, "." + Q + ".ExtraHolder"),
                    field("kind", 2, F.TYPE_ENUM, "." + Q + ".ExtraKind")]),
                message("DescribeResponse", [field("text", 1)]),
            ],
            services=[
                service("Widgets", "split.example.com", [
                    method("DeleteWidget", "." + Q + ".DeleteWidgetRequest",
                           "." + Q + ".DeleteWidgetResponse",
                           http=("delete", "/v1beta1/{name=widgets/*}", None),
                           signature="name"),
                ]),
                service("Describer", "split.example.com", [
                    method("Describe", "." + Q + ".DescribeRequest",
                           "." + Q + ".DescribeResponse",
                           http=("post", "/v1beta1:describe", "*")),
                ]),
            ],
        )
        return [extra, res, svc]

    split_apis = [Q + ".Widgets", Q + ".Describer"]
    add("split/full", split_files(), Q, "transport=grpc+rest")
    for internal in (False, True):
        tag = "internal" if internal else "omit"
        add("split/delete-only/" + tag, split_files(), Q, "transport=grpc+rest",
            service_yaml(split_apis, settings(Q, [Q + ".Widgets.DeleteWidget"], internal)))
        add("split/describe-only/" + tag, split_files(), Q, "",
            service_yaml(split_apis, settings(Q, [Q + ".Describer.Describe"], internal)))

    return cases


# --------------------------------------------------------------------------- #
#  Driver
# --------------------------------------------------------------------------- #


def main(argv):
    if len(argv) >= 2 and argv[1] == "--worker":
        _worker(argv[2], argv[3], argv[4])
        return 0
    if len(argv) != 2:
        print("usage: demo.py <checkout-with-the-change>")
        return 2

    checkout = os.path.realpath(argv[1])
    tmp = tempfile.mkdtemp(prefix="twin-demo-W16-")
    try:
        base = os.path.join(tmp, "base")
        os.mkdir(base)
        archive = subprocess.Popen(
            ["git", "-C", checkout, "archive", "HEAD"], stdout=subprocess.PIPE)
        subprocess.check_call(["tar", "-x", "-C", base], stdin=archive.stdout)
        archive.stdout.close()
        if archive.wait() != 0:
            raise RuntimeError("git archive failed")

        cases = _build_cases()
        cases_path = os.path.join(tmp, "cases.pickle")
        with open(cases_path, "wb") as f:
            pickle.dump(cases, f)

        # The two trees are processed by two concurrent subprocesses.
        procs = []
        for label, tree in (("base", base), ("changed", checkout)):
            work = os.path.join(tmp, "work-" + label)
            os.mkdir(work)
            out_path = os.path.join(work, "out.pickle")
            env = dict(os.environ)
            env.pop("PYTHONPATH", None)
            env["PYTHONDONTWRITEBYTECODE"] = "1"
            env["PYTHONHASHSEED"] = "0"
            proc = subprocess.Popen(
                [sys.executable, os.path.abspath(__file__), "--worker", tree, cases_path,
                 out_path],
                env=env, cwd=work)
            procs.append((label, proc, out_path))

        outputs = {}
        failed = []
        for label, proc, out_path in procs:
            if proc.wait() != 0:
                failed.append(label)
                continue
            with open(out_path, "rb") as f:
                outputs[label] = pickle.load(f)
        if failed:
            print("ERROR: the generator run failed for: %s" % ", ".join(failed))
            return 1

        problems = []
        n_files = 0
        n_errors = 0
        digest = hashlib.sha256()
        for case in cases:
            cid = case["id"]
            b, c = outputs["base"][cid], outputs["changed"][cid]
            if "__error__" in b:
                n_errors += 1
            for name in sorted(set(b) | set(c)):
                n_files += 1
                if name not in b:
                    problems.append("%s: only with the change: %s" % (cid, name))
                elif name not in c:
                    problems.append("%s: only in the baseline: %s" % (cid, name))
                elif b[name] != c[name]:
                    problems.append("%s: differs: %s" % (cid, name))
                else:
                    digest.update(cid.encode() + b"\0" + name.encode() + b"\0" + b[name])
            if list(b) != list(c):
                if sorted(b) == sorted(c):
                    problems.append("%s: same files, different emission order" % cid)

        if problems:
            print("DIFFERENT: %d problem(s)" % len(problems))
            for p in problems:
                print("  " + p)
            return 1
        print("IDENTICAL: %d cases (%d rejected identically), %d files compared, sha256 %s"
              % (len(cases), n_errors, n_files, digest.hexdigest()[:16]))
        return 0
    finally:
        shutil.rmtree(tmp, ignore_errors=True)


if __name__ == "__main__":
    sys.exit(main(sys.argv))
