#!/venv/bin/python
"""Twin U04 (property C04, REST transcoding): output-equivalence demo.

Usage:  /venv/bin/python demo.py <path-to-a-checkout-with-the-change>

Exports the checkout's HEAD into a temp dir (the pristine tree), builds several
API descriptions exercising the http-rule parsing and the REST transport
templates, runs the generator on each of them once with the pristine tree and
once with the checkout's working tree (separate subprocesses, descriptors are
handed over in a pickle file) and compares every emitted file byte for byte
(file names and contents).  In addition each worker dumps, per API, what the
refactored schema functions return or raise (Method.http_opt / path_params /
query_params / http_options, API.http_options, API.mixin_http_options); these
"schema probes" are compared too, but counted separately from the output files.

The venv has an editable install of another checkout: each worker removes the
editable finder / path hook and every sys.path entry that provides `gapic`,
puts the tree under test first on sys.path and asserts that every loaded
`gapic.*` module and the template directories come from that tree.

Exit 0 if everything is identical, 1 otherwise (2 = a generator run failed).
The descriptor builders are shared with the earlier twin for this property.
"""
import os
import pickle
import shutil
import subprocess
import sys
import tempfile

from google.api import annotations_pb2, client_pb2, field_behavior_pb2
from google.api import http_pb2  # noqa: F401  (registers the extension types)
from google.longrunning import operations_pb2
from google.protobuf import descriptor_pb2 as dp
from google.protobuf import (
    any_pb2,
    duration_pb2,
    empty_pb2,
    field_mask_pb2,
    timestamp_pb2,
)
from google.rpc import status_pb2

F = dp.FieldDescriptorProto

RUNNER = r'''
import os, pickle, sys, types
tree = os.path.realpath(sys.argv[1])
cases_path, out_path = sys.argv[2:4]
PROBE = "<schema-probe: http_opt/path_params/query_params/http_options per method, API.http_options, API.mixin_http_options>"

# The venv carries an editable install of another checkout of the generator.
# Make sure that ONLY the tree under test can provide the `gapic` package:
# drop the editable meta-path finder / path hook, drop every sys.path entry
# that has a `gapic` package of its own, then put the tree first.
def _is_editable(obj):
    mod = getattr(obj, "__module__", "") or ""
    name = getattr(obj, "__name__", "") or getattr(type(obj), "__name__", "")
    return "__editable__" in mod or "_Editable" in name
assert not [m for m in sys.modules if m == "gapic" or m.startswith("gapic.")]
sys.meta_path[:] = [f for f in sys.meta_path if not _is_editable(f)]
sys.path_hooks[:] = [h for h in sys.path_hooks if not _is_editable(h)]
sys.path[:] = [
    p for p in sys.path
    if "__editable__" not in p
    and not os.path.exists(os.path.join(p or os.getcwd(), "gapic"))
]
sys.path.insert(0, tree)
sys.path_importer_cache.clear()
for _m in [m for m in sys.modules if m.startswith("__editable__")]:
    del sys.modules[_m]

try:
    import pypandoc
    pypandoc.convert_text("x", "rst", format="commonmark")
except Exception:
    pypandoc = types.ModuleType("pypandoc")
    sys.modules["pypandoc"] = pypandoc
# Same deterministic stub for both trees: docstrings are passed through.
pypandoc.convert_text = lambda text, *a, **k: text

from google.protobuf import descriptor_pb2
from gapic.schema.api import API
from gapic.generator import Generator
from gapic.utils import Options

def _check_origin():
    loaded = [m for n, m in sorted(sys.modules.items())
              if n == "gapic" or n.startswith("gapic.")]
    assert len(loaded) > 10, len(loaded)
    for m in loaded:
        f = getattr(m, "__file__", None)
        # (`gapic` itself has no __init__.py: a namespace package has __path__ only)
        places = [f] if f else list(m.__path__)
        assert places, m.__name__
        for place in places:
            assert os.path.realpath(place).startswith(tree + os.sep), (m.__name__, place, tree)
    return len(loaded)

def _probe(api):
    """Dump what the refactored schema functions return (or raise), in order."""
    lines = []
    for sname, svc in sorted(api.services.items()):
        for mname, m in sorted(svc.methods.items()):
            for attr in ("http_opt", "path_params", "query_params", "http_options"):
                try:
                    v = getattr(m, attr)
                    if isinstance(v, (set, frozenset)):
                        v = sorted(v)
                    elif isinstance(v, dict):
                        v = [(k, type(x).__name__, str(x)) for k, x in v.items()]
                    r = repr(v)
                except Exception as e:
                    r = "raises %s: %s" % (type(e).__name__, e)
                lines.append("%s.%s.%s = %s" % (sname, mname, attr, r))
    for attr in ("http_options", "mixin_http_options"):
        v = getattr(api, attr)
        lines.append("api.%s = %r" % (attr, [(k, repr(x)) for k, x in v.items()]))
    return "\n".join(lines) + "\n"

with open(cases_path, "rb") as f:
    cases = pickle.load(f)
result = {}
for case in cases:
    fds = [descriptor_pb2.FileDescriptorProto.FromString(b) for b in case["fds"]]
    opts = Options.build(case["opts"])
    assert opts.templates, opts
    for tdir in opts.templates:
        assert os.path.realpath(tdir).startswith(os.path.join(tree, "gapic") + os.sep), (tdir, tree)
    api = API.build(fds, package=case["package"], opts=opts)
    gen = Generator(opts)
    for tdir in gen._env.loader.searchpath:
        assert os.path.realpath(tdir).startswith(os.path.join(tree, "gapic") + os.sep), (tdir, tree)
    resp = gen.get_response(api, opts)
    files = {}
    for f in resp.file:
        assert f.name not in files, f.name
        files[f.name] = f.content
    # Not a generator output: the values of the refactored schema functions.
    assert PROBE not in files
    files[PROBE] = _probe(api)
    result[case["name"]] = files
nmods = _check_origin()
with open(out_path, "wb") as f:
    pickle.dump(result, f)
print("worker ok: %d gapic modules, all from %s" % (nmods, tree))
'''


# --------------------------------------------------------------------------
# descriptor helpers
# --------------------------------------------------------------------------
def dep(module):
    return dp.FileDescriptorProto.FromString(module.DESCRIPTOR.serialized_pb)


def all_deps():
    mods = [
        annotations_pb2,
        http_pb2,
        client_pb2,
        field_behavior_pb2,
        any_pb2,
        duration_pb2,
        empty_pb2,
        field_mask_pb2,
        timestamp_pb2,
        status_pb2,
        operations_pb2,
    ]
    from google.api import launch_stage_pb2, resource_pb2
    from google.protobuf import descriptor_pb2

    mods += [launch_stage_pb2, resource_pb2, descriptor_pb2]
    # Dependencies first (API.build resolves types against prior files).
    pending = sorted((dep(m) for m in mods), key=lambda fd: fd.name)
    ordered, seen = [], set()
    known = {fd.name for fd in pending}
    while pending:
        for fd in pending:
            if all(d in seen or d not in known for d in fd.dependency):
                ordered.append(fd)
                seen.add(fd.name)
                pending.remove(fd)
                break
        else:
            raise RuntimeError("dependency cycle")
    return ordered


def field(name, number, type_, type_name=None, label=F.LABEL_OPTIONAL,
          required=False, oneof=None, proto3_optional=False, default=None):
    fd = F(name=name, number=number, type=type_, label=label)
    if type_name:
        fd.type_name = type_name
    if required:
        fd.options.Extensions[field_behavior_pb2.field_behavior].append(
            field_behavior_pb2.REQUIRED
        )
    if oneof is not None:
        fd.oneof_index = oneof
    if proto3_optional:
        fd.proto3_optional = True
    if default is not None:
        fd.default_value = default
    return fd


def message(name, fields, nested=(), oneofs=(), map_entry=False):
    m = dp.DescriptorProto(name=name)
    m.field.extend(fields)
    m.nested_type.extend(nested)
    for o in oneofs:
        m.oneof_decl.add(name=o)
    if map_entry:
        m.options.map_entry = True
    return m


def http(verb=None, uri=None, body=None, additional=(), custom=None,
         response_body=None):
    rule = http_pb2.HttpRule()
    if verb:
        setattr(rule, verb, uri)
    if custom:
        rule.custom.kind, rule.custom.path = custom
    if body is not None:
        rule.body = body
    if response_body:
        rule.response_body = response_body
    for a in additional:
        rule.additional_bindings.append(a)
    return rule


def method(name, inp, out, rule=None, signatures=(), client_streaming=False,
           server_streaming=False, lro=None, deprecated=False):
    m = dp.MethodDescriptorProto(
        name=name,
        input_type=inp,
        output_type=out,
        client_streaming=client_streaming,
        server_streaming=server_streaming,
    )
    if rule is not None:
        m.options.Extensions[annotations_pb2.http].CopyFrom(rule)
    for s in signatures:
        m.options.Extensions[client_pb2.method_signature].append(s)
    if lro:
        info = m.options.Extensions[operations_pb2.operation_info]
        info.response_type, info.metadata_type = lro
    if deprecated:
        m.options.deprecated = True
    return m


def service(name, methods, host="example.googleapis.com", scopes=None):
    s = dp.ServiceDescriptorProto(name=name)
    s.method.extend(methods)
    if host:
        s.options.Extensions[client_pb2.default_host] = host
    if scopes:
        s.options.Extensions[client_pb2.oauth_scopes] = scopes
    return s


def fdp(name, package, messages=(), enums=(), services=(), deps=()):
    fd = dp.FileDescriptorProto(name=name, package=package, syntax="proto3")
    fd.message_type.extend(messages)
    fd.enum_type.extend(enums)
    fd.service.extend(services)
    fd.dependency.extend(deps)
    return fd


def enum(name, values):
    e = dp.EnumDescriptorProto(name=name)
    for i, v in enumerate(values):
        e.value.add(name=v, number=i)
    return e


STD_DEPS = [
    "google/api/annotations.proto",
    "google/api/client.proto",
    "google/api/field_behavior.proto",
    "google/protobuf/empty.proto",
    "google/protobuf/field_mask.proto",
    "google/longrunning/operations.proto",
]


# --------------------------------------------------------------------------
# the API descriptions
# --------------------------------------------------------------------------
def case_bindings():
    """All verbs, additional bindings, nested path vars, every body shape,
    required fields of every scalar kind, reserved-word names."""
    P = ".google.cloud.widgets.v1"
    colour = enum("Colour", ["COLOUR_UNSPECIFIED", "RED", "GREEN"])
    widget = message(
        "Widget",
        [
            field("name", 1, F.TYPE_STRING),
            field("colour", 2, F.TYPE_ENUM, P + ".Colour"),
            field("class", 3, F.TYPE_STRING),
            field("labels", 4, F.TYPE_MESSAGE, P + ".Widget.LabelsEntry",
                  label=F.LABEL_REPEATED),
            field("parts", 5, F.TYPE_STRING, label=F.LABEL_REPEATED),
            field("weight", 6, F.TYPE_DOUBLE, oneof=0),
            field("volume", 7, F.TYPE_INT64, oneof=0),
        ],
        nested=[
            message(
                "LabelsEntry",
                [field("key", 1, F.TYPE_STRING), field("value", 2, F.TYPE_STRING)],
                map_entry=True,
            )
        ],
        oneofs=["measure"],
    )
    get_req = message(
        "GetWidgetRequest",
        [
            field("name", 1, F.TYPE_STRING, required=True),
            field("view", 2, F.TYPE_ENUM, P + ".Colour", required=True),
            field("read_mask", 3, F.TYPE_MESSAGE, ".google.protobuf.FieldMask",
                  required=True),
            field("page_size", 4, F.TYPE_INT32, required=True),
            field("strict", 5, F.TYPE_BOOL, required=True),
            field("ratio", 6, F.TYPE_DOUBLE, required=True),
            field("token", 7, F.TYPE_BYTES, required=True),
            field("big", 8, F.TYPE_UINT64, required=True),
            field("small", 9, F.TYPE_FLOAT, required=True),
            field("sfx", 10, F.TYPE_SFIXED64, required=True),
            field("etag", 11, F.TYPE_STRING, required=True),
            field("maybe", 12, F.TYPE_STRING, proto3_optional=True, oneof=0),
            field("request_id_value", 13, F.TYPE_SINT32, required=True),
        ],
        oneofs=["_maybe"],
    )
    create_req = message(
        "CreateWidgetRequest",
        [
            field("parent", 1, F.TYPE_STRING, required=True),
            field("widget", 2, F.TYPE_MESSAGE, P + ".Widget", required=True),
            field("widget_id", 3, F.TYPE_STRING, required=True),
            field("validate_only", 4, F.TYPE_BOOL),
        ],
    )
    update_req = message(
        "UpdateWidgetRequest",
        [
            field("widget", 1, F.TYPE_MESSAGE, P + ".Widget", required=True),
            field("update_mask", 2, F.TYPE_MESSAGE, ".google.protobuf.FieldMask"),
            field("format", 3, F.TYPE_STRING, required=True),
        ],
    )
    # reserved words as path variables, nested reserved path and reserved body
    weird_req = message(
        "WeirdRequest",
        [
            field("class", 1, F.TYPE_STRING, required=True),
            field("import", 2, F.TYPE_STRING, required=True),
            field("format", 3, F.TYPE_MESSAGE, P + ".Widget", required=True),
            field("from", 4, F.TYPE_MESSAGE, P + ".Widget"),
            field("any", 5, F.TYPE_INT32, required=True),
            field("type", 6, F.TYPE_ENUM, P + ".Colour", required=True),
        ],
    )
    delete_req = message(
        "DeleteWidgetRequest",
        [field("name", 1, F.TYPE_STRING), field("force", 2, F.TYPE_BOOL, required=True)],
    )
    svc = service(
        "WidgetService",
        [
            method(
                "GetWidget", P + ".GetWidgetRequest", P + ".Widget",
                http("get", "/v1/{name=projects/*/widgets/*}", additional=[
                    http("get", "/v1/{name=folders/*/widgets/*}"),
                    http("post", "/v1/{name=organizations/*/widgets/**}:get",
                         body="*"),
                ]),
                signatures=["name"],
            ),
            method(
                "CreateWidget", P + ".CreateWidgetRequest", P + ".Widget",
                http("post", "/v1/{parent=projects/*}/widgets", body="widget"),
                signatures=["parent,widget,widget_id"],
            ),
            method(
                "UpdateWidget", P + ".UpdateWidgetRequest", P + ".Widget",
                http("patch", "/v1/{widget.name=projects/*/widgets/*}",
                     body="widget", additional=[
                         http("put", "/v1/{widget.class=classes/*}/{format}",
                              body="*"),
                     ]),
                signatures=["widget,update_mask"],
            ),
            method(
                "ReplaceWidget", P + ".UpdateWidgetRequest", P + ".Widget",
                http("put", "/v1/{widget.name=projects/*/widgets/*}:replace",
                     body="*"),
            ),
            method(
                "DeleteWidget", P + ".DeleteWidgetRequest", ".google.protobuf.Empty",
                http("delete", "/v1/{name=projects/*/widgets/*}"),
                signatures=["name"],
            ),
            method(
                "WeirdWidget", P + ".WeirdRequest", P + ".Widget",
                http("post", "/v1/{class=classes/*}/{from.class}/{import}:weird",
                     body="format", additional=[
                         http("post", "/v1/{from.name=projects/*}/*/**:weird",
                              body="from"),
                         http("get", "/v1/weird"),
                         http(custom=("HEAD", "/v1/{class}/weird")),
                         http(),
                     ]),
            ),
        ],
        scopes="https://www.googleapis.com/auth/cloud-platform",
    )
    fd = fdp(
        "google/cloud/widgets/v1/widgets.proto", "google.cloud.widgets.v1",
        [widget, get_req, create_req, update_req, weird_req, delete_req],
        [colour], [svc], STD_DEPS,
    )
    return [fd]


def case_shapes():
    """streaming, LRO, paging, methods without binding / custom binding,
    non-proto-plus request types."""
    P = ".example.shapes.v1"
    state = enum("State", ["STATE_UNSPECIFIED", "ON", "OFF"])
    item = message("Item", [field("name", 1, F.TYPE_STRING),
                            field("state", 2, F.TYPE_ENUM, P + ".State")])
    list_req = message(
        "ListItemsRequest",
        [
            field("parent", 1, F.TYPE_STRING, required=True),
            field("page_size", 2, F.TYPE_INT32),
            field("page_token", 3, F.TYPE_STRING),
            field("filter", 4, F.TYPE_STRING, required=True),
            field("states", 5, F.TYPE_ENUM, P + ".State", label=F.LABEL_REPEATED,
                  required=True),
        ],
    )
    list_resp = message(
        "ListItemsResponse",
        [
            field("items", 1, F.TYPE_MESSAGE, P + ".Item", label=F.LABEL_REPEATED),
            field("next_page_token", 2, F.TYPE_STRING),
        ],
    )
    plain_req = message(
        "ItemRequest",
        [field("name", 1, F.TYPE_STRING), field("item", 2, F.TYPE_MESSAGE, P + ".Item"),
         field("state", 3, F.TYPE_ENUM, P + ".State", required=True)],
    )
    meta = message("OpMetadata", [field("progress", 1, F.TYPE_INT32)])
    svc = service(
        "ShapeService",
        [
            method("ListItems", P + ".ListItemsRequest", P + ".ListItemsResponse",
                   http("get", "/v1/{parent=shelves/*}/items"), signatures=["parent"]),
            method("WatchItems", P + ".ItemRequest", P + ".Item",
                   http("post", "/v1/{name=items/*}:watch", body="*"),
                   server_streaming=True),
            method("UploadItems", P + ".ItemRequest", P + ".Item",
                   http("post", "/v1/items:upload", body="item"),
                   client_streaming=True),
            method("ChatItems", P + ".ItemRequest", P + ".Item",
                   client_streaming=True, server_streaming=True),
            method("NoBinding", P + ".ItemRequest", P + ".Item"),
            method("CustomBinding", P + ".ItemRequest", P + ".Item",
                   http(custom=("HEAD", "/v1/{name=items/*}"))),
            method("EmptyUri", P + ".ItemRequest", P + ".Item", http("get", "")),
            method("BakeItem", P + ".ItemRequest", ".google.longrunning.Operation",
                   http("post", "/v1/{name=items/*}:bake", body="item"),
                   lro=("Item", "OpMetadata"), signatures=["name,item"]),
            method("PurgeItem", P + ".ItemRequest", ".google.protobuf.Empty",
                   http("delete", "/v1/{item.name=items/*}"), deprecated=True),
            method("Ping", ".google.protobuf.Empty", ".google.protobuf.Empty",
                   http("get", "/v1/ping")),
            method("GetOp", ".google.longrunning.GetOperationRequest",
                   ".google.longrunning.Operation",
                   http("get", "/v1/{name=operations/*}")),
            # annotation shapes that matter to Method.http_opt / path_params:
            # only `body` set, `response_body` as the second set field, several
            # and nested variables, a variable-free path.
            method("BodyOnly", P + ".ItemRequest", P + ".Item", http(body="*")),
            method("RespBody", P + ".ItemRequest", P + ".Item",
                   http("get", "/v1/{name=items/*}:resp", response_body="item")),
            method("ManyVars", P + ".ItemRequest", P + ".Item",
                   http("post", "/v1/{name}/{item.name=a/*/b/**}/{state}:many",
                        body="item", response_body="name")),
            # void + server streaming, non-proto-plus outputs (unary and streaming)
            method("DrainItems", P + ".ItemRequest", ".google.protobuf.Empty",
                   http("get", "/v1/{name=items/*}:drain"), server_streaming=True),
            method("GetMask", P + ".ItemRequest", ".google.protobuf.FieldMask",
                   http("get", "/v1/{name=items/*}:mask")),
            method("WatchMasks", P + ".ItemRequest", ".google.protobuf.FieldMask",
                   http("post", "/v1/{name=items/*}:masks", body="*"),
                   server_streaming=True),
        ],
    )
    fd = fdp("example/shapes/v1/shapes.proto", "example.shapes.v1",
             [item, list_req, list_resp, plain_req, meta], [state], [svc], STD_DEPS)
    return [fd]


def case_multi():
    """several services, one in a sub-package, one without any http rule."""
    P = ".google.cloud.multi.v1"
    thing = message("Thing", [field("name", 1, F.TYPE_STRING),
                              field("list", 2, F.TYPE_STRING)])
    req = message("ThingRequest", [
        field("name", 1, F.TYPE_STRING, required=True),
        field("thing", 2, F.TYPE_MESSAGE, P + ".Thing"),
        field("count", 3, F.TYPE_FIXED32, required=True),
    ])
    alpha = service("Alpha", [
        method("GetThing", P + ".ThingRequest", P + ".Thing",
               http("get", "/v1/{name=things/*}")),
        method("PutThing", P + ".ThingRequest", P + ".Thing",
               http("put", "/v1/{thing.name=things/*}", body="thing")),
    ])
    beta = service("Beta", [
        method("GetThing", P + ".ThingRequest", P + ".Thing"),
        method("StreamThing", P + ".ThingRequest", P + ".Thing", server_streaming=True),
    ], host="beta.example.com:8443")
    fd1 = fdp("google/cloud/multi/v1/things.proto", "google.cloud.multi.v1",
              [thing, req], [], [alpha, beta], STD_DEPS)
    SP = ".google.cloud.multi.v1.sub"
    sub_req = message("SubRequest", [
        field("thing", 1, F.TYPE_MESSAGE, P + ".Thing", required=True),
        field("max", 2, F.TYPE_INT64, required=True),
        field("mapping", 3, F.TYPE_STRING),
    ])
    gamma = service("Gamma", [
        method("PatchThing", SP + ".SubRequest", P + ".Thing",
               http("patch", "/v1/{thing.list=lists/*}/{max}", body="thing",
                    additional=[http("post", "/v1/{mapping}", body="*")])),
        method("DropThing", SP + ".SubRequest", ".google.protobuf.Empty",
               http("delete", "/v1/{thing.name=things/*}")),
    ], host=None)
    fd2 = fdp("google/cloud/multi/v1/sub/gamma.proto", "google.cloud.multi.v1.sub",
              [sub_req], [], [gamma],
              STD_DEPS + ["google/cloud/multi/v1/things.proto"])
    return [fd1, fd2]


MIXIN_YAML = """\
type: google.api.Service
config_version: 3
name: mixy.googleapis.com
title: Mixy API
apis:
- name: google.cloud.mixy.v1.Mixy
- name: google.cloud.location.Locations
- name: google.iam.v1.IAMPolicy
- name: google.longrunning.Operations
http:
  rules:
  - selector: google.cloud.location.Locations.GetLocation
    get: '/v1/{name=projects/*/locations/*}'
  - selector: google.cloud.location.Locations.ListLocations
    get: '/v1/{name=projects/*}/locations'
  - selector: google.iam.v1.IAMPolicy.GetIamPolicy
    get: '/v1/{resource=projects/*/mixes/*}:getIamPolicy'
  - selector: google.iam.v1.IAMPolicy.SetIamPolicy
    post: '/v1/{resource=projects/*/mixes/*}:setIamPolicy'
    body: '*'
  - selector: google.iam.v1.IAMPolicy.TestIamPermissions
    post: '/v1/{resource=projects/*/mixes/*}:testIamPermissions'
    body: '*'
  - selector: google.longrunning.Operations.CancelOperation
    post: '/v1/{name=projects/*/operations/*}:cancel'
    body: '*'
    additional_bindings:
    - post: '/v1/{name=folders/*/operations/*}:cancel'
  - selector: google.longrunning.Operations.DeleteOperation
    delete: '/v1/{name=projects/*/operations/*}'
  - selector: google.longrunning.Operations.GetOperation
    get: '/v1/{name=projects/*/operations/*}'
  - selector: google.longrunning.Operations.ListOperations
    get: '/v1/{name=projects/*}/operations'
  - selector: google.longrunning.Operations.WaitOperation
    custom:
      kind: HEAD
      path: '/v1/{name=projects/*/operations/*}:wait'
    additional_bindings:
    - post: '/v1/{name=projects/*/operations/*}:wait'
      body: '*'
    - custom:
        kind: HEAD
        path: '/v1/nowhere'
  - selector: google.longrunning.Operations.GetOperation
    get: '/v1/{name=folders/*/operations/*}'
    additional_bindings:
    - get: '/v1/{name=organizations/*/operations/*}'
  - selector: google.cloud.mixy.v1.Mixy.GetMix
    get: '/v1/{name=folders/*/mixes/*}'
    additional_bindings:
    - post: '/v1/{name=folders/*/mixes/*}:get'
      body: '*'
  - selector: google.longrunningX.NotOperations.Get
    get: '/v1/{class=folders/*}'
publishing:
  library_settings:
  - version: google.cloud.mixy.v1
    python_settings:
      experimental_features:
        rest_async_io_enabled: true
"""


def case_mixins():
    """mixins (locations / IAM / operations) and the async REST transport."""
    P = ".google.cloud.mixy.v1"
    mix = message("Mix", [field("name", 1, F.TYPE_STRING),
                          field("kind", 2, F.TYPE_ENUM, P + ".Kind")])
    kind = enum("Kind", ["KIND_UNSPECIFIED", "DRY", "WET"])
    req = message("MixRequest", [
        field("name", 1, F.TYPE_STRING, required=True),
        field("mix", 2, F.TYPE_MESSAGE, P + ".Mix", required=True),
        field("kind", 3, F.TYPE_ENUM, P + ".Kind", required=True),
        field("request_id", 4, F.TYPE_STRING, required=True),
    ])
    svc = service("Mixy", [
        method("GetMix", P + ".MixRequest", P + ".Mix",
               http("get", "/v1/{name=projects/*/mixes/*}"), signatures=["name"]),
        method("CreateMix", P + ".MixRequest", P + ".Mix",
               http("post", "/v1/{name=projects/*}/mixes", body="mix")),
        method("StirMix", P + ".MixRequest", ".google.longrunning.Operation",
               http("post", "/v1/{name=projects/*/mixes/*}:stir", body="*"),
               lro=("Mix", "Mix")),
        method("WatchMix", P + ".MixRequest", P + ".Mix",
               http("get", "/v1/{name=projects/*/mixes/*}:watch"),
               server_streaming=True),
        method("DropMix", P + ".MixRequest", ".google.protobuf.Empty",
               http("delete", "/v1/{mix.name=projects/*/mixes/*}")),
    ], host="mixy.googleapis.com")
    fd = fdp("google/cloud/mixy/v1/mixy.proto", "google.cloud.mixy.v1",
             [mix, req], [kind], [svc], STD_DEPS)
    return [fd]


def case_sparse():
    """empty collections: a service without methods, a service none of whose
    methods has an http rule, a request message without fields."""
    P = ".example.sparse.v1"
    nothing = message("Nothing", [])
    some = message("Some", [field("id", 1, F.TYPE_STRING, required=True)])
    hollow = service("Hollow", [])
    unbound = service("Unbound", [
        method("Do", P + ".Nothing", P + ".Nothing"),
        method("DoMore", P + ".Some", ".google.protobuf.Empty", signatures=["id"]),
    ])
    bound = service("Bound", [
        method("Touch", P + ".Nothing", P + ".Nothing", http("post", "/v1/touch")),
        method("TouchAll", P + ".Nothing", P + ".Nothing",
               http("post", "/v1/touch:all", body="*")),
        method("Poke", P + ".Some", P + ".Some", http("get", "/v1/{id}")),
    ], host=None)
    fd = fdp("example/sparse/v1/sparse.proto", "example.sparse.v1",
             [nothing, some], [], [hollow, unbound, bound], STD_DEPS)
    return [fd]


def build_cases(scratch):
    deps = all_deps()
    yaml_path = os.path.join(scratch, "mixy_v1.yaml")
    with open(yaml_path, "w") as f:
        f.write(MIXIN_YAML)

    def case(name, fds, package, opts):
        return {
            "name": name,
            "fds": [fd.SerializeToString(deterministic=True) for fd in deps + fds],
            "package": package,
            "opts": opts,
        }

    bindings, shapes, multi, mixy = case_bindings(), case_shapes(), case_multi(), case_mixins()
    sparse = case_sparse()
    return [
        case("bindings/grpc+rest", bindings, "google.cloud.widgets.v1",
             "transport=grpc+rest,metadata"),
        case("bindings/rest,numeric-enums", bindings, "google.cloud.widgets.v1",
             "transport=rest,rest-numeric-enums,autogen-snippets=false"),
        case("shapes/grpc+rest", shapes, "example.shapes.v1",
             "transport=grpc+rest,autogen-snippets=false"),
        case("shapes/rest,numeric-enums", shapes, "example.shapes.v1",
             "transport=rest,rest-numeric-enums"),
        case("multi/grpc+rest", multi, "google.cloud.multi.v1",
             "transport=grpc+rest,autogen-snippets=false"),
        case("multi/grpc-only", multi, "google.cloud.multi.v1",
             "transport=grpc,autogen-snippets=false"),  # snippetgen rejects sub-packages
        case("mixins/async-rest", mixy, "google.cloud.mixy.v1",
             "transport=grpc+rest,autogen-snippets=false,service-yaml=" + yaml_path),
        case("mixins/async-rest,numeric-enums,iam", mixy, "google.cloud.mixy.v1",
             "transport=rest,rest-numeric-enums,add-iam-methods,autogen-snippets=false,"
             "service-yaml=" + yaml_path),
        case("sparse/grpc+rest", sparse, "example.sparse.v1",
             "transport=grpc+rest,autogen-snippets=false"),
        case("sparse/rest,numeric-enums", sparse, "example.sparse.v1",
             "transport=rest,rest-numeric-enums,autogen-snippets=false"),
        case("bindings/ads-templates", bindings, "google.cloud.widgets.v1",
             "transport=grpc+rest,old-naming,python-gapic-templates=ads-templates"),
    ]


def run_tree(tree, scratch, tag):
    out = os.path.join(scratch, f"out-{tag}.pkl")
    env = dict(os.environ)
    env.pop("PYTHONPATH", None)
    env["PYTHONHASHSEED"] = "0"
    env["PYTHONDONTWRITEBYTECODE"] = "1"
    proc = subprocess.run(
        [sys.executable, os.path.join(scratch, "runner.py"), tree,
         os.path.join(scratch, "cases.pkl"), out],
        cwd=scratch, env=env, stdout=subprocess.PIPE, stderr=subprocess.STDOUT,
        text=True,
    )
    if proc.returncode != 0:
        print(f"generator run failed for the {tag} tree:\n{proc.stdout[-4000:]}")
        raise SystemExit(2)
    with open(out, "rb") as f:
        return pickle.load(f)


def main():
    if len(sys.argv) != 2:
        print(__doc__)
        return 2
    checkout = os.path.realpath(sys.argv[1])
    scratch = tempfile.mkdtemp(prefix="twin-U04-demo-")
    try:
        base = os.path.join(scratch, "base")
        os.mkdir(base)
        archive = subprocess.Popen(["git", "-C", checkout, "archive", "HEAD"],
                                   stdout=subprocess.PIPE)
        subprocess.run(["tar", "-x", "-C", base], stdin=archive.stdout, check=True)
        if archive.wait() != 0:
            print("git archive failed")
            return 2

        with open(os.path.join(scratch, "runner.py"), "w") as f:
            f.write(RUNNER)
        cases = build_cases(scratch)
        with open(os.path.join(scratch, "cases.pkl"), "wb") as f:
            pickle.dump(cases, f)

        before = run_tree(base, scratch, "base")
        after = run_tree(checkout, scratch, "changed")

        diffs, nfiles, rest_files, probes = [], 0, 0, 0
        for case in cases:
            name = case["name"]
            a, b = before[name], after[name]
            for fname in sorted(set(a) | set(b)):
                if fname.startswith("<schema-probe"):
                    probes += 1
                    if a.get(fname) != b.get(fname):
                        diffs.append(f"{name}: schema probe differs: {fname}")
                    continue
                nfiles += 1
                if "rest" in fname:
                    rest_files += 1
                if fname not in a:
                    diffs.append(f"{name}: only with change: {fname}")
                elif fname not in b:
                    diffs.append(f"{name}: only in pristine HEAD: {fname}")
                elif a[fname] != b[fname]:
                    diffs.append(f"{name}: content differs: {fname}")
        if diffs:
            print(f"DIFFERENT: {len(diffs)} of {nfiles} files differ")
            for d in diffs:
                print("  " + d)
            return 1
        print(f"IDENTICAL: {len(cases)} API/option combinations, {nfiles} output "
              f"files ({rest_files} REST-related) byte-for-byte equal; "
              f"{probes} schema probes equal")
        return 0
    finally:
        shutil.rmtree(scratch, ignore_errors=True)


if __name__ == "__main__":
    sys.exit(main())
