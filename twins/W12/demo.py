#!/usr/bin/env python
"""Equivalence demo for the W12 refactoring (property C12: reserved words / colliding names).

Usage:  /venv/bin/python demo.py <path-to-a-checkout-with-the-change>

1. exports the pristine HEAD of the checkout (`git archive HEAD | tar -x`) -> baseline tree;
2. builds several API descriptions (serialized FileDescriptorProtos, no protoc needed);
3. runs the generator on each description with the baseline tree and with the checkout
   (working tree, i.e. with the uncommitted change), each in its own subprocess;
4. compares the file names and the contents of everything that was generated.

Exit 0 and a one-line summary if all outputs are identical, exit 1 listing differences otherwise.
"""
import hashlib
import json
import os
import pickle
import shutil
import subprocess
import sys
import tempfile

from google.api import annotations_pb2, client_pb2, field_behavior_pb2, http_pb2, routing_pb2
from google.longrunning import operations_pb2
from google.protobuf import (
    any_pb2,
    descriptor_pb2,
    duration_pb2,
    empty_pb2,
    field_mask_pb2,
    struct_pb2,
    timestamp_pb2,
)

FDP = descriptor_pb2.FieldDescriptorProto
T = FDP  # type constants live on FieldDescriptorProto


# --------------------------------------------------------------------------
# tiny descriptor DSL
# --------------------------------------------------------------------------
def fld(name, number, type_=T.TYPE_STRING, type_name=None, repeated=False,
        required=False, oneof_index=None, proto3_optional=False):
    f = FDP(name=name, number=number, type=type_,
            label=FDP.LABEL_REPEATED if repeated else FDP.LABEL_OPTIONAL)
    if type_name:
        f.type_name = type_name
    if required:
        f.options.Extensions[field_behavior_pb2.field_behavior].append(
            field_behavior_pb2.REQUIRED)
    if oneof_index is not None:
        f.oneof_index = oneof_index
    if proto3_optional:
        f.proto3_optional = True
    return f


def msg(name, fields=(), nested=(), oneofs=(), enums=(), map_entry=False):
    m = descriptor_pb2.DescriptorProto(name=name)
    m.field.extend(fields)
    m.nested_type.extend(nested)
    m.enum_type.extend(enums)
    for o in oneofs:
        m.oneof_decl.add(name=o)
    if map_entry:
        m.options.map_entry = True
    return m


def map_entry(name, value_type=T.TYPE_STRING, value_type_name=None):
    return msg(name, [fld("key", 1), fld("value", 2, value_type, value_type_name)],
               map_entry=True)


def enum(name, *values):
    e = descriptor_pb2.EnumDescriptorProto(name=name)
    for i, v in enumerate(values):
        e.value.add(name=v, number=i)
    return e


def http(verb, uri, body=None, additional=()):
    rule = http_pb2.HttpRule(**{verb: uri})
    if body:
        rule.body = body
    for a in additional:
        rule.additional_bindings.append(a)
    return rule


def rpc(name, inp, out, http_rule=None, signatures=(), client_streaming=False,
        server_streaming=False, lro=None, routing=None):
    m = descriptor_pb2.MethodDescriptorProto(
        name=name, input_type=inp, output_type=out,
        client_streaming=client_streaming, server_streaming=server_streaming)
    if http_rule is not None:
        m.options.Extensions[annotations_pb2.http].CopyFrom(http_rule)
    for s in signatures:
        m.options.Extensions[client_pb2.method_signature].append(s)
    if lro:
        m.options.Extensions[operations_pb2.operation_info].response_type = lro[0]
        m.options.Extensions[operations_pb2.operation_info].metadata_type = lro[1]
    if routing:
        rr = m.options.Extensions[routing_pb2.routing]
        for field, tmpl in routing:
            rr.routing_parameters.add(field=field, path_template=tmpl)
    return m


def svc(name, methods, host="example.googleapis.com"):
    s = descriptor_pb2.ServiceDescriptorProto(name=name)
    s.method.extend(methods)
    s.options.Extensions[client_pb2.default_host] = host
    s.options.Extensions[client_pb2.oauth_scopes] = (
        "https://www.googleapis.com/auth/cloud-platform")
    return s


def fdp(name, package, messages=(), services=(), enums=(), deps=()):
    f = descriptor_pb2.FileDescriptorProto(name=name, package=package, syntax="proto3")
    f.message_type.extend(messages)
    f.service.extend(services)
    f.enum_type.extend(enums)
    f.dependency.extend(deps)
    return f


def wellknown(*modules):
    """FileDescriptorProtos of already-compiled modules, dependencies first."""
    seen, out = set(), []

    def visit(fd):
        if fd.name in seen:
            return
        seen.add(fd.name)
        for dep in fd.dependencies:
            visit(dep)
        out.append(descriptor_pb2.FileDescriptorProto.FromString(fd.serialized_pb))

    for mod in modules:
        visit(mod.DESCRIPTOR)
    return out


# --------------------------------------------------------------------------
# API descriptions
# --------------------------------------------------------------------------
def case_keyword_files():
    """Proto files named by keywords / client control parameters / dotted names /
    names that collide after sanitizing (incl. the recursive case), an RPC named
    by keywords, reserved field names in flattening, paths and routing."""
    pkg, d = "google.kwfiles.v1", "google/kwfiles/v1/"
    P = "." + pkg + "."
    files = wellknown(empty_pb2)
    files += [
        # `while_.proto` is taken first, so `while.proto` -> `while_.proto` (taken) -> `while__.proto`.
        fdp(d + "while_.proto", pkg, [msg("Loop", [fld("name", 1), fld("for", 2)])]),
        fdp(d + "while.proto", pkg, [msg("Cond", [fld("if", 1), fld("loop", 2, T.TYPE_MESSAGE, P + "Loop")])]),
        fdp(d + "import.proto", pkg, [
            msg("ImportSpec",
                [fld("from", 1), fld("class", 2),
                 fld("mapping", 3, T.TYPE_MESSAGE, P + "ImportSpec.MappingEntry", repeated=True),
                 fld("kind", 4, T.TYPE_ENUM, P + "ImportKind")],
                nested=[map_entry("MappingEntry")])],
            enums=[enum("ImportKind", "IMPORT_KIND_UNSPECIFIED", "None", "FULL")]),
        fdp(d + "metadata.proto", pkg, [msg("Metadata", [fld("retry", 1), fld("timeout", 2, T.TYPE_INT32)])]),
        fdp(d + "request.proto", pkg, [msg("RequestInfo", [fld("request", 1), fld("type", 2)])]),
        fdp(d + "retry.proto", pkg, [msg("RetryInfo", [fld("max", 1, T.TYPE_INT32), fld("min", 2, T.TYPE_INT32)])]),
        fdp(d + "timeout.proto", pkg, [msg("TimeoutInfo", [fld("next", 1)])]),
        # sanitized to foo_bar.proto, then the real foo_bar.proto must move to foo_bar_.proto
        fdp(d + "foo.bar.proto", pkg, [msg("FooDotBar", [fld("all", 1, T.TYPE_BOOL)])]),
        fdp(d + "foo_bar.proto", pkg, [msg("FooUnderBar", [fld("any", 1, T.TYPE_BOOL)])]),
        fdp(d + "res.v1.types.proto", pkg, [msg("Dotted", [fld("hash", 1, T.TYPE_BYTES)])]),
        fdp("lambda.proto", pkg, [msg("TopLevelFile", [fld("object", 1)])]),
        fdp(d + "service.proto", pkg, [
            msg("ImportRequest", [
                fld("class", 1), fld("from", 2, T.TYPE_MESSAGE, P + "ImportSpec"),
                fld("in", 3, T.TYPE_MESSAGE, P + "Cond"), fld("meta", 4, T.TYPE_MESSAGE, P + "Metadata"),
                fld("info", 5, T.TYPE_MESSAGE, P + "RequestInfo"), fld("retry_info", 6, T.TYPE_MESSAGE, P + "RetryInfo"),
                fld("timeout_info", 7, T.TYPE_MESSAGE, P + "TimeoutInfo"), fld("a", 8, T.TYPE_MESSAGE, P + "FooDotBar"),
                fld("b", 9, T.TYPE_MESSAGE, P + "FooUnderBar"), fld("c", 10, T.TYPE_MESSAGE, P + "Dotted"),
                fld("d", 11, T.TYPE_MESSAGE, P + "TopLevelFile"), fld("table_name", 12)]),
            msg("ImportResponse", [fld("return", 1), fld("global", 2, repeated=True)]),
        ], services=[
            svc("Keywords", [
                rpc("Import", P + "ImportRequest", P + "ImportResponse",
                    http("post", "/v1/{class=shelves/*}:import", body="from"),
                    signatures=["class,from", "class"]),
                rpc("Class", P + "ImportRequest", P + "ImportResponse",
                    http("get", "/v1/{from.class=shelves/*}/{table_name}"),
                    signatures=["from.class"],
                    routing=[("table_name", "{routing_id=projects/*}/**"), ("class", "")]),
                rpc("GrpcChannel", P + "ImportRequest", ".google.protobuf.Empty",
                    http("delete", "/v1/{class=shelves/*}")),
                rpc("Yield", P + "ImportRequest", P + "ImportResponse", server_streaming=True),
                rpc("Await", P + "ImportRequest", P + "ImportResponse", client_streaming=True),
            ]),
        ]),
    ]
    return files, pkg


def case_collisions():
    """Module names shared between packages, module named by a reserved word,
    field names equal to module names; proto-plus and *_pb2 dependencies; sub-package."""
    pkg = "google.collide.v1"
    P = "." + pkg + "."
    files = wellknown(any_pb2, struct_pb2, duration_pb2, timestamp_pb2, field_mask_pb2, empty_pb2)
    files += [
        fdp("google/other/v1/common.proto", "google.other.v1",
            [msg("OtherCommon", [fld("type", 1)])], enums=[enum("Color", "COLOR_UNSPECIFIED", "RED")]),
        fdp("google/plus_dep/v1/common.proto", "google.plus_dep.v1",
            [msg("PlusCommon", [fld("class", 1), fld("x", 2, T.TYPE_INT64)])]),
        fdp("google/plus_dep/v1/type.proto", "google.plus_dep.v1", [msg("PlusType", [fld("list", 1, repeated=True)])]),
        fdp("google/collide/v1/common.proto", pkg, [msg("Common", [fld("name", 1), fld("duration", 2, T.TYPE_MESSAGE, ".google.protobuf.Duration")])]),
        fdp("google/collide/v1/type.proto", pkg, [msg("TypeHolder", [fld("type", 1), fld("common", 2, T.TYPE_MESSAGE, P + "Common")])]),
        fdp("google/collide/v1/sub/common.proto", pkg + ".sub", [msg("SubCommon", [fld("license", 1)])]),
        fdp("google/collide/v1/service.proto", pkg, [
            msg("GetThingRequest", [
                fld("name", 1, required=True),
                fld("struct", 2, T.TYPE_MESSAGE, ".google.protobuf.Struct"),
                fld("any", 3, T.TYPE_MESSAGE, ".google.protobuf.Any"),
                fld("common", 4, T.TYPE_MESSAGE, P + "Common"),
                fld("other_common", 5, T.TYPE_MESSAGE, ".google.other.v1.OtherCommon"),
                fld("plus_common", 6, T.TYPE_MESSAGE, ".google.plus_dep.v1.PlusCommon"),
                fld("plus_type", 7, T.TYPE_MESSAGE, ".google.plus_dep.v1.PlusType"),
                fld("type", 8, T.TYPE_MESSAGE, P + "TypeHolder"),
                fld("sub_common", 9, T.TYPE_MESSAGE, P + "sub.SubCommon"),
                fld("color", 10, T.TYPE_ENUM, ".google.other.v1.Color"),
                fld("field_mask", 11, T.TYPE_MESSAGE, ".google.protobuf.FieldMask"),
                fld("timestamp", 12, T.TYPE_MESSAGE, ".google.protobuf.Timestamp"),
            ]),
            msg("Thing", [fld("name", 1), fld("value", 2, T.TYPE_MESSAGE, ".google.protobuf.Value")]),
        ], services=[
            svc("Things", [
                rpc("GetThing", P + "GetThingRequest", P + "Thing",
                    http("get", "/v1/{name=things/*}"),
                    signatures=["name,common,other_common", "name,plus_common,type"]),
                # request / response from other packages (proto-plus dep, *_pb2 dep)
                rpc("EchoPlus", ".google.plus_dep.v1.PlusCommon", ".google.plus_dep.v1.PlusType",
                    http("post", "/v1/plus:echo", body="*"), signatures=["class,x"]),
                rpc("EchoOther", ".google.other.v1.OtherCommon", ".google.other.v1.OtherCommon",
                    http("post", "/v1/other:echo", body="*"), signatures=["type"]),
                rpc("EchoAny", ".google.protobuf.Any", ".google.protobuf.Struct"),
            ]),
        ]),
        fdp("google/collide/v1/sub/service.proto", pkg + ".sub", [
            msg("SubRequest", [fld("common", 1, T.TYPE_MESSAGE, P + "sub.SubCommon"),
                               fld("parent_common", 2, T.TYPE_MESSAGE, P + "Common")]),
        ], services=[
            svc("SubThings", [rpc("DoSub", P + "sub.SubRequest", P + "sub.SubCommon",
                                  http("post", "/v1/sub", body="common"))]),
        ]),
    ]
    return files, pkg


def case_rest_words():
    """REST shapes: reserved path variables (top-level and dotted), reserved body,
    additional bindings, required fields of every kind (query / path / body),
    server streaming, LRO, paging, void, oneofs, maps, proto3 optional."""
    pkg = "google.restwords.v1"
    P = "." + pkg + "."
    files = wellknown(operations_pb2, empty_pb2, field_mask_pb2)
    book = msg("Book", [
        fld("name", 1), fld("class", 2), fld("from", 3, T.TYPE_INT32), fld("type", 4, T.TYPE_ENUM, P + "Genre"),
        fld("labels", 5, T.TYPE_MESSAGE, P + "Book.LabelsEntry", repeated=True),
        fld("isbn", 6, T.TYPE_INT64, oneof_index=0), fld("except", 7, oneof_index=0),
        fld("note", 8, proto3_optional=True, oneof_index=1),
    ], nested=[map_entry("LabelsEntry")], oneofs=["id", "_note"])
    req_fields = [
        fld("class", 1, required=True),                                   # path
        fld("book", 2, T.TYPE_MESSAGE, P + "Book", required=True),        # body / dotted path
        fld("in", 3, required=True),                                      # reserved, query
        fld("count", 4, T.TYPE_INT32, required=True),
        fld("flag", 5, T.TYPE_BOOL, required=True),
        fld("ratio", 6, T.TYPE_DOUBLE, required=True),
        fld("type", 7, T.TYPE_ENUM, P + "Genre", required=True),
        fld("update_mask", 8, T.TYPE_MESSAGE, ".google.protobuf.FieldMask", required=True),
        fld("tags", 9, repeated=True, required=True),
        fld("big", 10, T.TYPE_UINT64, required=True),
        fld("blob", 11, T.TYPE_BYTES, required=True),
        fld("plain", 12),
    ]
    files.append(fdp("google/restwords/v1/library.proto", pkg, [
        book,
        msg("UpdateBookRequest", req_fields),
        msg("GetBookRequest", [fld("name", 1, required=True), fld("format", 2, required=True), fld("view", 3, T.TYPE_INT32)]),
        msg("ListBooksRequest", [fld("parent", 1, required=True), fld("page_size", 2, T.TYPE_INT32),
                                 fld("page_token", 3), fld("filter", 4, required=True)]),
        msg("ListBooksResponse", [fld("books", 1, T.TYPE_MESSAGE, P + "Book", repeated=True), fld("next_page_token", 2)]),
        msg("DeleteBookRequest", [fld("name", 1), fld("yield", 2, T.TYPE_BOOL)]),
        msg("ExportMetadata", [fld("progress", 1, T.TYPE_INT32)]),
        msg("NoRequired", [fld("a", 1), fld("b", 2)]),
    ], enums=[enum("Genre", "GENRE_UNSPECIFIED", "FICTION", "True")], services=[
        svc("Library", [
            rpc("UpdateBook", P + "UpdateBookRequest", P + "Book",
                http("patch", "/v1/{book.class=shelves/*/books/*}", body="book",
                     additional=[http("put", "/v1/{class=shelves/*}/books/{book.name}", body="*"),
                                 http("post", "/v1/{book.from}/x/{book.type}")]),
                signatures=["book,update_mask", "class,in"]),
            rpc("GetBook", P + "GetBookRequest", P + "Book",
                http("get", "/v1/{name=shelves/*/books/*}"), signatures=["name", "name,format"]),
            rpc("ListBooks", P + "ListBooksRequest", P + "ListBooksResponse",
                http("get", "/v1/{parent=shelves/*}/books"), signatures=["parent"]),
            rpc("DeleteBook", P + "DeleteBookRequest", ".google.protobuf.Empty",
                http("delete", "/v1/{name=shelves/*/books/*}")),
            rpc("ExportBooks", P + "ListBooksRequest", ".google.longrunning.Operation",
                http("post", "/v1/{parent=shelves/*}/books:export", body="*"),
                lro=("ListBooksResponse", "ExportMetadata")),
            rpc("StreamBooks", P + "ListBooksRequest", P + "Book",
                http("get", "/v1/{parent=shelves/*}/books:stream"), server_streaming=True),
            rpc("UploadBooks", P + "Book", P + "ListBooksResponse",
                http("post", "/v1/books:upload", body="*"), client_streaming=True),
            rpc("NoHttp", P + "NoRequired", P + "NoRequired"),
            rpc("Pass", P + "NoRequired", P + "NoRequired", http("post", "/v1/pass", body="a")),
        ]),
        svc("Empty_", [], host="other.googleapis.com"),
    ]))
    return files, pkg


def case_mixins():
    """Two services, all mixins (locations, IAM, operations) with their REST bindings
    coming from the service yaml; grpc + rest transports."""
    pkg = "google.mixy.v1"
    P = "." + pkg + "."
    files = wellknown(operations_pb2, empty_pb2)
    files.append(fdp("google/mixy/v1/mixy.proto", pkg, [
        msg("Item", [fld("name", 1), fld("global", 2)]),
        msg("GetItemRequest", [fld("name", 1, required=True), fld("with", 2, required=True)]),
        msg("CreateItemRequest", [fld("parent", 1, required=True), fld("item", 2, T.TYPE_MESSAGE, P + "Item", required=True),
                                  fld("item_id", 3, required=True)]),
    ], services=[
        svc("Items", [
            rpc("GetItem", P + "GetItemRequest", P + "Item", http("get", "/v1/{name=items/*}"), signatures=["name"]),
            rpc("CreateItem", P + "CreateItemRequest", ".google.longrunning.Operation",
                http("post", "/v1/{parent=projects/*}/items", body="item"),
                signatures=["parent,item,item_id"], lro=("Item", "Item")),
        ]),
        svc("Admin", [
            rpc("Global", P + "GetItemRequest", P + "Item", http("get", "/v1/{name=items/*}:global")),
        ], host="admin.googleapis.com:443"),
    ]))
    yaml_cfg = {
        "type": "google.api.Service",
        "config_version": 3,
        "name": "mixy.googleapis.com",
        "title": "Mixy API",
        "apis": [
            {"name": "google.mixy.v1.Items"}, {"name": "google.mixy.v1.Admin"},
            {"name": "google.cloud.location.Locations"}, {"name": "google.iam.v1.IAMPolicy"},
            {"name": "google.longrunning.Operations"},
        ],
        "http": {"rules": [
            {"selector": "google.cloud.location.Locations.GetLocation", "get": "/v1/{name=projects/*/locations/*}"},
            {"selector": "google.cloud.location.Locations.ListLocations", "get": "/v1/{name=projects/*}/locations",
             "additional_bindings": [{"get": "/v1/{name=organizations/*}/locations"}]},
            {"selector": "google.iam.v1.IAMPolicy.GetIamPolicy", "get": "/v1/{resource=items/*}:getIamPolicy",
             "additional_bindings": [{"post": "/v1/{resource=projects/*/items/*}:getIamPolicy", "body": "*"}]},
            {"selector": "google.iam.v1.IAMPolicy.SetIamPolicy", "post": "/v1/{resource=items/*}:setIamPolicy", "body": "*"},
            {"selector": "google.iam.v1.IAMPolicy.TestIamPermissions", "post": "/v1/{resource=items/*}:testIamPermissions", "body": "*"},
            {"selector": "google.longrunning.Operations.GetOperation", "get": "/v1/{name=projects/*/operations/*}"},
            {"selector": "google.longrunning.Operations.ListOperations", "get": "/v1/{name=projects/*}/operations"},
            {"selector": "google.longrunning.Operations.CancelOperation", "post": "/v1/{name=projects/*/operations/*}:cancel", "body": "*"},
            {"selector": "google.longrunning.Operations.DeleteOperation", "delete": "/v1/{name=projects/*/operations/*}"},
            {"selector": "google.longrunning.Operations.WaitOperation", "post": "/v1/{name=projects/*/operations/*}:wait", "body": "*"},
        ]},
    }
    return files, pkg, yaml_cfg


def build_cases():
    cases = []

    def add(label, built, opt_string):
        files, pkg = built[0], built[1]
        yaml_cfg = built[2] if len(built) > 2 else None
        cases.append({
            "label": label,
            "package": pkg,
            "files": [f.SerializeToString() for f in files],
            "opts": opt_string,
            "service_yaml": yaml_cfg,
        })

    add("kwfiles/grpc+rest+metadata", case_keyword_files(), "transport=grpc+rest,metadata")
    add("kwfiles/default", case_keyword_files(), "autogen-snippets=false")
    add("collide/proto-plus-deps", case_collisions(),
        "transport=grpc+rest,proto-plus-deps=google.plus_dep.v1,autogen-snippets=false")
    add("collide/no-plus-deps", case_collisions(), "transport=grpc,autogen-snippets=false")
    add("restwords/rest", case_rest_words(), "transport=rest")
    add("restwords/rest-numeric-enums", case_rest_words(),
        "transport=grpc+rest,rest-numeric-enums,autogen-snippets=false")
    add("mixins/grpc+rest", case_mixins(), "transport=grpc+rest,autogen-snippets=false")
    add("mixins/rest+iam", case_mixins(), "transport=rest,add-iam-methods,rest-numeric-enums")
    return cases


# --------------------------------------------------------------------------
# worker: runs inside a subprocess, one per tree
# --------------------------------------------------------------------------
WORKER = r'''
import json, os, pickle, sys, importlib

tree, cases_path, out_path, scratch = sys.argv[1:5]
tree = os.path.realpath(tree)

# The venv has an editable install of another checkout: the tree under test goes FIRST,
# and every other provider of `gapic` is dropped.
sys.meta_path[:] = [f for f in sys.meta_path
                    if "__editable__" not in (getattr(f, "__module__", "") or "")
                    and "__editable__" not in getattr(f, "__name__", "")]
sys.path_hooks[:] = [h for h in sys.path_hooks if "__editable__" not in repr(h)]
sys.path[:] = [tree] + [p for p in sys.path
                        if "__editable__" not in p
                        and os.path.realpath(p or ".") != tree
                        and not os.path.isdir(os.path.join(p or ".", "gapic"))]
sys.path_importer_cache.clear()
for name in [n for n in sys.modules if n == "gapic" or n.startswith("gapic.") or "__editable__" in n]:
    del sys.modules[name]
importlib.invalidate_caches()

# pandoc is not installed: stub it identically for both trees.
import pypandoc
pypandoc.convert_text = lambda text, to, format=None, extra_args=(), **kw: text

from google.protobuf import descriptor_pb2
import gapic
from gapic.schema.api import API
from gapic.generator import Generator
from gapic.utils import Options

assert [os.path.realpath(p) for p in gapic.__path__] == [os.path.join(tree, "gapic")], list(gapic.__path__)

with open(cases_path, "rb") as fh:
    cases = pickle.load(fh)

results = {}
for case in cases:
    opt_string = case["opts"]
    if case["service_yaml"] is not None:
        yaml_path = os.path.join(scratch, "service.yaml")
        with open(yaml_path, "w") as fh:
            json.dump(case["service_yaml"], fh)      # JSON is YAML
        opt_string += ",service-yaml=" + yaml_path
    opts = Options.build(opt_string)
    for tdir in opts.templates:
        assert os.path.realpath(tdir) == os.path.join(tree, "gapic", "templates"), tdir
    fds = [descriptor_pb2.FileDescriptorProto.FromString(b) for b in case["files"]]
    api = API.build(fds, package=case["package"], opts=opts)
    response = Generator(opts).get_response(api, opts)
    files = {}
    for f in response.file:
        assert f.name not in files, f.name
        files[f.name] = f.content
    results[case["label"]] = files

for name, mod in sorted(sys.modules.items()):
    if name == "gapic" or name.startswith("gapic."):
        origin = getattr(mod, "__file__", None)
        if origin is None:      # namespace package
            assert all(os.path.realpath(p).startswith(tree + os.sep) for p in mod.__path__), (name, list(mod.__path__))
        else:
            assert os.path.realpath(origin).startswith(tree + os.sep), (name, origin)

with open(out_path, "wb") as fh:
    pickle.dump(results, fh)
'''


def run_tree(tree, cases_path, workdir, tag):
    out_path = os.path.join(workdir, f"out-{tag}.pkl")
    scratch = os.path.join(workdir, f"scratch-{tag}")
    os.makedirs(scratch)
    worker_path = os.path.join(scratch, "worker.py")
    with open(worker_path, "w") as fh:
        fh.write(WORKER)
    env = dict(os.environ, PYTHONHASHSEED="0", PYTHONDONTWRITEBYTECODE="1")
    env.pop("PYTHONPATH", None)
    proc = subprocess.run(
        [sys.executable, worker_path, tree, cases_path, out_path, scratch],
        cwd=scratch, env=env, stdout=subprocess.PIPE, stderr=subprocess.STDOUT, text=True)
    if proc.returncode != 0:
        print(f"worker for {tag} tree failed:\n{proc.stdout}")
        sys.exit(2)
    with open(out_path, "rb") as fh:
        return pickle.load(fh)


def main():
    if len(sys.argv) != 2:
        print(__doc__)
        return 2
    checkout = os.path.realpath(sys.argv[1])
    workdir = tempfile.mkdtemp(prefix="twin-W12-demo-")
    try:
        base = os.path.join(workdir, "base")
        os.makedirs(base)
        archive = subprocess.Popen(["git", "-C", checkout, "archive", "HEAD"], stdout=subprocess.PIPE)
        subprocess.run(["tar", "-x", "-C", base], stdin=archive.stdout, check=True)
        archive.stdout.close()
        if archive.wait() != 0:
            print("git archive failed")
            return 2

        cases_path = os.path.join(workdir, "cases.pkl")
        cases = build_cases()
        with open(cases_path, "wb") as fh:
            pickle.dump(cases, fh)

        before = run_tree(base, cases_path, workdir, "base")
        after = run_tree(checkout, cases_path, workdir, "changed")

        differences = []
        total_files = 0
        digest = hashlib.sha256()
        if set(before) != set(after):
            differences.append(f"case labels differ: {sorted(set(before) ^ set(after))}")
        for label in sorted(set(before) & set(after)):
            b, a = before[label], after[label]
            total_files += len(b)
            for name in sorted(set(b) | set(a)):
                if name not in a:
                    differences.append(f"[{label}] only in baseline: {name}")
                elif name not in b:
                    differences.append(f"[{label}] only in changed tree: {name}")
                elif a[name] != b[name]:
                    differences.append(f"[{label}] content differs: {name}")
                else:
                    digest.update(name.encode() + b"\0" + a[name].encode() + b"\0")
            if not b:
                differences.append(f"[{label}] baseline produced no files")

        if differences:
            print(f"DIFFERENT: {len(differences)} difference(s)")
            for line in differences:
                print("  " + line)
            return 1
        print(f"IDENTICAL: {len(before)} API descriptions, {total_files} generated files, "
              f"byte-for-byte equal (sha256 {digest.hexdigest()[:16]})")
        return 0
    finally:
        shutil.rmtree(workdir, ignore_errors=True)


if __name__ == "__main__":
    sys.exit(main())
