"""Twin demo for property C12 (reserved-word / colliding-name disambiguation).

Shows that a refactoring of the disambiguation helpers (uri_conv, FieldHeader /
RoutingParameter paths, Method.transport_safe_name, the invalid module-name table) and of
the templates that print them (create_metadata macro, grpc / grpc_asyncio stub properties)
does not change a single byte of the generator's output.

usage: python demo.py <path-to-a-checkout-with-the-change>

The script exports the checkout's HEAD (`git archive`) next to the working tree, builds a
handful of API descriptions in Python, runs the generator on each with both trees (one
subprocess per tree) and compares every output file (names and contents).
Exit 0 = identical, exit 1 = differences (listed).
"""
import hashlib
import os
import pickle
import shutil
import subprocess
import sys
import tempfile


# --------------------------------------------------------------------------------------
# worker: runs inside a subprocess with exactly one copy of `gapic` on sys.path
# --------------------------------------------------------------------------------------
def worker(tree, cases_path, out_path):
    sys.path.insert(0, tree)
    import pypandoc  # type: ignore

    # pandoc is not installed here; stub the conversion identically for both trees.
    pypandoc.convert_text = lambda text, *a, **k: text

    from google.protobuf import descriptor_pb2

    from gapic.generator import Generator
    from gapic.schema import api
    from gapic.utils import Options

    # `gapic` is a namespace package: check where its modules really come from.
    from gapic.schema import wrappers
    from gapic.utils import uri_conv

    for mod in (api, wrappers, uri_conv, sys.modules[Generator.__module__]):
        assert os.path.realpath(mod.__file__).startswith(os.path.realpath(tree) + os.sep), (
            mod.__file__,
            tree,
        )
    for templates in Options.build("").templates:
        assert os.path.realpath(templates).startswith(os.path.realpath(tree) + os.sep), templates

    with open(cases_path, "rb") as fh:
        cases = pickle.load(fh)

    results = {}
    for name, case in cases:
        fds = []
        for blob in case["files"]:
            fd = descriptor_pb2.FileDescriptorProto()
            fd.ParseFromString(blob)
            fds.append(fd)
        try:
            opts = Options.build(case["opts"])
            schema = api.API.build(fds, package=case["package"], opts=opts)
            res = Generator(opts).get_response(schema, opts)
            results[name] = {"files": {f.name: f.content for f in res.file}, "error": None}
        except Exception as exc:  # noqa: BLE001 - a crash is a result too, and must match
            results[name] = {"files": {}, "error": f"{type(exc).__name__}: {exc}"}
    with open(out_path, "wb") as fh:
        pickle.dump(results, fh)


# --------------------------------------------------------------------------------------
# descriptor construction (parent process; no `gapic` import here)
# --------------------------------------------------------------------------------------
def _descriptor_helpers():
    from google.api import annotations_pb2, client_pb2, field_behavior_pb2, routing_pb2
    from google.api import resource_pb2
    from google.protobuf import descriptor_pb2 as d

    return d, annotations_pb2, client_pb2, field_behavior_pb2, routing_pb2, resource_pb2


# All the words of gapic/utils/reserved_names.py at the time of writing (kept literal so
# that the parent never imports gapic), minus `__peg_parser__`, plus a few ordinary names.
RESERVED = [
    "any", "format", "yield", "await", "False", "return", "continue", "as", "pass", "next",
    "class", "list", "breakpoint", "import", "mapping", "zip", "locals", "max", "and",
    "finally", "dir", "def", "elif", "from", "nonlocal", "min", "not", "object", "global",
    "with", "else", "del", "range", "open", "assert", "all", "except", "while", "license",
    "raise", "True", "lambda", "for", "or", "if", "in", "async", "slice", "is", "break",
    "hash", "None", "try", "type", "exec", "help", "ignore_unknown_fields", "self", "cls",
]

STRING, INT32, BOOL, MESSAGE, ENUM = 9, 5, 8, 11, 14
OPTIONAL, REPEATED = 1, 3


def _svc(f, name, host="example.googleapis.com"):
    _, _, client_pb2, _, _, _ = _descriptor_helpers()
    s = f.service.add(name=name)
    s.options.Extensions[client_pb2.default_host] = host
    return s


def _http(m, verb, uri, body=None, additional=()):
    _, annotations_pb2, _, _, _, _ = _descriptor_helpers()
    rule = m.options.Extensions[annotations_pb2.http]
    setattr(rule, verb, uri)
    if body is not None:
        rule.body = body
    for verb2, uri2, body2 in additional:
        extra = rule.additional_bindings.add()
        setattr(extra, verb2, uri2)
        if body2 is not None:
            extra.body = body2


def _sig(m, *sigs):
    _, _, client_pb2, _, _, _ = _descriptor_helpers()
    for s in sigs:
        m.options.Extensions[client_pb2.method_signature].append(s)


def _routing(m, *params):
    _, _, _, _, routing_pb2, _ = _descriptor_helpers()
    rule = m.options.Extensions[routing_pb2.routing]
    for field, template in params:
        p = rule.routing_parameters.add(field=field)
        if template:
            p.path_template = template


def case_reserved_fields_http(opts):
    """Reserved words as top-level / nested fields, path variables, bodies, flattened
    parameters; RPCs named by keywords and by transport attributes."""
    d = _descriptor_helpers()[0]
    pkg = "google.example.v1"
    f = d.FileDescriptorProto(name="google/example/v1/library.proto", package=pkg, syntax="proto3")

    kind = f.enum_type.add(name="Kind")
    kind.value.add(name="KIND_UNSPECIFIED", number=0)
    kind.value.add(name="HARDBACK", number=1)

    book = f.message_type.add(name="Book")
    book.field.add(name="name", number=1, type=STRING, label=OPTIONAL)
    for i, w in enumerate(RESERVED, start=2):
        book.field.add(name=w, number=i, type=STRING, label=OPTIONAL)
    n = len(RESERVED) + 2
    book.field.add(name="kind", number=n, type=ENUM, label=OPTIONAL, type_name=f".{pkg}.Kind")
    # a map<string, string> and a oneof
    entry = book.nested_type.add(name="LabelsEntry")
    entry.options.map_entry = True
    entry.field.add(name="key", number=1, type=STRING, label=OPTIONAL)
    entry.field.add(name="value", number=2, type=STRING, label=OPTIONAL)
    book.field.add(
        name="labels", number=n + 1, type=MESSAGE, label=REPEATED, type_name=f".{pkg}.Book.LabelsEntry"
    )
    book.oneof_decl.add(name="medium")
    book.field.add(name="paper", number=n + 2, type=STRING, label=OPTIONAL, oneof_index=0)
    book.field.add(name="global_", number=n + 3, type=BOOL, label=OPTIONAL, oneof_index=0)

    req = f.message_type.add(name="UpdateBookRequest")
    req.field.add(name="book", number=1, type=MESSAGE, label=OPTIONAL, type_name=f".{pkg}.Book")
    req.field.add(name="type", number=2, type=STRING, label=OPTIONAL)
    req.field.add(name="from", number=3, type=MESSAGE, label=OPTIONAL, type_name=f".{pkg}.Book")
    req.field.add(name="class", number=4, type=STRING, label=OPTIONAL)
    req.field.add(name="shelf", number=5, type=STRING, label=OPTIONAL)
    req.field.add(name="in", number=6, type=STRING, label=REPEATED)
    req.field.add(name="class_", number=7, type=INT32, label=OPTIONAL)

    get = f.message_type.add(name="GetBookRequest")
    get.field.add(name="name", number=1, type=STRING, label=OPTIONAL)
    get.field.add(name="type", number=2, type=STRING, label=OPTIONAL)
    get.field.add(name="import", number=3, type=STRING, label=OPTIONAL)

    s = _svc(f, "Library")
    m = s.method.add(name="UpdateBook", input_type=f".{pkg}.UpdateBookRequest", output_type=f".{pkg}.Book")
    _http(
        m,
        "patch",
        "/v1/{book.name=shelves/*/books/*}/{book.class=kinds/*}/{type}",
        "from",
        additional=[
            ("post", "/v1/{class=classes/*}/{book.type}:update", "book"),
            ("put", "/v1/{shelf}/{in}/{book.global_}", "*"),
        ],
    )
    _sig(m, "book,type,from", "book.class,in")
    m = s.method.add(name="GetBook", input_type=f".{pkg}.GetBookRequest", output_type=f".{pkg}.Book")
    _http(m, "get", "/v1/{name=shelves/*/books/*}/{import=**}")
    _sig(m, "name,type,import")
    # RPC names: keywords (any case), transport attributes, ordinary
    for rpc in ("Import", "Class", "RETURN", "None", "CreateChannel", "GrpcChannel",
                "OperationsClient", "Createchannel", "Async", "Match", "ListShelves"):
        m = s.method.add(name=rpc, input_type=f".{pkg}.GetBookRequest", output_type=f".{pkg}.Book")
        _http(m, "post", "/v1/{type=things/*}:" + rpc.lower(), "*")
    return {"files": [f.SerializeToString()], "package": pkg, "opts": opts}


def case_routing_streaming(opts):
    """Explicit routing (with and without a path template, dotted reserved paths) and the
    implicit field headers, across unary / server- / client- / bidi-streaming RPCs."""
    d = _descriptor_helpers()[0]
    pkg = "google.route.v1beta1"
    f = d.FileDescriptorProto(name="google/route/v1beta1/route.proto", package=pkg, syntax="proto3")
    inner = f.message_type.add(name="Inner")
    inner.field.add(name="class", number=1, type=STRING, label=OPTIONAL)
    inner.field.add(name="plain", number=2, type=STRING, label=OPTIONAL)
    inner.field.add(name="self", number=3, type=MESSAGE, label=OPTIONAL, type_name=f".{pkg}.Inner")
    req = f.message_type.add(name="Req")
    req.field.add(name="type", number=1, type=STRING, label=OPTIONAL)
    req.field.add(name="table_name", number=2, type=STRING, label=OPTIONAL)
    req.field.add(name="inner", number=3, type=MESSAGE, label=OPTIONAL, type_name=f".{pkg}.Inner")
    req.field.add(name="from", number=4, type=MESSAGE, label=OPTIONAL, type_name=f".{pkg}.Inner")
    f.message_type.add(name="Resp").field.add(name="list", number=1, type=STRING, label=REPEATED)

    s = _svc(f, "Router", host="route.example.com")
    streaming = {
        "Unary": (False, False),
        "ServerStream": (False, True),
        "ClientStream": (True, False),
        "Bidi": (True, True),
    }
    for base, (cs, ss) in streaming.items():
        m = s.method.add(
            name=base + "Explicit", input_type=f".{pkg}.Req", output_type=f".{pkg}.Resp",
            client_streaming=cs, server_streaming=ss,
        )
        _http(m, "post", "/v1beta1/{table_name=projects/*}/{type}", "*")
        _routing(
            m,
            ("type", ""),
            ("table_name", "{project_id=projects/*}/**"),
            ("inner.class", "{klass=classes/*}"),
            ("from.self.class", ""),
            ("inner.plain", "{routing_id=**}"),
        )
        m = s.method.add(
            name=base + "Implicit", input_type=f".{pkg}.Req", output_type=f".{pkg}.Resp",
            client_streaming=cs, server_streaming=ss,
        )
        _http(m, "post", "/v1beta1/{inner.class=a/*}/{from.self.class}/{type}/{inner.plain=b/**}", "inner")
    # no http, no routing at all
    s.method.add(name="Bare", input_type=f".{pkg}.Req", output_type=f".{pkg}.Resp")
    return {"files": [f.SerializeToString()], "package": pkg, "opts": opts}


def case_file_names(opts):
    """Proto files named by keywords / client control parameters / with dots, files that
    collide after sanitising, modules that share a base name across packages, sub-packages,
    several services."""
    d = _descriptor_helpers()[0]
    pkg = "google.files.v2"
    files = []

    def simple(path, package, msg, deps=(), extra_fields=()):
        f = d.FileDescriptorProto(name=path, package=package, syntax="proto3")
        f.dependency.extend(deps)
        m = f.message_type.add(name=msg)
        m.field.add(name="name", number=1, type=STRING, label=OPTIONAL)
        for i, (fname, tname) in enumerate(extra_fields, start=2):
            m.field.add(name=fname, number=i, type=MESSAGE, label=OPTIONAL, type_name=tname)
        files.append(f)
        return f

    # dependencies outside the API, with a module name shared with one inside it
    simple("google/other/common.proto", "google.other", "Foreign")
    simple("google/other/type.proto", "google.other", "ForeignType")
    # inside the API
    simple("google/files/v2/common.proto", pkg, "Local")
    simple("google/files/v2/import.proto", pkg, "ImportMsg")
    simple("google/files/v2/metadata.proto", pkg, "MetadataMsg")
    simple("google/files/v2/retry.proto", pkg, "RetryMsg")
    simple("google/files/v2/timeout.proto", pkg, "TimeoutMsg")
    simple("google/files/v2/timeout_.proto", pkg, "TimeoutMsg2")
    simple("google/files/v2/request.proto", pkg, "RequestMsg")
    simple("google/files/v2/class.v2.proto", pkg, "DottedMsg")
    simple("google/files/v2/class_v2.proto", pkg, "DottedMsg2")
    simple("google/files/v2/None.proto", pkg, "NoneMsg")
    simple("google/files/v2/type.proto", pkg, "TypeMsg")
    simple("google/files/v2/sub/common.proto", pkg + ".sub", "SubLocal")
    simple("google/files/v2/sub/import.proto", pkg + ".sub", "SubImport")

    f = simple(
        "google/files/v2/service.proto",
        pkg,
        "Everything",
        deps=[x.name for x in files],
        extra_fields=[
            ("foreign", ".google.other.Foreign"),
            ("foreign_type", ".google.other.ForeignType"),
            ("local", f".{pkg}.Local"),
            ("import", f".{pkg}.ImportMsg"),
            ("metadata", f".{pkg}.MetadataMsg"),
            ("retry", f".{pkg}.RetryMsg"),
            ("timeout", f".{pkg}.TimeoutMsg"),
            ("timeout2", f".{pkg}.TimeoutMsg2"),
            ("request", f".{pkg}.RequestMsg"),
            ("dotted", f".{pkg}.DottedMsg"),
            ("dotted2", f".{pkg}.DottedMsg2"),
            ("none_msg", f".{pkg}.NoneMsg"),
            ("type", f".{pkg}.TypeMsg"),
            ("sub_local", f".{pkg}.sub.SubLocal"),
            ("sub_import", f".{pkg}.sub.SubImport"),
        ],
    )
    for svc_name in ("Alpha", "Beta"):
        s = _svc(f, svc_name)
        for out in ("Everything", "ImportMsg", "TimeoutMsg2", "DottedMsg", "TypeMsg"):
            m = s.method.add(
                name=f"Get{out}", input_type=f".{pkg}.Everything", output_type=f".{pkg}.{out}"
            )
            _http(m, "get", "/v2/{name=things/*}")
            _sig(m, "name,import,metadata,retry,timeout,request,type,foreign")
    # a service in the sub-package, taking a message of the parent package
    fs = d.FileDescriptorProto(name="google/files/v2/sub/service.proto", package=pkg + ".sub", syntax="proto3")
    fs.dependency.extend(["google/files/v2/sub/common.proto", "google/files/v2/common.proto"])
    fs.message_type.add(name="SubReq").field.add(
        name="local", number=1, type=MESSAGE, label=OPTIONAL, type_name=f".{pkg}.Local"
    )
    s = _svc(fs, "Gamma")
    m = s.method.add(name="Yield", input_type=f".{pkg}.sub.SubReq", output_type=f".{pkg}.sub.SubLocal")
    _http(m, "post", "/v2/sub:yield", "*")
    m = s.method.add(name="Cross", input_type=f".{pkg}.Local", output_type=f".{pkg}.sub.SubImport")
    _http(m, "get", "/v2/{name=sub/*}")
    _sig(m, "name")
    files.append(fs)
    return {"files": [x.SerializeToString() for x in files], "package": pkg, "opts": opts}


def _with_deps(module):
    """Serialized FileDescriptorProtos of a *_pb2 module and all its dependencies."""
    d = _descriptor_helpers()[0]
    seen, order = set(), []

    def visit(fd):
        if fd.name in seen:
            return
        seen.add(fd.name)
        for dep in fd.dependencies:
            visit(dep)
        proto = d.FileDescriptorProto()
        fd.CopyToProto(proto)
        order.append(proto.SerializeToString())

    visit(module.DESCRIPTOR)
    return order


def case_lro_paging(opts):
    """LRO, paging, a resource, required fields, an enum in the query (numeric enums)."""
    d, _, _, field_behavior_pb2, _, resource_pb2 = _descriptor_helpers()
    from google.longrunning import operations_pb2

    pkg = "google.ops.v1"
    f = d.FileDescriptorProto(name="google/ops/v1/ops.proto", package=pkg, syntax="proto3")
    f.dependency.append("google/longrunning/operations.proto")
    state = f.enum_type.add(name="State")
    state.value.add(name="STATE_UNSPECIFIED", number=0)
    state.value.add(name="None", number=1)
    thing = f.message_type.add(name="Thing")
    thing.field.add(name="name", number=1, type=STRING, label=OPTIONAL)
    thing.field.add(name="license", number=2, type=STRING, label=OPTIONAL)
    thing.options.Extensions[resource_pb2.resource].type = "ops.example.com/Thing"
    thing.options.Extensions[resource_pb2.resource].pattern.append("projects/{project}/things/{thing}")
    f.message_type.add(name="Meta").field.add(name="format", number=1, type=STRING, label=OPTIONAL)

    lreq = f.message_type.add(name="ListThingsRequest")
    fld = lreq.field.add(name="parent", number=1, type=STRING, label=OPTIONAL)
    fld.options.Extensions[field_behavior_pb2.field_behavior].append(field_behavior_pb2.REQUIRED)
    lreq.field.add(name="page_size", number=2, type=INT32, label=OPTIONAL)
    lreq.field.add(name="page_token", number=3, type=STRING, label=OPTIONAL)
    lreq.field.add(name="filter", number=4, type=STRING, label=OPTIONAL)
    lreq.field.add(name="max", number=5, type=INT32, label=OPTIONAL)
    lreq.field.add(name="state", number=6, type=ENUM, label=OPTIONAL, type_name=f".{pkg}.State")
    lresp = f.message_type.add(name="ListThingsResponse")
    lresp.field.add(name="things", number=1, type=MESSAGE, label=REPEATED, type_name=f".{pkg}.Thing")
    lresp.field.add(name="next_page_token", number=2, type=STRING, label=OPTIONAL)

    creq = f.message_type.add(name="CreateThingRequest")
    fld = creq.field.add(name="parent", number=1, type=STRING, label=OPTIONAL)
    fld.options.Extensions[field_behavior_pb2.field_behavior].append(field_behavior_pb2.REQUIRED)
    creq.field.add(name="object", number=2, type=MESSAGE, label=OPTIONAL, type_name=f".{pkg}.Thing")
    creq.field.add(name="async", number=3, type=BOOL, label=OPTIONAL)

    s = _svc(f, "Ops", host="ops.example.com")
    m = s.method.add(name="ListThings", input_type=f".{pkg}.ListThingsRequest", output_type=f".{pkg}.ListThingsResponse")
    _http(m, "get", "/v1/{parent=projects/*}/things")
    _sig(m, "parent", "parent,max")
    m = s.method.add(name="CreateThing", input_type=f".{pkg}.CreateThingRequest", output_type=".google.longrunning.Operation")
    _http(m, "post", "/v1/{parent=projects/*}/things", "object")
    _sig(m, "parent,object,async")
    m.options.Extensions[operations_pb2.operation_info].response_type = "Thing"
    m.options.Extensions[operations_pb2.operation_info].metadata_type = "Meta"
    m = s.method.add(name="Del", input_type=f".{pkg}.CreateThingRequest", output_type=".google.longrunning.Operation")
    _http(m, "delete", "/v1/{object.name=projects/*/things/*}/{object.license}")
    m.options.Extensions[operations_pb2.operation_info].response_type = f"{pkg}.Thing"
    m.options.Extensions[operations_pb2.operation_info].metadata_type = f"{pkg}.Meta"
    return {
        "files": _with_deps(operations_pb2) + [f.SerializeToString()],
        "package": pkg,
        "opts": opts,
    }


def case_plain(opts):
    """Nothing reserved, no annotations at all: the code must be a no-op here."""
    d = _descriptor_helpers()[0]
    pkg = "acme.plain.v3"
    f = d.FileDescriptorProto(name="acme/plain/v3/plain.proto", package=pkg, syntax="proto3")
    f.message_type.add(name="In").field.add(name="text", number=1, type=STRING, label=OPTIONAL)
    f.message_type.add(name="Out").field.add(name="text", number=1, type=STRING, label=OPTIONAL)
    f.message_type.add(name="Unused")
    s = f.service.add(name="Plain")  # no default_host either
    s.method.add(name="Echo", input_type=f".{pkg}.In", output_type=f".{pkg}.Out")
    s.method.add(name="Chat", input_type=f".{pkg}.In", output_type=f".{pkg}.Out",
                 client_streaming=True, server_streaming=True)
    f.service.add(name="Empty")  # a service without methods
    return {"files": [f.SerializeToString()], "package": pkg, "opts": opts}


def build_cases():
    return [
        ("reserved_http/grpc+rest", case_reserved_fields_http("transport=grpc+rest")),
        ("reserved_http/rest,numeric", case_reserved_fields_http("transport=rest,rest-numeric-enums,autogen-snippets=false")),
        ("routing/grpc", case_routing_streaming("")),
        ("routing/grpc+rest,nosnippets", case_routing_streaming("transport=grpc+rest,autogen-snippets=false")),
        ("file_names/grpc+rest", case_file_names("transport=grpc+rest,autogen-snippets=false")),
        ("file_names/grpc,metadata", case_file_names("metadata,autogen-snippets=false")),
        ("lro_paging/grpc+rest,numeric", case_lro_paging("transport=grpc+rest,rest-numeric-enums")),
        ("lro_paging/grpc,iam", case_lro_paging("add-iam-methods,autogen-snippets=false")),
        ("plain/grpc+rest", case_plain("transport=grpc+rest")),
    ]


# --------------------------------------------------------------------------------------
# driver
# --------------------------------------------------------------------------------------
def main(argv):
    if len(argv) >= 2 and argv[1] == "--worker":
        worker(*argv[2:5])
        return 0
    if len(argv) != 2:
        print(__doc__)
        return 2

    checkout = os.path.abspath(argv[1])
    tmp = tempfile.mkdtemp(prefix="twin-T12-")
    try:
        base = os.path.join(tmp, "base")
        os.mkdir(base)
        archive = subprocess.Popen(["git", "-C", checkout, "archive", "HEAD"], stdout=subprocess.PIPE)
        subprocess.check_call(["tar", "-x", "-C", base], stdin=archive.stdout)
        archive.stdout.close()
        if archive.wait() != 0:
            raise RuntimeError("git archive failed")

        cases = build_cases()
        cases_path = os.path.join(tmp, "cases.pkl")
        with open(cases_path, "wb") as fh:
            pickle.dump(cases, fh)

        env = dict(os.environ, PYTHONDONTWRITEBYTECODE="1", PYTHONHASHSEED="0")
        env.pop("PYTHONPATH", None)
        procs = {}
        for label, tree in (("base", base), ("changed", checkout)):
            out = os.path.join(tmp, label + ".pkl")
            procs[label] = (
                subprocess.Popen(
                    [sys.executable, os.path.abspath(__file__), "--worker", tree, cases_path, out],
                    cwd=tmp,
                    env=env,
                ),
                out,
            )
        results = {}
        for label, (proc, out) in procs.items():
            if proc.wait() != 0:
                raise RuntimeError(f"generator run on the {label} tree failed")
            with open(out, "rb") as fh:
                results[label] = pickle.load(fh)

        diffs, total, errors = [], 0, 0
        digest = hashlib.sha256()
        for name, _ in cases:
            b, c = results["base"][name], results["changed"][name]
            if b["error"] != c["error"]:
                diffs.append(f"{name}: error differs: base={b['error']!r} changed={c['error']!r}")
            if b["error"]:
                errors += 1
            for fname in sorted(set(b["files"]) | set(c["files"])):
                total += 1
                if fname not in c["files"]:
                    diffs.append(f"{name}: {fname} only generated by base")
                elif fname not in b["files"]:
                    diffs.append(f"{name}: {fname} only generated by changed")
                elif b["files"][fname] != c["files"][fname]:
                    diffs.append(f"{name}: {fname} content differs")
                else:
                    digest.update(fname.encode() + b"\0" + b["files"][fname].encode() + b"\0")
        if diffs:
            print(f"DIFFERENT: {len(diffs)} difference(s) over {len(cases)} cases")
            for line in diffs:
                print("  -", line)
            return 1
        if errors:
            # identical, but a case that does not generate proves nothing: be loud about it
            print(f"note: {errors} case(s) raised the same exception in both trees")
            for name, _ in cases:
                if results["base"][name]["error"]:
                    print("  -", name, results["base"][name]["error"])
        print(
            f"identical: {len(cases)} cases, {total} files compared byte for byte "
            f"(sha256 {digest.hexdigest()[:16]}), {errors} generation errors"
        )
        return 0
    finally:
        shutil.rmtree(tmp, ignore_errors=True)


if __name__ == "__main__":
    sys.exit(main(sys.argv))
