#!/usr/bin/env python
"""Equivalence demo for the W18 refactoring (property C18: auto-populated UUID4 fields).

Usage:  /venv/bin/python demo.py <path-to-a-checkout-with-the-change>

The script exports the checkout's HEAD (`git archive HEAD`) into a temporary
directory, builds several API descriptions in Python (no protoc), runs the
generator on every description with BOTH trees (HEAD export = before, the
checkout's working tree = after) in separate subprocesses, and compares

  * for the valid descriptions: every generated file, byte for byte
    (file names and contents);
  * for the invalid method settings: the exception type and the complete
    message raised by `API.all_method_settings` and by the generator.

Exit status 0 and a one-line summary if everything is identical, 1 otherwise.
"""

import hashlib
import os
import pickle
import shutil
import subprocess
import sys
import tempfile

WORKER_FLAG = "--worker"


# ---------------------------------------------------------------------------
# Worker: runs inside a subprocess, with exactly one `gapic` tree importable.
# ---------------------------------------------------------------------------


def _isolate_gapic(tree):
    """Make `tree` the only provider of the `gapic` package."""
    tree = os.path.realpath(tree)

    # Drop import finders / path hooks of editable installs (the venv has an
    # editable install of another checkout of this project).
    sys.meta_path[:] = [
        finder
        for finder in sys.meta_path
        if "__editable__" not in getattr(finder, "__module__", "")
        and "__editable__" not in getattr(type(finder), "__module__", "")
        and "__editable__" not in repr(finder)
    ]
    sys.path_hooks[:] = [
        hook
        for hook in sys.path_hooks
        if "__editable__" not in getattr(hook, "__module__", "")
        and "__editable__" not in repr(hook)
    ]
    for name in [m for m in sys.modules if m.startswith("__editable__")]:
        del sys.modules[name]

    # Drop every other path entry which provides `gapic`, put the tree first.
    kept = []
    for entry in sys.path:
        real = os.path.realpath(entry or os.getcwd())
        if real == tree:
            continue
        if "__editable__" in entry:
            continue
        if os.path.exists(os.path.join(real, "gapic", "__init__.py")) or os.path.isdir(
            os.path.join(real, "gapic", "schema")
        ):
            continue
        kept.append(entry)
    sys.path[:] = [tree] + kept
    sys.path_importer_cache.clear()
    assert not any(m == "gapic" or m.startswith("gapic.") for m in sys.modules)


def _assert_origin(tree, opts):
    tree = os.path.realpath(tree)
    prefix = os.path.join(tree, "gapic") + os.sep
    checked = 0
    for name, module in list(sys.modules.items()):
        if name == "gapic" or name.startswith("gapic."):
            origin = getattr(module, "__file__", None)
            if origin is None:
                paths = [os.path.realpath(p) for p in getattr(module, "__path__", [])]
                assert paths and all(
                    (p + os.sep).startswith(prefix) for p in paths
                ), (name, paths)
            else:
                assert os.path.realpath(origin).startswith(prefix), (name, origin)
            checked += 1
    assert checked > 10, checked
    for template_dir in opts.templates:
        assert (os.path.realpath(template_dir) + os.sep).startswith(prefix), (
            template_dir,
            prefix,
        )


def _fake_convert_text(text, to, format=None, extra_args=(), **kwargs):
    # pandoc is not installed: the same deterministic stand-in for both runs.
    return "\n".join(line.rstrip() for line in text.strip().splitlines())


def worker(tree, cases_path, out_path):
    _isolate_gapic(tree)

    import pypandoc  # type: ignore

    pypandoc.convert_text = _fake_convert_text

    from google.protobuf import descriptor_pb2

    from gapic.generator import generator
    from gapic.schema import api as api_module
    from gapic.utils import Options

    with open(cases_path, "rb") as f:
        cases = pickle.load(f)

    results = {}
    for case in cases:
        fdps = [
            descriptor_pb2.FileDescriptorProto.FromString(blob)
            for blob in case["files"]
        ]
        opts = Options.build(case["options"])
        _assert_origin(tree, opts)
        outcome = {}

        # 1. Validation on its own (fresh API object, nothing cached).
        api_schema = api_module.API.build(fdps, package=case["package"], opts=opts)
        try:
            settings = api_schema.all_method_settings
            outcome["settings"] = (
                "ok",
                [
                    (key, value.SerializeToString(deterministic=True))
                    for key, value in settings.items()
                ],
            )
        except Exception as exc:  # noqa: BLE001 - the outcome is what we compare
            outcome["settings"] = (type(exc).__name__, str(exc))

        # 2. The complete generator run (fresh API object again).
        fdps = [
            descriptor_pb2.FileDescriptorProto.FromString(blob)
            for blob in case["files"]
        ]
        api_schema = api_module.API.build(fdps, package=case["package"], opts=opts)
        try:
            response = generator.Generator(opts).get_response(api_schema, opts)
            outcome["generate"] = (
                "ok",
                {f.name: f.content.encode("utf-8") for f in response.file},
            )
        except Exception as exc:  # noqa: BLE001
            outcome["generate"] = (type(exc).__name__, str(exc))
        results[case["name"]] = outcome

    _assert_origin(tree, opts)
    with open(out_path, "wb") as f:
        pickle.dump(results, f)


# ---------------------------------------------------------------------------
# Driver: builds the API descriptions.
# ---------------------------------------------------------------------------


def _dependency_files():
    """Serialized FileDescriptorProtos of the well-known imports, in dependency order."""
    from google.api import annotations_pb2, client_pb2, field_behavior_pb2
    from google.api import field_info_pb2, resource_pb2, routing_pb2
    from google.longrunning import operations_pb2
    from google.protobuf import descriptor_pb2, empty_pb2, field_mask_pb2

    ordered = []
    seen = set()

    def visit(file_descriptor):
        if file_descriptor.name in seen:
            return
        seen.add(file_descriptor.name)
        for dependency in file_descriptor.dependencies:
            visit(dependency)
        ordered.append(
            descriptor_pb2.FileDescriptorProto.FromString(file_descriptor.serialized_pb)
        )

    for module in (
        annotations_pb2,
        client_pb2,
        field_behavior_pb2,
        field_info_pb2,
        resource_pb2,
        routing_pb2,
        operations_pb2,
        empty_pb2,
        field_mask_pb2,
    ):
        visit(module.DESCRIPTOR)
    return ordered


class Builder:
    """Tiny helper to write FileDescriptorProtos by hand."""

    def __init__(self, name, package, deps):
        from google.protobuf import descriptor_pb2

        self.pb2 = descriptor_pb2
        self.package = package
        self.file = descriptor_pb2.FileDescriptorProto(
            name=name, package=package, syntax="proto3"
        )
        self.file.dependency.extend(deps)

    # -- messages ---------------------------------------------------------
    def message(self, name, parent=None):
        container = self.file.message_type if parent is None else parent.nested_type
        return container.add(name=name)

    def field(
        self,
        message,
        name,
        number,
        type_="string",
        type_name=None,
        repeated=False,
        optional=False,
        uuid4=False,
        required=False,
        oneof=None,
    ):
        F = self.pb2.FieldDescriptorProto
        from google.api import field_behavior_pb2, field_info_pb2

        field = message.field.add(
            name=name,
            number=number,
            json_name=name,
            label=F.LABEL_REPEATED if repeated else F.LABEL_OPTIONAL,
            type={
                "string": F.TYPE_STRING,
                "int32": F.TYPE_INT32,
                "bool": F.TYPE_BOOL,
                "bytes": F.TYPE_BYTES,
                "message": F.TYPE_MESSAGE,
                "enum": F.TYPE_ENUM,
            }[type_],
        )
        if type_name:
            field.type_name = type_name
        if optional:
            # proto3 `optional`: a synthetic oneof.
            message.oneof_decl.add(name="_" + name)
            field.oneof_index = len(message.oneof_decl) - 1
            field.proto3_optional = True
        if oneof is not None:
            field.oneof_index = oneof
        if uuid4:
            field.options.Extensions[field_info_pb2.field_info].format = (
                field_info_pb2.FieldInfo.Format.Value("UUID4")
            )
        if required:
            field.options.Extensions[field_behavior_pb2.field_behavior].append(
                field_behavior_pb2.FieldBehavior.Value("REQUIRED")
            )
        return field

    def map_field(self, message, name, number):
        entry = message.nested_type.add(name=name.title().replace("_", "") + "Entry")
        entry.options.map_entry = True
        self.field(entry, "key", 1)
        self.field(entry, "value", 2)
        return self.field(
            message,
            name,
            number,
            type_="message",
            type_name=f".{self.package}.{message.name}.{entry.name}",
            repeated=True,
        )

    # -- services ---------------------------------------------------------
    def service(self, name, host="example.googleapis.com", version=None):
        from google.api import client_pb2

        service = self.file.service.add(name=name)
        service.options.Extensions[client_pb2.default_host] = host
        service.options.Extensions[client_pb2.oauth_scopes] = (
            "https://www.googleapis.com/auth/cloud-platform"
        )
        if version:
            service.options.Extensions[client_pb2.api_version] = version
        return service

    def method(
        self,
        service,
        name,
        input_type,
        output_type,
        http=None,
        signatures=(),
        client_streaming=False,
        server_streaming=False,
        lro=None,
        deprecated=False,
        routing=None,
    ):
        from google.api import annotations_pb2, client_pb2, routing_pb2
        from google.longrunning import operations_pb2

        def qualify(type_):
            return type_ if type_.startswith(".") else f".{self.package}.{type_}"

        method = service.method.add(
            name=name,
            input_type=qualify(input_type),
            output_type=qualify(output_type),
            client_streaming=client_streaming,
            server_streaming=server_streaming,
        )
        if http:
            verb, uri, body = http
            rule = method.options.Extensions[annotations_pb2.http]
            setattr(rule, verb, uri)
            if body:
                rule.body = body
        for signature in signatures:
            method.options.Extensions[client_pb2.method_signature].append(signature)
        if lro:
            info = method.options.Extensions[operations_pb2.operation_info]
            info.response_type, info.metadata_type = lro
        if deprecated:
            method.options.deprecated = True
        if routing:
            rule = method.options.Extensions[routing_pb2.routing]
            for field_name, template in routing:
                rule.routing_parameters.add(field=field_name, path_template=template)
        return method


DEPS = [
    "google/api/annotations.proto",
    "google/api/client.proto",
    "google/api/field_behavior.proto",
    "google/api/field_info.proto",
    "google/api/resource.proto",
    "google/api/routing.proto",
    "google/longrunning/operations.proto",
    "google/protobuf/empty.proto",
    "google/protobuf/field_mask.proto",
]


def library_api(package="google.example.library.v1", extra_file=False):
    """A service with every method shape the refactored code distinguishes."""
    b = Builder("google/example/library/v1/library.proto", package, DEPS)
    if extra_file:
        b.file.dependency.append("google/example/common/shared.proto")

    book = b.message("Book")
    b.field(book, "name", 1)
    b.field(book, "title", 2)
    b.field(book, "tags", 3, repeated=True)
    b.map_field(book, "labels", 4)
    book.oneof_decl.add(name="format")
    b.field(book, "isbn", 5, oneof=0)
    b.field(book, "pages", 6, type_="int32", oneof=0)

    # proto3 optional request id + plain request id, flattened fields.
    create = b.message("CreateBookRequest")
    b.field(create, "parent", 1, required=True)
    b.field(create, "book", 2, type_="message", type_name=f".{package}.Book")
    b.field(create, "request_id", 3, optional=True, uuid4=True)
    b.field(create, "second_request_id", 4, uuid4=True)
    b.field(create, "tags", 5, repeated=True)
    b.map_field(create, "labels", 6)

    # Plain (no presence) request id only; reserved word as a flattened field.
    update = b.message("UpdateBookRequest")
    b.field(update, "book", 1, type_="message", type_name=f".{package}.Book")
    b.field(
        update,
        "update_mask",
        2,
        type_="message",
        type_name=".google.protobuf.FieldMask",
    )
    b.field(update, "request_id", 3, uuid4=True)
    b.field(update, "from", 4)

    get = b.message("GetBookRequest")
    b.field(get, "name", 1)
    # Annotated, but not listed in the method settings.
    b.field(get, "request_id", 2, optional=True, uuid4=True)

    delete = b.message("DeleteBookRequest")
    b.field(delete, "name", 1)
    b.field(delete, "request_id", 2, optional=True, uuid4=True)

    list_req = b.message("ListBooksRequest")
    b.field(list_req, "parent", 1)
    b.field(list_req, "page_size", 2, type_="int32")
    b.field(list_req, "page_token", 3)
    b.field(list_req, "request_id", 4, uuid4=True)
    list_resp = b.message("ListBooksResponse")
    b.field(
        list_resp, "books", 1, type_="message", type_name=f".{package}.Book", repeated=True
    )
    b.field(list_resp, "next_page_token", 2)

    imp = b.message("ImportBooksRequest")
    b.field(imp, "parent", 1)
    b.field(imp, "request_id", 2, optional=True, uuid4=True)
    nested = b.message("Options", parent=imp)
    b.field(nested, "request_id", 1, uuid4=True)
    b.field(imp, "options", 3, type_="message", type_name=f".{package}.ImportBooksRequest.Options")
    b.message("ImportBooksResponse")
    b.message("ImportBooksMetadata")

    # Fields violating exactly one criterion each (used by the invalid cases).
    bad = b.message("ArchiveBookRequest")
    b.field(bad, "name", 1)
    b.field(bad, "not_annotated", 2)
    b.field(bad, "not_a_string", 3, type_="int32", uuid4=True)
    b.field(bad, "required_id", 4, uuid4=True, required=True)
    b.field(bad, "good_id", 5, uuid4=True)
    b.field(bad, "bytes_id", 6, type_="bytes")

    stream = b.message("StreamBooksRequest")
    b.field(stream, "parent", 1)
    b.field(stream, "request_id", 2, uuid4=True)

    service = b.service("Library", version="2024-01-01")
    b.method(
        service,
        "CreateBook",
        "CreateBookRequest",
        "Book",
        http=("post", "/v1/{parent=shelves/*}/books", "book"),
        signatures=["parent,book", "parent,book,tags,labels"],
    )
    b.method(
        service,
        "UpdateBook",
        "UpdateBookRequest",
        "Book",
        http=("patch", "/v1/{book.name=shelves/*/books/*}", "book"),
        signatures=["book,update_mask,from"],
        routing=[("from", "{routing_id=**}")],
    )
    b.method(
        service,
        "GetBook",
        "GetBookRequest",
        "Book",
        http=("get", "/v1/{name=shelves/*/books/*}", None),
        signatures=["name"],
        deprecated=True,
    )
    b.method(
        service,
        "DeleteBook",
        "DeleteBookRequest",
        ".google.protobuf.Empty",
        http=("delete", "/v1/{name=shelves/*/books/*}", None),
        signatures=["name"],
    )
    b.method(
        service,
        "ListBooks",
        "ListBooksRequest",
        "ListBooksResponse",
        http=("get", "/v1/{parent=shelves/*}/books", None),
        signatures=["parent"],
    )
    b.method(
        service,
        "ImportBooks",
        "ImportBooksRequest",
        ".google.longrunning.Operation",
        http=("post", "/v1/{parent=shelves/*}/books:import", "*"),
        lro=("ImportBooksResponse", "ImportBooksMetadata"),
    )
    b.method(
        service,
        "ArchiveBook",
        "ArchiveBookRequest",
        "Book",
        http=("post", "/v1/{name=shelves/*/books/*}:archive", "*"),
    )
    b.method(
        service,
        "StreamBooks",
        "StreamBooksRequest",
        "Book",
        http=("get", "/v1/{parent=shelves/*}/books:stream", None),
        server_streaming=True,
    )
    b.method(
        service, "UploadBooks", "StreamBooksRequest", "Book", client_streaming=True
    )
    b.method(
        service,
        "ChatBooks",
        "StreamBooksRequest",
        "Book",
        client_streaming=True,
        server_streaming=True,
    )
    if extra_file:
        # The request lives in a different package (no proto-plus wrapper).
        b.method(
            service,
            "PingShared",
            ".google.example.common.SharedRequest",
            ".google.example.common.SharedRequest",
            http=("post", "/v1/ping", "*"),
            signatures=["shared_name,shared_tags,shared_labels"],
        )

    # A second service in the same file, without any method settings.
    second = b.service("Shelves")
    shelf_req = b.message("GetShelfRequest")
    b.field(shelf_req, "name", 1)
    b.field(shelf_req, "request_id", 2, uuid4=True)
    shelf = b.message("Shelf")
    b.field(shelf, "name", 1)
    b.method(
        second,
        "GetShelf",
        "GetShelfRequest",
        "Shelf",
        http=("get", "/v1/{name=shelves/*}", None),
        signatures=["name"],
    )
    return b.file


def shared_file():
    b = Builder("google/example/common/shared.proto", "google.example.common", DEPS)
    message = b.message("SharedRequest")
    b.field(message, "shared_name", 1)
    b.field(message, "shared_tags", 2, repeated=True)
    b.map_field(message, "shared_labels", 3)
    b.field(message, "request_id", 4, uuid4=True)
    return b.file


def subpackage_file(package="google.example.library.v1"):
    """A service in a sub-package of the API."""
    sub = package + ".admin"
    b = Builder("google/example/library/v1/admin/admin.proto", sub, DEPS)
    request = b.message("PurgeRequest")
    b.field(request, "name", 1)
    b.field(request, "request_id", 2, optional=True, uuid4=True)
    b.field(request, "other_request_id", 3, uuid4=True)
    b.message("PurgeResponse")
    service = b.service("Admin")
    b.method(
        service,
        "Purge",
        "PurgeRequest",
        "PurgeResponse",
        http=("post", "/v1/{name=shelves/*}:purge", "*"),
        signatures=["name"],
    )
    return b.file


LIB = "google.example.library.v1.Library"

VALID_SETTINGS = [
    {"selector": f"{LIB}.CreateBook", "auto_populated_fields": ["request_id", "second_request_id"]},
    {"selector": f"{LIB}.UpdateBook", "auto_populated_fields": ["request_id"]},
    {"selector": f"{LIB}.DeleteBook", "auto_populated_fields": ["request_id"]},
    {"selector": f"{LIB}.ListBooks", "auto_populated_fields": ["request_id"]},
    {
        "selector": f"{LIB}.ImportBooks",
        "auto_populated_fields": ["request_id"],
        "long_running": {"initial_poll_delay": "3s", "poll_delay_multiplier": 1.5},
    },
    # Settings without auto-populated fields: unary and streaming methods.
    {"selector": f"{LIB}.GetBook", "long_running": {"initial_poll_delay": "1s"}},
    {"selector": f"{LIB}.StreamBooks"},
    {"selector": f"{LIB}.ChatBooks", "auto_populated_fields": []},
    {"selector": "google.example.library.v1.Shelves.GetShelf", "auto_populated_fields": ["request_id"]},
]

SUBPACKAGE_SETTINGS = [
    {
        "selector": "google.example.library.v1.admin.Admin.Purge",
        "auto_populated_fields": ["other_request_id", "request_id"],
    },
]

# Every single violation, duplicates and combinations.
INVALID_SETTINGS = {
    "method_not_found": [
        {"selector": f"{LIB}.NoSuchMethod", "auto_populated_fields": ["request_id"]}
    ],
    "method_not_found_no_fields": [{"selector": "google.example.library.v1.Nope.Get"}],
    "server_streaming": [
        {"selector": f"{LIB}.StreamBooks", "auto_populated_fields": ["request_id"]}
    ],
    "client_streaming": [
        {"selector": f"{LIB}.UploadBooks", "auto_populated_fields": ["request_id"]}
    ],
    "bidi_streaming": [
        {"selector": f"{LIB}.ChatBooks", "auto_populated_fields": ["nope"]}
    ],
    "field_not_found": [
        {"selector": f"{LIB}.ArchiveBook", "auto_populated_fields": ["missing"]}
    ],
    "nested_field": [
        {"selector": f"{LIB}.ImportBooks", "auto_populated_fields": ["options.request_id"]}
    ],
    "not_string": [
        {"selector": f"{LIB}.ArchiveBook", "auto_populated_fields": ["not_a_string"]}
    ],
    "required": [
        {"selector": f"{LIB}.ArchiveBook", "auto_populated_fields": ["required_id"]}
    ],
    "not_annotated": [
        {"selector": f"{LIB}.ArchiveBook", "auto_populated_fields": ["not_annotated"]}
    ],
    "several_violations_one_field": [
        {"selector": f"{LIB}.ArchiveBook", "auto_populated_fields": ["bytes_id"]}
    ],
    "mixed_fields": [
        {
            "selector": f"{LIB}.ArchiveBook",
            "auto_populated_fields": [
                "good_id",
                "missing",
                "required_id",
                "not_a_string",
                "good_id",
                "not_annotated",
            ],
        }
    ],
    "duplicate_valid": [
        {"selector": f"{LIB}.UpdateBook", "auto_populated_fields": ["request_id"]},
        {"selector": f"{LIB}.UpdateBook", "auto_populated_fields": ["request_id"]},
    ],
    "duplicate_after_error": [
        {"selector": f"{LIB}.ArchiveBook", "auto_populated_fields": ["missing"]},
        {"selector": f"{LIB}.ArchiveBook"},
        {"selector": f"{LIB}.ArchiveBook", "auto_populated_fields": ["required_id"]},
    ],
    "duplicate_not_found": [
        {"selector": f"{LIB}.Nope"},
        {"selector": f"{LIB}.Nope"},
    ],
    "many_selectors": [
        {"selector": f"{LIB}.CreateBook", "auto_populated_fields": ["request_id"]},
        {"selector": f"{LIB}.Zzz"},
        {"selector": f"{LIB}.StreamBooks", "auto_populated_fields": ["request_id"]},
        {"selector": f"{LIB}.ArchiveBook", "auto_populated_fields": ["not_annotated", "bytes_id"]},
        {"selector": f"{LIB}.GetBook"},
        {"selector": f"{LIB}.CreateBook"},
        {"selector": f"{LIB}.DeleteBook", "auto_populated_fields": ["name"]},
    ],
}


def build_cases(tmpdir):
    import yaml

    deps = _dependency_files()

    def serialize(files):
        return [f.SerializeToString(deterministic=True) for f in deps + list(files)]

    def service_yaml(name, method_settings, apis=()):
        config = {
            "type": "google.api.Service",
            "config_version": 3,
            "name": "example.googleapis.com",
            "title": "Example Library API",
            "apis": [{"name": api} for api in apis],
            "publishing": {"method_settings": method_settings},
        }
        path = os.path.join(tmpdir, f"{name}_service.yaml")
        with open(path, "w") as f:
            yaml.safe_dump(config, f)
        return path

    package = "google.example.library.v1"
    cases = []

    def add(name, files, options, settings=None, apis=(), expect="ok"):
        option_string = options
        if settings is not None:
            path = service_yaml(name, settings, apis)
            option_string = ",".join(filter(None, [options, f"service-yaml={path}"]))
        cases.append(
            {
                "name": name,
                "files": serialize(files),
                "package": package,
                "options": option_string,
                # The expected outcome of the generator run ("ok" or the name
                # of the exception type); identical for both trees.
                "expect": expect,
            }
        )

    # 1. gRPC (sync + asyncio), default options, every valid setting.
    add("grpc_default", [library_api()], "", VALID_SETTINGS)
    # 2. gRPC + REST, numeric enums, no snippets, metadata, mixins.
    add(
        "grpc_rest_numeric_enums",
        [library_api()],
        "transport=grpc+rest,rest-numeric-enums,autogen-snippets=false,metadata",
        VALID_SETTINGS,
        apis=(
            "google.example.library.v1.Library",
            "google.cloud.location.Locations",
            "google.longrunning.Operations",
        ),
    )
    # 3. REST only; a request which lives in another package.
    add(
        "rest_only_foreign_request",
        [shared_file(), library_api(extra_file=True)],
        "transport=rest,add-iam-methods",
        VALID_SETTINGS + [{"selector": f"{LIB}.PingShared"}],
    )
    # 3a. Auto-populated fields of a request which lives in another package:
    # `API.messages` only has the messages of the API's own package, so the
    # validation stops with a KeyError (existing behaviour) - identically.
    add(
        "invalid_foreign_request",
        [shared_file(), library_api(extra_file=True)],
        "autogen-snippets=false",
        [
            {"selector": f"{LIB}.CreateBook", "auto_populated_fields": ["nope"]},
            {"selector": f"{LIB}.PingShared", "auto_populated_fields": ["request_id"]},
        ],
        expect="KeyError",
    )
    # 3b. With a sub-package, the generator validates the settings against the
    # sub-package's own view of the API too, in which the parent's methods do
    # not exist: generation is rejected (existing behaviour) - identically.
    # (Snippet generation does not support sub-packages either.)
    add(
        "invalid_subpackage_view",
        [shared_file(), library_api(extra_file=True), subpackage_file()],
        "transport=rest,autogen-snippets=false",
        VALID_SETTINGS + SUBPACKAGE_SETTINGS,
        expect="MethodSettingsError",
    )
    # 4. No service yaml at all (no settings => no `import uuid`, no population).
    add(
        "no_method_settings",
        [shared_file(), library_api(extra_file=True), subpackage_file()],
        "transport=grpc+rest,autogen-snippets=false",
    )
    # 5. A service yaml with an empty list of method settings.
    add("empty_method_settings", [library_api()], "autogen-snippets=false", [])
    # 6. Only settings without auto-populated fields.
    add(
        "settings_without_fields",
        [library_api()],
        "autogen-snippets=false",
        [
            {"selector": f"{LIB}.GetBook"},
            {"selector": f"{LIB}.UploadBooks"},
            {"selector": f"{LIB}.ImportBooks", "long_running": {"max_poll_delay": "60s"}},
        ],
    )
    # 7. The alternative (Ads) templates share gapic/schema/api.py.
    add(
        "ads_templates",
        [library_api()],
        "old-naming,python-gapic-templates=ads-templates",
        VALID_SETTINGS,
    )
    # 8... Invalid settings: generation must fail in the same way.
    for name, settings in INVALID_SETTINGS.items():
        add(
            f"invalid_{name}",
            [library_api()],
            "autogen-snippets=false",
            settings,
            expect="MethodSettingsError",
        )
    return cases


def run_worker(tree, cases_path, out_path):
    env = {
        key: value
        for key, value in os.environ.items()
        if key not in ("PYTHONPATH", "PYTHONSTARTUP", "PYTHONHOME")
    }
    env["PYTHONDONTWRITEBYTECODE"] = "1"
    env["PYTHONHASHSEED"] = "0"
    subprocess.run(
        [sys.executable, os.path.abspath(__file__), WORKER_FLAG, tree, cases_path, out_path],
        check=True,
        env=env,
        cwd=os.path.dirname(cases_path),
    )
    with open(out_path, "rb") as f:
        return pickle.load(f)


def main(argv):
    if len(argv) >= 2 and argv[1] == WORKER_FLAG:
        worker(*argv[2:5])
        return 0
    if len(argv) != 2:
        print(__doc__)
        return 2

    checkout = os.path.realpath(argv[1])
    tmpdir = tempfile.mkdtemp(prefix="twin-demo-W18-")
    try:
        base = os.path.join(tmpdir, "base")
        os.mkdir(base)
        archive = subprocess.Popen(
            ["git", "-C", checkout, "archive", "HEAD"], stdout=subprocess.PIPE
        )
        subprocess.run(["tar", "-x", "-C", base], stdin=archive.stdout, check=True)
        archive.stdout.close()
        if archive.wait() != 0:
            raise RuntimeError("git archive failed")

        work = os.path.join(tmpdir, "work")
        os.mkdir(work)
        cases = build_cases(work)
        cases_path = os.path.join(work, "cases.pkl")
        with open(cases_path, "wb") as f:
            pickle.dump(cases, f)

        before = run_worker(base, cases_path, os.path.join(work, "before.pkl"))
        after = run_worker(checkout, cases_path, os.path.join(work, "after.pkl"))

        problems = []
        n_files = n_ok = n_failed = 0
        digest = hashlib.sha256()
        for case in cases:
            name = case["name"]
            old, new = before[name], after[name]
            if old["settings"] != new["settings"]:
                problems.append(
                    f"{name}: all_method_settings differs:\n  before: {old['settings']!r}\n  after:  {new['settings']!r}"
                )
            old_kind, old_value = old["generate"]
            new_kind, new_value = new["generate"]
            if old_kind != case["expect"]:
                # Sanity: the inputs must exercise what they are meant to.
                detail = "" if old_kind == "ok" else f": {old_value}"
                problems.append(
                    f"{name}: expected {case['expect']}, got {old_kind}{detail}"
                )
            if old_kind != new_kind:
                problems.append(
                    f"{name}: generation outcome differs: {old_kind} vs {new_kind}"
                )
                continue
            if old_kind != "ok":
                n_failed += 1
                if old_value != new_value:
                    problems.append(
                        f"{name}: error message differs:\n  before: {old_value!r}\n  after:  {new_value!r}"
                    )
                digest.update(repr((name, old_kind, old_value)).encode())
                continue
            n_ok += 1
            for fname in sorted(set(old_value) | set(new_value)):
                n_files += 1
                if fname not in old_value:
                    problems.append(f"{name}: only after:  {fname}")
                elif fname not in new_value:
                    problems.append(f"{name}: only before: {fname}")
                elif old_value[fname] != new_value[fname]:
                    problems.append(f"{name}: differs: {fname}")
                else:
                    digest.update(fname.encode() + b"\0" + old_value[fname])

        # Sanity: the demo inputs must really exercise the refactored code.
        sync_client = before["grpc_default"]["generate"][1].get(
            "google/example/library_v1/services/library/client.py", b""
        ).decode()
        async_client = before["grpc_default"]["generate"][1].get(
            "google/example/library_v1/services/library/async_client.py", b""
        ).decode()
        for text, label in ((sync_client, "client.py"), (async_client, "async_client.py")):
            for needle in (
                "if 'request_id' not in request:",
                "if not request.second_request_id:",
                "request.request_id = str(uuid.uuid4())",
                "import uuid",
                "            requests,\n",
                "            request,\n",
            ):
                if needle not in text:
                    problems.append(f"sanity: {needle!r} missing from {label}")
        for name in ("no_method_settings", "empty_method_settings"):
            if before[name]["generate"][0] != "ok":
                continue
            for fname, content in before[name]["generate"][1].items():
                if fname.endswith(("client.py",)) and b"import uuid" in content:
                    problems.append(f"sanity: unexpected `import uuid` in {name}:{fname}")

        if problems:
            print(f"DIFFERENT: {len(problems)} problem(s)")
            for problem in problems:
                print("  " + problem)
            return 1
        print(
            f"IDENTICAL: {len(cases)} API descriptions ({n_ok} generated, {n_failed} rejected "
            f"with identical errors), {n_files} files compared byte for byte, "
            f"sha256 {digest.hexdigest()[:16]}"
        )
        return 0
    finally:
        shutil.rmtree(tmpdir, ignore_errors=True)


if __name__ == "__main__":
    sys.exit(main(sys.argv))
