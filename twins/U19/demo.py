#!/venv/bin/python
"""Equivalence demo for the U19 refactoring (resource path helpers, property C19).

Usage:  /venv/bin/python demo.py <checkout-with-the-change>

The working tree of the checkout (with the uncommitted refactoring) is compared
with a pristine export of the checkout's HEAD (`git archive HEAD`).  Several
API descriptions are generated with both trees - each tree in its own
subprocess, so the two copies of the `gapic` package never mix - and every
output file is compared byte for byte (names and contents).  In addition the
`MessageType` properties the helpers are rendered from and the ordered content
of `Proto.resource_messages` are probed directly for adversarial patterns and
compared as if they were output files.

Exit 0 and a one-line summary when everything is identical, exit 1 and the
list of differing files otherwise.
"""
import hashlib
import os
import pickle
import shutil
import subprocess
import sys
import tempfile

# ---------------------------------------------------------------------------
# Worker: run the generator of ONE tree on all cases.
# ---------------------------------------------------------------------------

PATTERNS = [
    "",
    "*",
    "**",
    "{a}",
    "{a=**}",
    "a",
    "as/{a}",
    "as/{a}/bs/{b}",
    "as/{a}/bs/{b}/cs/{c}/ds/{d}/es/{e}/fs/{f}",
    "as/{a}/bs/{b=**}",
    "as/{a=**}/bs/{b}",
    "as/{a}-{b}/cs/{c}%{d}_{e}",
    "as/{a}~{b}.{c}",
    "as/{a}/singleton",
    "a.b/{x}/c+d/{y}",
    "a(b)[c]/{x}|{y}^$",
    "sp ace/{x}/t\\d/{y}",
    "back\\1/{x}/\\g<1>/{y}",
    "as/{my-var}/bs/{b_2}",
    "as/{from}/bs/{class}",
    "as/{a}/as/{a}",
    "as/{a=*}/bs/{b}",
    "as/{}/bs/{b}",
    "as/{a b}/bs/{b}",
    "{a}{b}",
    "/{a}/",
    "as/{a}/*",
    "été/{x}",
    "as/{{a}}",
    "as/{a=**}{b=**}",
    "as/{0}/bs/{1}",
]


def worker(tree, cases_path, out_path):
    tree = os.path.realpath(tree)
    sys.dont_write_bytecode = True

    # The venv has an editable install of another checkout: the tree under
    # test goes first, and everything else that could provide `gapic` goes.
    def provides_gapic(entry):
        if "__editable__" in entry:
            return True
        if entry in ("", "."):
            return True
        try:
            return os.path.isdir(os.path.join(entry, "gapic"))
        except OSError:
            return False

    sys.path[:] = [tree] + [p for p in sys.path if not provides_gapic(p)]
    sys.meta_path[:] = [
        f
        for f in sys.meta_path
        if "__editable__"
        not in (getattr(f, "__module__", "") + getattr(f, "__name__", "") + type(f).__module__)
    ]
    sys.path_hooks[:] = [
        h for h in sys.path_hooks if "__editable__" not in getattr(h, "__module__", "")
    ]
    sys.path_importer_cache.clear()
    for name in [m for m in sys.modules if m == "gapic" or m.startswith("gapic.")]:
        del sys.modules[name]

    import pypandoc

    def fake_convert_text(text, to, format=None, extra_args=(), **kw):
        # pandoc is not installed; identical stub for both trees.
        return "PANDOC[%s|%s|%s]: %s" % (to, format, ",".join(extra_args), text)

    pypandoc.convert_text = fake_convert_text

    from gapic.generator import Generator
    from gapic.schema import wrappers
    from gapic.schema.api import API
    from gapic.utils import Options
    from google.protobuf import descriptor_pb2

    with open(cases_path, "rb") as fh:
        cases = pickle.load(fh)

    results = {}
    for case in cases:
        fds = [descriptor_pb2.FileDescriptorProto.FromString(b) for b in case["files"]]
        opts = Options.build(case["options"])
        for tdir in opts.templates:
            assert os.path.realpath(tdir).startswith(tree + os.sep), (tdir, tree)
        api = API.build(fds, package=case["package"], opts=opts)
        gen = Generator(opts)
        for sp in gen._env.loader.searchpath:
            assert os.path.realpath(sp).startswith(tree + os.sep), (sp, tree)
        response = gen.get_response(api, opts)
        files = {}
        for out in response.file:
            assert out.name not in files, ("duplicate output", case["name"], out.name)
            files[out.name] = out.content
        assert files, case["name"]

        # Probe: the ordered file-level resource table of every proto and
        # what each service sees.
        probe = []
        for pname, proto in api.all_protos.items():
            probe.append("proto %s" % pname)
            for rtype, msg in proto.resource_messages.items():
                probe.append(
                    "  %r -> %r %r %r %r"
                    % (
                        rtype,
                        msg.resource_path,
                        list(msg.resource_path_args),
                        msg.resource_path_formatted,
                        msg.path_regex_str,
                    )
                )
            probe.append("  type=%s" % type(proto.resource_messages).__name__)
            for sname, service in proto.services.items():
                seen = sorted(
                    (m.resource_type_full_path or "", m.resource_path or "")
                    for m in service.resource_messages
                )
                probe.append("  service %s sees %r" % (sname, seen))
        files["__probe__/resource_tables.txt"] = "\n".join(probe)
        results[case["name"]] = files

    # Probe: the three MessageType properties for adversarial patterns.
    lines = []
    for pattern in PATTERNS:
        msg = wrappers.CommonResource("example.com/Thing", pattern).message_type
        args = msg.resource_path_args
        lines.append(
            "%r: %s %r | %r | %r"
            % (
                pattern,
                type(args).__name__,
                list(args),
                msg.resource_path_formatted,
                msg.path_regex_str,
            )
        )
    # A resource without any pattern (resource_path is None).
    bare = descriptor_pb2.DescriptorProto(name="Bare")
    msg = wrappers.MessageType(message_pb=bare, fields={}, nested_enums={}, nested_messages={})
    lines.append(
        "None: %r %r | %r"
        % (msg.resource_path, list(msg.resource_path_args), msg.resource_path_formatted)
    )
    results["__patterns__"] = {"__probe__/patterns.txt": "\n".join(lines)}

    # Every gapic module and the templates must come from the tree under test.
    checked = 0
    for name, mod in list(sys.modules.items()):
        if name != "gapic" and not name.startswith("gapic."):
            continue
        origin = getattr(mod, "__file__", None)
        if origin:
            assert os.path.realpath(origin).startswith(tree + os.sep), (name, origin)
        else:
            for p in list(getattr(mod, "__path__", [])):
                assert os.path.realpath(p).startswith(tree + os.sep), (name, p)
        checked += 1
    assert checked > 10, checked

    with open(out_path, "wb") as fh:
        pickle.dump(results, fh)


# ---------------------------------------------------------------------------
# Parent: the API descriptions.
# ---------------------------------------------------------------------------


def build_cases():
    from google.api import annotations_pb2, client_pb2, field_behavior_pb2, resource_pb2
    from google.longrunning import operations_pb2
    from google.protobuf import descriptor_pb2 as d
    from google.protobuf import empty_pb2

    F = d.FieldDescriptorProto

    def dependency_closure(*modules):
        seen = {}

        def visit(fd):
            if fd.name in seen:
                return
            for dep in fd.dependencies:
                visit(dep)
            proto = d.FileDescriptorProto()
            fd.CopyToProto(proto)
            seen[fd.name] = proto

        for module in modules:
            visit(module.DESCRIPTOR)
        return list(seen.values())

    common = dependency_closure(
        annotations_pb2, client_pb2, field_behavior_pb2, resource_pb2, operations_pb2, empty_pb2
    )
    common_names = [fd.name for fd in common]

    def field(name, number, type_=F.TYPE_STRING, type_name=None, repeated=False,
              ref=None, child_ref=None, oneof=None, required=False):
        f = F(name=name, number=number, type=type_,
              label=F.LABEL_REPEATED if repeated else F.LABEL_OPTIONAL)
        if type_name:
            f.type_name = type_name
            if type_ == F.TYPE_STRING:
                f.type = F.TYPE_MESSAGE
        if ref is not None:
            f.options.Extensions[resource_pb2.resource_reference].type = ref
        if child_ref is not None:
            f.options.Extensions[resource_pb2.resource_reference].child_type = child_ref
        if required:
            f.options.Extensions[field_behavior_pb2.field_behavior].append(
                field_behavior_pb2.REQUIRED)
        if oneof is not None:
            f.oneof_index = oneof
        return f

    def message(name, fields=(), resource=None, patterns=(), nested=(), oneofs=()):
        m = d.DescriptorProto(name=name)
        m.field.extend(fields)
        m.nested_type.extend(nested)
        for o in oneofs:
            m.oneof_decl.add(name=o)
        if resource is not None:
            r = m.options.Extensions[resource_pb2.resource]
            r.type = resource
            r.pattern.extend(patterns)
        return m

    def map_entry(name, value_type_name):
        e = d.DescriptorProto(name=name)
        e.field.append(F(name="key", number=1, type=F.TYPE_STRING, label=F.LABEL_OPTIONAL))
        e.field.append(F(name="value", number=2, type=F.TYPE_MESSAGE,
                         type_name=value_type_name, label=F.LABEL_OPTIONAL))
        e.options.map_entry = True
        return e

    def method(name, inp, out, http=None, signature=None, client_streaming=False,
               server_streaming=False, lro=None):
        m = d.MethodDescriptorProto(name=name, input_type=inp, output_type=out,
                                    client_streaming=client_streaming,
                                    server_streaming=server_streaming)
        if http:
            verb, path, body = http
            rule = m.options.Extensions[annotations_pb2.http]
            setattr(rule, verb, path)
            if body:
                rule.body = body
        if signature is not None:
            m.options.Extensions[client_pb2.method_signature].append(signature)
        if lro:
            info = m.options.Extensions[operations_pb2.operation_info]
            info.response_type, info.metadata_type = lro
        return m

    def service(name, host, methods):
        s = d.ServiceDescriptorProto(name=name)
        s.method.extend(methods)
        s.options.Extensions[client_pb2.default_host] = host
        return s

    def file_(name, package, messages=(), services=(), deps=(), definitions=()):
        fd = d.FileDescriptorProto(name=name, package=package, syntax="proto3")
        fd.dependency.extend(list(deps) + common_names)
        fd.message_type.extend(messages)
        fd.service.extend(services)
        for rtype, patterns in definitions:
            rd = fd.options.Extensions[resource_pb2.resource_definition].add()
            rd.type = rtype
            rd.pattern.extend(patterns)
        # Minimal source info so that docstrings are exercised a little.
        return fd

    cases = []

    def add(name, package, files, options=""):
        cases.append({
            "name": name,
            "package": package,
            "options": options,
            "files": [fd.SerializeToString() for fd in common + list(files)],
        })

    # ---- 1. library: message resources, file-level definitions, references,
    #         paging, maps, oneofs, REST + gRPC ------------------------------
    P = ".google.example.library.v1."
    lib = file_(
        "google/example/library/v1/library.proto",
        "google.example.library.v1",
        messages=[
            message("Shelf", [field("name", 1), field("theme", 2)],
                    resource="library.googleapis.com/Shelf", patterns=["shelves/{shelf}"]),
            message("Book",
                    [field("name", 1), field("author", 2, oneof=0), field("isbn", 3, oneof=0),
                     field("tags", 4, type_name=P + "Book.TagsEntry", repeated=True),
                     field("publisher", 5, ref="library.googleapis.com/Publisher")],
                    resource="library.googleapis.com/Book",
                    patterns=["shelves/{shelf}/books/{book}", "publishers/{publisher}/books/{book}"],
                    nested=[map_entry("TagsEntry", P + "Shelf")], oneofs=["id"]),
            message("GetBookRequest",
                    [field("name", 1, ref="library.googleapis.com/Book", required=True)]),
            message("ListBooksRequest",
                    [field("parent", 1, child_ref="library.googleapis.com/Book"),
                     field("page_size", 2, F.TYPE_INT32), field("page_token", 3),
                     field("project", 4, ref="cloudresourcemanager.googleapis.com/Project"),
                     field("anything", 5, ref="*"),
                     field("unknown", 6, ref="library.googleapis.com/Nope")]),
            message("ListBooksResponse",
                    [field("books", 1, type_name=P + "Book", repeated=True),
                     field("next_page_token", 2)]),
            message("CreateBookRequest",
                    [field("parent", 1, ref="library.googleapis.com/Shelf"),
                     field("book", 2, type_name=P + "Book"),
                     field("archive", 3, ref="library.googleapis.com/Archive")]),
            message("DeleteBookRequest", [field("name", 1, ref="library.googleapis.com/Book")]),
        ],
        services=[service("Library", "library.googleapis.com", [
            method("GetBook", P + "GetBookRequest", P + "Book",
                   http=("get", "/v1/{name=shelves/*/books/*}", None), signature="name"),
            method("ListBooks", P + "ListBooksRequest", P + "ListBooksResponse",
                   http=("get", "/v1/{parent=shelves/*}/books", None), signature="parent"),
            method("CreateBook", P + "CreateBookRequest", P + "Book",
                   http=("post", "/v1/{parent=shelves/*}/books", "book"), signature="parent,book"),
            method("DeleteBook", P + "DeleteBookRequest", ".google.protobuf.Empty",
                   http=("delete", "/v1/{name=shelves/*/books/*}", None), signature="name"),
        ])],
        definitions=[
            ("library.googleapis.com/Publisher", ["publishers/{publisher}"]),
            # Same type as a message resource: the message takes the entry over.
            ("library.googleapis.com/Shelf", ["bookcases/{bookcase}/shelves/{shelf}"]),
            ("library.googleapis.com/Archive", ["archives/{archive=**}", "ignored/{second}"]),
        ],
    )
    add("library", "google.example.library.v1", [lib])

    # ---- 2. exotic patterns, two services, reserved words -------------------
    P = ".acme.paths.v1beta1."
    exotic_resources = [
        ("Mixed", "paths.acme.com/MixedSeparator", ["as/{a}-{b}/cs/{c}~{d}_{e}.{f}"]),
        ("Metric", "paths.acme.com/MetricDescriptor",
         ["projects/{project}/metricDescriptors/{metric_descriptor=**}"]),
        ("Profile", "paths.acme.com/userProfile", ["users/{user}/profile"]),
        ("Wild", "paths.acme.com/Wild", ["*"]),
        ("Reserved", "paths.acme.com/Reserved", ["froms/{from}/classes/{class}/x/{my-var}"]),
        ("Dotted", "paths.acme.com/deep/HTTPRoute", ["a.b+c/{x}/(d)/{y}"]),
        ("SameA", "one.acme.com/Twin", ["ones/{one}"]),
        ("SameB", "two.acme.com/Twin", ["twos/{two}"]),
        ("NoPattern", "paths.acme.com/NoPattern", []),
        ("Six", "paths.acme.com/Six", ["a/{a}/b/{b}/c/{c}/d/{d}/e/{e}/f/{f}"]),
        ("NoVars", "paths.acme.com/Singleton", ["settings"]),
    ]
    msgs = [message(n, [field("name", 1)], resource=t, patterns=p) for n, t, p in exotic_resources]
    msgs.append(message(
        "ProbeRequest",
        [field(n.lower(), i + 1, type_name=P + n) for i, (n, _, _) in enumerate(exotic_resources)]))
    msgs.append(message("ProbeResponse", [field("wild", 1, ref="paths.acme.com/Wild"),
                                          field("loose", 2, ref="paths.acme.com/Loose")]))
    msgs.append(message("PingRequest", [field("metric", 1, ref="paths.acme.com/MetricDescriptor"),
                                        field("folder", 2,
                                              ref="cloudresourcemanager.googleapis.com/Folder")]))
    exotic = file_(
        "acme/paths/v1beta1/paths.proto", "acme.paths.v1beta1", messages=msgs,
        services=[
            service("Prober", "paths.acme.com", [
                method("Probe", P + "ProbeRequest", P + "ProbeResponse",
                       http=("post", "/v1beta1/probe", "*")),
            ]),
            service("Pinger", "paths.acme.com", [
                method("Ping", P + "PingRequest", ".google.protobuf.Empty",
                       http=("post", "/v1beta1/ping", "*"), signature="metric"),
            ]),
        ],
        definitions=[("paths.acme.com/Loose", ["loose/{loose}~{end}"])],
    )
    add("exotic", "acme.paths.v1beta1", [exotic], "rest-numeric-enums")

    # ---- 3. LRO, streaming, nested resources, maps --------------------------
    P = ".google.cloud.widgets.v2."
    widgets_msgs = [
        message("Part", [field("name", 1)], resource="widgets.googleapis.com/Part",
                patterns=["projects/{project}/widgets/{widget}/parts/{part}"]),
        message("Widget",
                [field("name", 1), field("main", 2, type_name=P + "Part"),
                 field("spares", 3, type_name=P + "Widget.SparesEntry", repeated=True),
                 field("boxes", 4, type_name=P + "Widget.Box", repeated=True)],
                resource="widgets.googleapis.com/Widget",
                patterns=["projects/{project}/widgets/{widget}"],
                nested=[map_entry("SparesEntry", P + "Part"),
                        message("Box", [field("name", 1)],
                                resource="widgets.googleapis.com/Box",
                                patterns=["projects/{project}/boxes/{box}"])]),
        message("BuildWidgetRequest",
                [field("parent", 1, child_ref="widgets.googleapis.com/Widget"),
                 field("widget_id", 2)]),
        message("BuildMetadata", [field("blueprint", 1, ref="widgets.googleapis.com/Blueprint")]),
        message("WatchRequest", [field("name", 1, ref="widgets.googleapis.com/Widget")]),
        message("Event", [field("part", 1, type_name=P + "Part"), field("note", 2)]),
        message("Chunk", [field("data", 1, F.TYPE_BYTES)]),
        message("Summary", [field("location", 1, ref="locations.googleapis.com/Location")]),
    ]
    widgets = file_(
        "google/cloud/widgets/v2/widgets.proto", "google.cloud.widgets.v2",
        messages=widgets_msgs,
        services=[service("WidgetFactory", "widgets.googleapis.com", [
            method("BuildWidget", P + "BuildWidgetRequest", ".google.longrunning.Operation",
                   http=("post", "/v2/{parent=projects/*}/widgets:build", "*"),
                   signature="parent,widget_id", lro=("Widget", "BuildMetadata")),
            method("Watch", P + "WatchRequest", P + "Event",
                   http=("get", "/v2/{name=projects/*/widgets/*}:watch", None),
                   server_streaming=True),
            method("Upload", P + "Chunk", P + "Summary", client_streaming=True),
            method("Chat", P + "Event", P + "Event", client_streaming=True,
                   server_streaming=True),
        ])],
        deps=[],
        definitions=[("widgets.googleapis.com/Blueprint", ["blueprints/{blueprint}"])],
    )
    add("widgets", "google.cloud.widgets.v2", [widgets])
    add("widgets-rest", "google.cloud.widgets.v2", [widgets], "transport=rest")

    # ---- 4. nothing to do: no resources at all, no snippets -----------------
    P = ".foo.bar.v1."
    plain = file_(
        "foo/bar/v1/plain.proto", "foo.bar.v1",
        messages=[message("EchoRequest", [field("text", 1)]),
                  message("EchoResponse", [field("text", 1)])],
        services=[service("Echo", "bar.foo.example", [
            method("Echo", P + "EchoRequest", P + "EchoResponse",
                   http=("post", "/v1/echo", "*"), signature="text"),
        ])],
    )
    add("plain", "foo.bar.v1", [plain], "autogen-snippets=false")

    # ---- 5. several files, a sub-package and an outside dependency ----------
    outside = file_(
        "other/common/things.proto", "other.common",
        messages=[message("Thing", [field("name", 1)], resource="common.other.com/Thing",
                          patterns=["things/{thing}"])],
        definitions=[("common.other.com/Bucket", ["buckets/{bucket}/objects/{object=**}"])],
    )
    P = ".google.example.multi.v1."
    res = file_(
        "google/example/multi/v1/resources.proto", "google.example.multi.v1",
        messages=[
            message("Topic", [field("name", 1), field("thing", 2, type_name=".other.common.Thing")],
                    resource="multi.googleapis.com/Topic",
                    patterns=["projects/{project}/topics/{topic}"]),
            message("Snapshot", [field("name", 1)], resource="multi.googleapis.com/Snapshot",
                    patterns=["projects/{project}/snapshots/{snapshot}"]),
        ],
        deps=["other/common/things.proto"],
        definitions=[("multi.googleapis.com/Schema", ["projects/{project}/schemas/{schema}"])],
    )
    S = ".google.example.multi.v1.admin."
    admin = file_(
        "google/example/multi/v1/admin/admin.proto", "google.example.multi.v1.admin",
        messages=[
            message("SeekRequest",
                    [field("topic", 1, ref="multi.googleapis.com/Topic"),
                     field("snapshot", 2, ref="multi.googleapis.com/Snapshot"),
                     field("schema", 3, ref="multi.googleapis.com/Schema"),
                     field("bucket", 4, ref="common.other.com/Bucket"),
                     field("billing", 5, ref="cloudbilling.googleapis.com/BillingAccount")]),
            message("SeekResponse", [field("topic", 1, type_name=P + "Topic")]),
        ],
        services=[service("Admin", "multi.googleapis.com", [
            method("Seek", S + "SeekRequest", S + "SeekResponse",
                   http=("post", "/v1/{topic=projects/*/topics/*}:seek", "*"),
                   signature="topic,snapshot"),
        ])],
        deps=["google/example/multi/v1/resources.proto", "other/common/things.proto"],
    )
    P2 = P
    pub = file_(
        "google/example/multi/v1/publisher.proto", "google.example.multi.v1",
        messages=[message("GetTopicRequest",
                          [field("topic", 1, ref="multi.googleapis.com/Topic")])],
        services=[service("Publisher", "multi.googleapis.com", [
            method("GetTopic", P2 + "GetTopicRequest", P2 + "Topic",
                   http=("get", "/v1/{topic=projects/*/topics/*}", None), signature="topic"),
        ])],
        deps=["google/example/multi/v1/resources.proto"],
    )
    # (snippet generation does not support services in sub-packages)
    add("multi", "google.example.multi.v1", [outside, res, admin, pub], "autogen-snippets=false")

    return cases


# ---------------------------------------------------------------------------
# Parent: orchestration.
# ---------------------------------------------------------------------------


def main(argv):
    if len(argv) == 5 and argv[1] == "--worker":
        worker(argv[2], argv[3], argv[4])
        return 0
    if len(argv) != 2:
        print(__doc__)
        return 2

    checkout = os.path.realpath(argv[1])
    tmp = tempfile.mkdtemp(prefix="u19-demo-")
    try:
        pristine = os.path.join(tmp, "pristine")
        os.mkdir(pristine)
        archive = subprocess.run(["git", "-C", checkout, "archive", "HEAD"],
                                 check=True, stdout=subprocess.PIPE)
        subprocess.run(["tar", "-x", "-C", pristine], input=archive.stdout, check=True)

        cases_path = os.path.join(tmp, "cases.pickle")
        with open(cases_path, "wb") as fh:
            pickle.dump(build_cases(), fh)

        outputs = {}
        env = dict(os.environ, PYTHONDONTWRITEBYTECODE="1", PYTHONHASHSEED="0")
        env.pop("PYTHONPATH", None)
        for label, tree in (("pristine", pristine), ("changed", checkout)):
            out_path = os.path.join(tmp, label + ".pickle")
            proc = subprocess.run(
                [sys.executable, os.path.abspath(__file__), "--worker", tree, cases_path, out_path],
                cwd=tmp, env=env, stdout=subprocess.PIPE, stderr=subprocess.STDOUT, text=True)
            if proc.returncode != 0:
                print("worker for the %s tree failed:\n%s" % (label, proc.stdout))
                return 1
            with open(out_path, "rb") as fh:
                outputs[label] = pickle.load(fh)

        before, after = outputs["pristine"], outputs["changed"]
        problems = []
        total = 0
        digest = hashlib.sha256()
        for case in sorted(set(before) | set(after)):
            a, b = before.get(case, {}), after.get(case, {})
            for name in sorted(set(a) | set(b)):
                total += 1
                if name not in a:
                    problems.append("%s: %s only with the change" % (case, name))
                elif name not in b:
                    problems.append("%s: %s only in the pristine tree" % (case, name))
                elif a[name] != b[name]:
                    problems.append("%s: %s differs" % (case, name))
                else:
                    digest.update(name.encode() + b"\0" + a[name].encode() + b"\0")
        if problems:
            print("DIFFERENT: %d of %d files" % (len(problems), total))
            for p in problems:
                print("  " + p)
            return 1
        helpers = sum(
            content.count("_path(") for files in after.values() for name, content in files.items()
            if name.endswith("/client.py"))
        print("IDENTICAL: %d cases, %d files (incl. probes), %d path-helper defs/uses in "
              "client.py files, sha256 %s"
              % (len(after), total, helpers, digest.hexdigest()[:16]))
        return 0
    finally:
        shutil.rmtree(tmp, ignore_errors=True)


if __name__ == "__main__":
    sys.exit(main(sys.argv))
