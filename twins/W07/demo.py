#!/usr/bin/env python
"""Equivalence demo for the W07 refactoring (property C07, pagination).

Usage:  /venv/bin/python demo.py <path-to-a-checkout-with-the-change>

The checkout's HEAD is exported to a temp dir (the pristine tree); the
checkout's working tree is the changed tree.  Several API descriptions are
generated with both trees (one subprocess per tree) and every output file is
compared byte for byte.
"""
import hashlib
import os
import pickle
import shutil
import subprocess
import sys
import tempfile


# --------------------------------------------------------------------------
# Worker: runs inside a subprocess, with exactly one `gapic` tree importable.
# --------------------------------------------------------------------------
def worker(tree, cases_path, out_path):
    tree = os.path.realpath(tree)

    # Drop the editable-install finder of /repo and every path entry that
    # could provide another `gapic` package; put the tree under test first.
    sys.meta_path[:] = [
        f for f in sys.meta_path
        if "editable" not in (getattr(f, "__module__", "") or "").lower()
        and "editable" not in getattr(f, "__name__", type(f).__name__).lower()
    ]
    keep = []
    for entry in sys.path:
        real = os.path.realpath(entry or os.getcwd())
        if real == tree:
            continue
        if os.path.isdir(os.path.join(real, "gapic")):
            continue
        keep.append(entry)
    sys.path[:] = [tree] + keep
    for name in [m for m in sys.modules if m == "gapic" or m.startswith("gapic.")]:
        del sys.modules[name]
    sys.path_importer_cache.clear()

    # pandoc is not installed: identical deterministic stub for both runs.
    import pypandoc

    def fake_convert_text(source, to, format=None, extra_args=(), **kwargs):
        return "\n".join(line.rstrip() for line in str(source).splitlines())

    pypandoc.convert_text = fake_convert_text

    from google.protobuf import descriptor_pb2
    from gapic.schema import api as gapic_api
    from gapic.generator import generator as gapic_generator
    from gapic.utils import Options

    with open(cases_path, "rb") as fh:
        cases = pickle.load(fh)

    results = {}
    for case in cases:
        fds = [descriptor_pb2.FileDescriptorProto.FromString(b) for b in case["fds"]]
        try:
            opts = Options.build(case["opts"])
            for tdir in opts.templates:
                assert os.path.realpath(tdir).startswith(tree + os.sep), tdir
            schema = gapic_api.API.build(fds, package=case["package"], opts=opts)
            response = gapic_generator.Generator(opts).get_response(schema, opts)
            files = {f.name: f.content for f in response.file}
        except Exception as exc:  # compared as well: both trees must agree
            files = {"__EXCEPTION__": f"{type(exc).__name__}: {exc}"}
        results[case["name"]] = files

    loaded = [m for n, m in sys.modules.items() if n == "gapic" or n.startswith("gapic.")]
    assert loaded
    for mod in loaded:
        origin = os.path.realpath(getattr(mod, "__file__", None) or list(mod.__path__)[0])
        assert origin.startswith(tree + os.sep), (mod.__name__, origin)

    with open(out_path, "wb") as fh:
        pickle.dump(results, fh)


# --------------------------------------------------------------------------
# API descriptions.
# --------------------------------------------------------------------------
def build_cases():
    from google.api import annotations_pb2, client_pb2, field_behavior_pb2  # noqa: F401
    from google.api import http_pb2, launch_stage_pb2, resource_pb2  # noqa: F401
    from google.cloud import extended_operations_pb2 as ex_ops_pb2
    from google.longrunning import operations_pb2
    from google.protobuf import any_pb2, duration_pb2, empty_pb2, wrappers_pb2
    from google.protobuf import descriptor_pb2 as d
    from google.rpc import status_pb2

    F = d.FieldDescriptorProto

    def std(*modules):
        """FileDescriptorProtos of the given pb2 modules + transitive deps."""
        seen, order = set(), []

        def visit(fd):
            if fd.name in seen:
                return
            seen.add(fd.name)
            for dep in fd.dependencies:
                visit(dep)
            order.append(d.FileDescriptorProto.FromString(fd.serialized_pb))

        for module in modules:
            visit(module.DESCRIPTOR)
        return order

    def fld(name, number, kind, type_name=None, repeated=False, opt3=False,
            oneof=None, **ext):
        f = F(name=name, number=number, type=kind,
              label=F.LABEL_REPEATED if repeated else F.LABEL_OPTIONAL)
        if type_name:
            f.type_name = type_name
        if opt3:
            f.proto3_optional = True
        if oneof is not None:
            f.oneof_index = oneof
        for key, value in ext.items():
            if key == "required":
                f.options.Extensions[field_behavior_pb2.field_behavior].append(
                    field_behavior_pb2.REQUIRED)
            elif key == "op_field":
                f.options.Extensions[ex_ops_pb2.operation_field] = value
            elif key == "op_request_field":
                f.options.Extensions[ex_ops_pb2.operation_request_field] = value
            elif key == "op_response_field":
                f.options.Extensions[ex_ops_pb2.operation_response_field] = value
        return f

    STR, I32, I64, BOOL, MSG, ENUM, U32, DBL = (
        F.TYPE_STRING, F.TYPE_INT32, F.TYPE_INT64, F.TYPE_BOOL, F.TYPE_MESSAGE,
        F.TYPE_ENUM, F.TYPE_UINT32, F.TYPE_DOUBLE)

    def msg(name, fields, nested=(), enums=(), oneofs=()):
        m = d.DescriptorProto(name=name)
        m.field.extend(fields)
        m.nested_type.extend(nested)
        m.enum_type.extend(enums)
        for o in oneofs:
            m.oneof_decl.add(name=o)
        return m

    def map_entry(name, value_kind, value_type_name=None):
        m = msg(name, [fld("key", 1, STR), fld("value", 2, value_kind, value_type_name)])
        m.options.map_entry = True
        return m

    def enum(name, *values):
        e = d.EnumDescriptorProto(name=name)
        for i, v in enumerate(values):
            e.value.add(name=v, number=i)
        return e

    def rpc(name, inp, out, http=None, body=None, sigs=(), cs=False, ss=False,
            lro=None, deprecated=False, op_service=None, polling=False):
        m = d.MethodDescriptorProto(name=name, input_type=inp, output_type=out,
                                    client_streaming=cs, server_streaming=ss)
        if http:
            verb, path = http
            rule = m.options.Extensions[annotations_pb2.http]
            setattr(rule, verb, path)
            if body:
                rule.body = body
        for s in sigs:
            m.options.Extensions[client_pb2.method_signature].append(s)
        if lro:
            info = m.options.Extensions[operations_pb2.operation_info]
            info.response_type, info.metadata_type = lro
        if deprecated:
            m.options.deprecated = True
        if op_service:
            m.options.Extensions[ex_ops_pb2.operation_service] = op_service
        if polling:
            m.options.Extensions[ex_ops_pb2.operation_polling_method] = True
        return m

    def svc(name, host, methods, scopes=None):
        s = d.ServiceDescriptorProto(name=name)
        s.method.extend(methods)
        s.options.Extensions[client_pb2.default_host] = host
        if scopes:
            s.options.Extensions[client_pb2.oauth_scopes] = scopes
        return s

    def filep(name, package, deps, messages=(), services=(), enums=()):
        f = d.FileDescriptorProto(name=name, package=package, syntax="proto3")
        f.dependency.extend(deps)
        f.message_type.extend(messages)
        f.service.extend(services)
        f.enum_type.extend(enums)
        return f

    ANNOT = ["google/api/annotations.proto", "google/api/client.proto",
             "google/api/field_behavior.proto"]

    # ---- Case family 1: a library API with every request/response shape ----
    def library(pkg, path_prefix):
        P = "." + pkg
        common = filep(
            f"{path_prefix}/common.proto", pkg, [],
            messages=[
                msg("Book", [fld("name", 1, STR), fld("class", 2, STR),
                             fld("pages", 3, I32)]),
                msg("Shelf", [fld("name", 1, STR), fld("theme", 2, STR)]),
            ],
            enums=[enum("Genre", "GENRE_UNSPECIFIED", "FICTION", "SCIENCE")],
        )
        page_req = lambda name, extra=(): msg(name, [  # noqa: E731
            fld("parent", 1, STR, required=True), fld("page_size", 2, I32),
            fld("page_token", 3, STR), fld("filter", 4, STR)] + list(extra))
        messages = [
            # plain AIP-4233 shape, items from another file
            page_req("ListBooksRequest"),
            msg("ListBooksResponse", [
                fld("books", 1, MSG, P + ".Book", repeated=True),
                fld("next_page_token", 2, STR),
                fld("unreachable", 3, STR, repeated=True),
                fld("total_size", 4, I32)]),
            # repeated scalar items; reserved-word request field
            page_req("ListTitlesRequest", [fld("from", 5, STR), fld("in", 6, BOOL)]),
            msg("ListTitlesResponse", [
                fld("next_page_token", 1, STR),
                fld("titles", 2, STR, repeated=True)]),
            # map items (message values)
            page_req("ListShelvesRequest"),
            msg("ListShelvesResponse", [
                fld("next_page_token", 1, STR),
                fld("shelves", 2, MSG, P + ".ListShelvesResponse.ShelvesEntry",
                    repeated=True),
                fld("books", 3, MSG, P + ".Book", repeated=True)],
                nested=[map_entry("ShelvesEntry", MSG, P + ".Shelf")]),
            # map items (scalar values)
            page_req("ListCountsRequest"),
            msg("ListCountsResponse", [
                fld("counts", 1, MSG, P + ".ListCountsResponse.CountsEntry",
                    repeated=True),
                fld("next_page_token", 2, STR)],
                nested=[map_entry("CountsEntry", I64)]),
            # legacy max_results with a wrapper type
            msg("ListLegacyRequest", [
                fld("max_results", 1, MSG, ".google.protobuf.UInt32Value"),
                fld("page_token", 2, STR)]),
            msg("ListLegacyResponse", [
                fld("next_page_token", 1, STR),
                fld("items", 2, MSG, P + ".Book", repeated=True)]),
            # legacy max_results of plain int together with page_size string
            msg("ListBothRequest", [
                fld("page_size", 1, STR), fld("max_results", 2, I32),
                fld("page_token", 3, STR)]),
            msg("ListBothResponse", [
                fld("genres_seen", 1, DBL, repeated=True),
                fld("next_page_token", 2, STR)]),
            # NOT paged: wrong wrapper, page_token int, no repeated, no size
            msg("ListBadWrapperRequest", [
                fld("max_results", 1, MSG, ".google.protobuf.Int64Value"),
                fld("page_token", 2, STR)]),
            msg("ListBadTokenRequest", [
                fld("page_size", 1, I32), fld("page_token", 2, I32)]),
            msg("ListNoSizeRequest", [fld("page_token", 2, STR)]),
            msg("ListStringSizeRequest", [
                fld("page_size", 1, STR), fld("page_token", 2, STR)]),
            msg("NoRepeatedResponse", [
                fld("next_page_token", 1, STR), fld("book", 2, MSG, P + ".Book")]),
            msg("NoTokenResponse", [
                fld("books", 1, MSG, P + ".Book", repeated=True)]),
            msg("BytesTokenResponse", [
                fld("books", 1, MSG, P + ".Book", repeated=True),
                fld("next_page_token", 2, F.TYPE_BYTES)]),
            # non-list methods
            msg("GetBookRequest", [fld("name", 1, STR, required=True),
                                   fld("read_mask", 2, STR, opt3=True)],
                oneofs=["_read_mask"]),
            msg("WriteBookRequest", [fld("book", 1, MSG, P + ".Book"),
                                     fld("tags", 2, STR, repeated=True)]),
            msg("WriteBookMetadata", [fld("progress", 1, I32)]),
        ]
        # fix proto3 optional oneof index
        for m in messages:
            if m.name == "GetBookRequest":
                m.field[1].oneof_index = 0
        R = lambda n: f"{P}.{n}"  # noqa: E731
        library_svc = svc("Library", "library.example.com", [
            rpc("GetBook", R("GetBookRequest"), R("Book"),
                http=("get", "/v1/{name=shelves/*/books/*}"), sigs=["name"]),
            rpc("ListBooks", R("ListBooksRequest"), R("ListBooksResponse"),
                http=("get", "/v1/{parent=shelves/*}/books"), sigs=["parent"]),
            rpc("ListTitles", R("ListTitlesRequest"), R("ListTitlesResponse"),
                http=("post", "/v1/{parent=shelves/*}/titles:list"), body="*",
                sigs=["parent,from", "parent"]),
            rpc("ListShelves", R("ListShelvesRequest"), R("ListShelvesResponse"),
                http=("get", "/v1/{parent=rooms/*}/shelves")),
            rpc("ListCounts", R("ListCountsRequest"), R("ListCountsResponse"),
                http=("get", "/v1/{parent=rooms/*}/counts"), deprecated=True),
            rpc("ListLegacy", R("ListLegacyRequest"), R("ListLegacyResponse"),
                http=("get", "/v1/legacy")),
            rpc("ListBoth", R("ListBothRequest"), R("ListBothResponse"),
                http=("get", "/v1/both")),
            rpc("ListBadWrapper", R("ListBadWrapperRequest"), R("ListLegacyResponse"),
                http=("get", "/v1/badwrapper")),
            rpc("ListBadToken", R("ListBadTokenRequest"), R("ListBooksResponse"),
                http=("get", "/v1/badtoken")),
            rpc("ListNoSize", R("ListNoSizeRequest"), R("ListBooksResponse"),
                http=("get", "/v1/nosize")),
            rpc("ListStringSize", R("ListStringSizeRequest"), R("ListBooksResponse"),
                http=("get", "/v1/stringsize")),
            rpc("ListNoRepeated", R("ListBooksRequest"), R("NoRepeatedResponse"),
                http=("get", "/v1/{parent=shelves/*}/norepeated")),
            rpc("ListNoToken", R("ListBooksRequest"), R("NoTokenResponse"),
                http=("get", "/v1/{parent=shelves/*}/notoken")),
            rpc("ListBytesToken", R("ListBooksRequest"), R("BytesTokenResponse"),
                http=("get", "/v1/{parent=shelves/*}/bytestoken")),
            rpc("WriteBook", R("WriteBookRequest"), ".google.longrunning.Operation",
                http=("post", "/v1/books:write"), body="*",
                lro=("Book", "WriteBookMetadata"), sigs=["book,tags"]),
            rpc("DeleteBook", R("GetBookRequest"), ".google.protobuf.Empty",
                http=("delete", "/v1/{name=shelves/*/books/*}"), sigs=["name"]),
            rpc("StreamBooks", R("ListBooksRequest"), R("ListBooksResponse"), ss=True,
                http=("get", "/v1/{parent=shelves/*}/books:stream")),
            rpc("UploadBooks", R("WriteBookRequest"), R("Book"), cs=True),
            rpc("ChatBooks", R("ListBooksRequest"), R("ListBooksResponse"),
                cs=True, ss=True),
        ], scopes="https://www.googleapis.com/auth/cloud-platform")
        # A second service whose only paged method is the LAST one, and a third
        # without any paged method (pagers.py must then be empty).
        archive_svc = svc("Archive", "archive.example.com", [
            rpc("GetShelf", R("GetBookRequest"), R("Shelf"),
                http=("get", "/v1/{name=shelves/*}")),
            rpc("ListArchivedBooks", R("ListBooksRequest"), R("ListBooksResponse"),
                http=("get", "/v1/{parent=shelves/*}/archived")),
        ])
        plain_svc = svc("Catalog", "catalog.example.com", [
            rpc("LookupBook", R("GetBookRequest"), R("Book"),
                http=("get", "/v1/{name=catalog/*}")),
        ])
        main = filep(
            f"{path_prefix}/library.proto", pkg,
            ANNOT + [f"{path_prefix}/common.proto",
                     "google/protobuf/wrappers.proto", "google/protobuf/empty.proto",
                     "google/longrunning/operations.proto"],
            messages=messages, services=[library_svc, archive_svc, plain_svc])
        return [common, main]

    base = std(annotations_pb2, client_pb2, field_behavior_pb2, resource_pb2,
               wrappers_pb2, empty_pb2, operations_pb2, ex_ops_pb2)

    lib = library("example.library.v1", "example/library/v1")

    # ---- Case family 2: sub-package (%sub) and items from another package ----
    def subpackaged():
        shared = filep(
            "acme/shared/types.proto", "acme.shared", [],
            messages=[msg("Item", [fld("id", 1, STR)])],
            enums=[enum("Color", "COLOR_UNSPECIFIED", "RED")])
        top = filep(
            "acme/store/v2/top.proto", "acme.store.v2", ANNOT,
            messages=[msg("PingRequest", [fld("payload", 1, STR)]),
                      msg("PingResponse", [fld("payload", 1, STR)])],
            services=[svc("Pinger", "store.example.com", [
                rpc("Ping", ".acme.store.v2.PingRequest", ".acme.store.v2.PingResponse",
                    http=("post", "/v2/ping"), body="*")])])
        P = ".acme.store.v2.inventory"
        sub = filep(
            "acme/store/v2/inventory/inventory.proto", "acme.store.v2.inventory",
            ANNOT + ["acme/shared/types.proto"],
            messages=[
                msg("ListItemsRequest", [
                    fld("page_token", 1, STR), fld("page_size", 2, I32),
                    fld("class", 3, STR)]),
                msg("ListItemsResponse", [
                    fld("next_page_token", 1, STR),
                    fld("items", 2, MSG, ".acme.shared.Item", repeated=True)]),
                msg("ListLocalRequest", [
                    fld("page_token", 1, STR),
                    fld("max_results", 2, MSG, ".google.protobuf.Int32Value")]),
                msg("Local", [fld("id", 1, STR)]),
                msg("ListLocalResponse", [
                    fld("locals", 1, MSG, P + ".Local", repeated=True),
                    fld("next_page_token", 2, STR)]),
            ],
            services=[svc("Inventory", "store.example.com", [
                rpc("ListItems", P + ".ListItemsRequest", P + ".ListItemsResponse",
                    http=("get", "/v2/items"), sigs=["class"]),
                rpc("ListLocal", P + ".ListLocalRequest", P + ".ListLocalResponse",
                    http=("get", "/v2/locals")),
            ])])
        sub.dependency.append("google/protobuf/wrappers.proto")
        return [shared, top, sub]

    # ---- Case family 3: compute-like extended operations, REST only ----
    def compute():
        P = ".acme.compute.v1"
        OM = ex_ops_pb2.OperationResponseMapping
        messages = [
            msg("Operation", [
                fld("name", 1, STR, op_field=OM.NAME),
                fld("status", 2, ENUM, P + ".Operation.Status", op_field=OM.STATUS),
                fld("http_error_status_code", 3, I32, op_field=OM.ERROR_CODE),
                fld("http_error_message", 4, STR, op_field=OM.ERROR_MESSAGE),
                fld("zone", 5, STR)],
                enums=[enum("Status", "UNDEFINED_STATUS", "DONE", "PENDING")]),
            msg("GetZoneOperationRequest", [
                fld("operation", 1, STR, required=True, op_response_field="name"),
                fld("project", 2, STR, required=True),
                fld("zone", 3, STR, required=True)]),
            msg("Disk", [fld("name", 1, STR), fld("size_gb", 2, I64)]),
            msg("InsertDiskRequest", [
                fld("project", 1, STR, required=True, op_request_field="project"),
                fld("zone", 2, STR, required=True, op_request_field="zone"),
                fld("disk_resource", 3, MSG, P + ".Disk", required=True)]),
            msg("ListDisksRequest", [
                fld("project", 1, STR, required=True),
                fld("zone", 2, STR, required=True),
                fld("max_results", 3, U32, opt3=True),
                fld("page_token", 4, STR, opt3=True)],
                oneofs=["_max_results", "_page_token"]),
            msg("DiskList", [
                fld("id", 1, STR), fld("items", 2, MSG, P + ".Disk", repeated=True),
                fld("next_page_token", 3, STR, opt3=True)],
                oneofs=["_next_page_token"]),
            msg("AggregatedListDisksRequest", [
                fld("project", 1, STR, required=True),
                fld("max_results", 3, U32), fld("page_token", 4, STR)]),
            msg("DisksScopedList", [fld("disks", 1, MSG, P + ".Disk", repeated=True)]),
            msg("DiskAggregatedList", [
                fld("items", 1, MSG, P + ".DiskAggregatedList.ItemsEntry", repeated=True),
                fld("next_page_token", 2, STR)],
                nested=[map_entry("ItemsEntry", MSG, P + ".DisksScopedList")]),
        ]
        for m in messages:
            if m.name == "ListDisksRequest":
                m.field[2].oneof_index = 0
                m.field[3].oneof_index = 1
            if m.name == "DiskList":
                m.field[2].oneof_index = 0
        zone_ops = svc("ZoneOperations", "compute.example.com", [
            rpc("Get", P + ".GetZoneOperationRequest", P + ".Operation",
                http=("get", "/compute/v1/projects/{project}/zones/{zone}/operations/{operation}"),
                sigs=["project,zone,operation"], polling=True)])
        disks = svc("Disks", "compute.example.com", [
            rpc("Insert", P + ".InsertDiskRequest", P + ".Operation",
                http=("post", "/compute/v1/projects/{project}/zones/{zone}/disks"),
                body="disk_resource", sigs=["project,zone,disk_resource"],
                op_service="ZoneOperations"),
            rpc("List", P + ".ListDisksRequest", P + ".DiskList",
                http=("get", "/compute/v1/projects/{project}/zones/{zone}/disks"),
                sigs=["project,zone"]),
            rpc("AggregatedList", P + ".AggregatedListDisksRequest",
                P + ".DiskAggregatedList",
                http=("get", "/compute/v1/projects/{project}/aggregated/disks"),
                sigs=["project"]),
        ])
        return [filep("acme/compute/v1/compute.proto", "acme.compute.v1",
                      ANNOT + ["google/cloud/extended_operations.proto"],
                      messages=messages, services=[zone_ops, disks])]

    # ---- Case family 4: repeated enum items (template may fail; both must agree)
    def enum_items():
        P = ".acme.palette.v1"
        return [filep(
            "acme/palette/v1/palette.proto", "acme.palette.v1", ANNOT,
            messages=[
                msg("ListColorsRequest", [fld("page_size", 1, I32),
                                          fld("page_token", 2, STR)]),
                msg("ListColorsResponse", [
                    fld("colors", 1, ENUM, P + ".Color", repeated=True),
                    fld("next_page_token", 2, STR)])],
            enums=[enum("Color", "COLOR_UNSPECIFIED", "RED", "GREEN")],
            services=[svc("Palette", "palette.example.com", [
                rpc("ListColors", P + ".ListColorsRequest", P + ".ListColorsResponse",
                    http=("get", "/v1/colors"))])])]

    ser = lambda fds: [fd.SerializeToString(deterministic=True) for fd in fds]  # noqa: E731
    cases = [
        dict(name="library-default", package="example.library.v1",
             fds=ser(base + lib), opts=""),
        dict(name="library-rest-numeric", package="example.library.v1",
             fds=ser(base + lib), opts="transport=rest,rest-numeric-enums"),
        dict(name="library-grpc-nosnippets", package="example.library.v1",
             fds=ser(base + lib), opts="transport=grpc,autogen-snippets=false"),
        dict(name="library-grpc+rest-iam", package="example.library.v1",
             fds=ser(base + lib),
             opts="transport=grpc+rest,add-iam-methods,warehouse-package-name=acme-library"),
        dict(name="store-subpackage", package="acme.store.v2",
             fds=ser(base + subpackaged()), opts="autogen-snippets=false"),
        dict(name="store-subpackage-rest", package="acme.store.v2",
             fds=ser(base + subpackaged()),
             opts="transport=rest,autogen-snippets=false,rest-numeric-enums"),
        dict(name="compute-extended-ops", package="acme.compute.v1",
             fds=ser(base + compute()), opts="transport=rest"),
        dict(name="compute-extended-ops-numeric", package="acme.compute.v1",
             fds=ser(base + compute()),
             opts="transport=rest,rest-numeric-enums,autogen-snippets=false"),
        dict(name="palette-enum-items", package="acme.palette.v1",
             fds=ser(base + enum_items()), opts=""),
    ]
    return cases


# --------------------------------------------------------------------------
def main(argv):
    if len(argv) >= 2 and argv[1] == "--worker":
        worker(*argv[2:5])
        return 0
    if len(argv) != 2:
        print(__doc__)
        return 2
    checkout = os.path.realpath(argv[1])
    tmp = tempfile.mkdtemp(prefix="twin-demo-W07-")
    try:
        pristine = os.path.join(tmp, "pristine")
        os.mkdir(pristine)
        archive = subprocess.Popen(["git", "-C", checkout, "archive", "HEAD"],
                                   stdout=subprocess.PIPE)
        subprocess.check_call(["tar", "-x", "-C", pristine], stdin=archive.stdout)
        archive.stdout.close()
        if archive.wait() != 0:
            raise RuntimeError("git archive failed")

        cases = build_cases()
        cases_path = os.path.join(tmp, "cases.pickle")
        with open(cases_path, "wb") as fh:
            pickle.dump(cases, fh)

        env = dict(os.environ, PYTHONHASHSEED="0", PYTHONDONTWRITEBYTECODE="1")
        env.pop("PYTHONPATH", None)
        outputs = {}
        for label, tree in (("pristine", pristine), ("changed", checkout)):
            out_path = os.path.join(tmp, f"{label}.pickle")
            subprocess.check_call(
                [sys.executable, os.path.abspath(__file__), "--worker", tree,
                 cases_path, out_path], env=env, cwd=tmp)
            with open(out_path, "rb") as fh:
                outputs[label] = pickle.load(fh)

        differing, nfiles, npagers, nfailed = [], 0, 0, 0
        for case in cases:
            a, b = outputs["pristine"][case["name"]], outputs["changed"][case["name"]]
            nfiles += len(a)
            nfailed += "__EXCEPTION__" in a
            npagers += sum(1 for n, c in a.items()
                           if n.endswith("pagers.py") and "Pager" in c)
            for name in sorted(set(a) | set(b)):
                if name not in a:
                    differing.append(f"{case['name']}: only in changed: {name}")
                elif name not in b:
                    differing.append(f"{case['name']}: only in pristine: {name}")
                elif a[name] != b[name]:
                    differing.append(f"{case['name']}: content differs: {name}")
        if differing:
            print(f"DIFFERENT: {len(differing)} file(s) differ")
            for line in differing:
                print("  " + line)
            return 1
        digest = hashlib.sha256(
            pickle.dumps(sorted((c, sorted(f.items()))
                                for c, f in outputs["pristine"].items()))).hexdigest()[:12]
        print(f"IDENTICAL: {len(cases)} API/option combinations, {nfiles} files "
              f"({npagers} non-empty pagers.py, {nfailed} cases failing identically "
              f"in both trees) byte-for-byte equal; sha256 {digest}")
        return 0
    finally:
        shutil.rmtree(tmp, ignore_errors=True)


if __name__ == "__main__":
    sys.exit(main(sys.argv))
