#!/usr/bin/env python
"""Twin demo for T01 (property C01): the refactoring does not change the output.

Usage:  /venv/bin/python demo.py <path-to-a-checkout-with-the-change>

The script
  1. exports the checkout's HEAD (`git archive HEAD | tar -x`) into a temp dir
     (the pristine tree); the checkout's working tree is the changed tree;
  2. builds several API descriptions (FileDescriptorProtos built in Python)
     and option strings, and pickles them;
  3. runs the generator over every case with BOTH trees, each in its own
     subprocess (so the two `gapic` packages never mix);
  4. compares file names and contents byte for byte.

Exit 0 + one summary line when identical; exit 1 listing differences otherwise.
"""
import os
import pickle
import shutil
import subprocess
import sys
import tempfile


# --------------------------------------------------------------------------
# Worker: runs inside a subprocess with exactly one tree on sys.path.
# --------------------------------------------------------------------------
def worker(tree: str, cases_path: str, out_path: str) -> int:
    sys.path.insert(0, tree)
    os.chdir(tree)

    # pandoc is not installed: stub the conversion identically for both runs.
    import pypandoc  # type: ignore

    def _convert_text(text, to, format=None, extra_args=(), **kw):
        return "\n".join(line.rstrip() for line in str(text).splitlines())

    pypandoc.convert_text = _convert_text

    import gapic.generator.generator
    import gapic.schema.metadata
    import gapic.utils
    for mod in (gapic.generator.generator, gapic.schema.metadata, gapic.utils):
        assert os.path.realpath(mod.__file__).startswith(
            os.path.realpath(tree) + os.sep), (mod.__file__, tree)

    from google.protobuf import descriptor_pb2
    from gapic.schema import api
    from gapic.generator import generator
    from gapic.utils import Options

    with open(cases_path, "rb") as fh:
        cases = pickle.load(fh)

    results = {}
    for case in cases:
        label = case["label"]
        try:
            protos = [descriptor_pb2.FileDescriptorProto.FromString(b)
                      for b in case["files"]]
            opts = Options.build(case["options"])
            package = os.path.commonprefix(
                [p.package for p in protos if p.name in case["to_generate"]]
            ).rstrip(".")
            api_schema = api.API.build(protos, opts=opts, package=package)
            res = generator.Generator(opts).get_response(api_schema, opts)
            files = {}
            for f in res.file:
                assert f.name not in files, f"duplicate output {f.name}"
                files[f.name] = f.content
            results[label] = {"files": files, "order": [f.name for f in res.file],
                              "features": res.supported_features}
        except Exception as exc:  # recorded and compared as well
            results[label] = {"error": f"{type(exc).__name__}: {exc}"}

    # A few direct probes of the refactored Address members (edge cases that
    # no generated file shows): empty packages, odd package segments, etc.
    from gapic.schema import metadata, naming
    probes = []
    nm = naming.NewNaming(proto_package="foo.bar_baz.v1", version="v1",
                          name="Bar Baz", namespace=("Foo",))
    for package in [(), ("v1",), ("foo", "v1"), ("foo", "bar_baz", "v1"),
                    ("foo", "v1", "v2beta1"), ("foo", "v1/x"), ("foo", "V1"),
                    ("a_b", "c__d", "v1"), ("_x", "v1"), ("google", "protobuf"),
                    ("foo", "v1p1beta1"), ("foo", "v"), ("foo", "v1\n")]:
        for module in ["class", "thing", "any", ""]:
            for collisions in [frozenset(), frozenset({"thing"})]:
                addr = metadata.Address(name="Msg", module=module, package=package,
                                        parent=("Outer",), api_naming=nm,
                                        collisions=collisions)
                row = [package, module, sorted(collisions)]
                for attr in ("module_alias", "proto_package_versioned", "__str__",
                             "python_import", "sphinx"):
                    try:
                        v = getattr(addr, attr)
                        v = v() if callable(v) else v
                        row.append(str(v))
                    except Exception as exc:
                        row.append(f"!{type(exc).__name__}: {exc}")
                try:
                    row.append(repr(addr.convert_to_versioned_package()))
                except Exception as exc:
                    row.append(f"!{type(exc).__name__}: {exc}")
                probes.append(row)
    results["__address_probes__"] = {"files": {"probes": repr(probes)},
                                     "order": ["probes"], "features": 0}

    # ... and of the template-selection helpers of the generator.
    gen = generator.Generator(Options.build(""))
    rows = []
    base = "%namespace/%name_%version/%sub/services/%service/"
    for transport in ["grpc", "rest", "grpc+rest", "rest+grpc", "custom"]:
        o = Options.build(f"transport={transport}")
        for t in ["transports/grpc.py.j2", "transports/grpc_asyncio.py.j2",
                  "transports/rest.py.j2", "transports/rest_base.py.j2",
                  "transports/rest_asyncio.py.j2", "transports/base.py.j2",
                  "transports/__init__.py.j2", "transports/README.rst.j2",
                  "transports/_mixins.py.j2", "client.py.j2"]:
            rows.append((transport, t, gen._is_desired_transport(base + t, o)))
    results["__transport_probes__"] = {"files": {"probes": repr(rows)},
                                       "order": ["probes"], "features": 0}

    with open(out_path, "wb") as fh:
        pickle.dump(results, fh)
    return 0


# --------------------------------------------------------------------------
# Case construction (runs in the parent; only protobuf / googleapis pb2).
# --------------------------------------------------------------------------
def build_cases(scratch: str):
    from google.protobuf import descriptor_pb2 as d
    from google.api import annotations_pb2, client_pb2, resource_pb2
    from google.api import field_behavior_pb2, http_pb2  # noqa: F401
    from google.longrunning import operations_pb2
    from google.rpc import status_pb2
    from google.protobuf import (any_pb2, duration_pb2, empty_pb2, field_mask_pb2,
                                 struct_pb2, timestamp_pb2, descriptor_pb2)

    F = d.FieldDescriptorProto

    def dep(mod):
        return d.FileDescriptorProto.FromString(mod.DESCRIPTOR.serialized_pb)

    std_mods = [descriptor_pb2, any_pb2, duration_pb2, empty_pb2, field_mask_pb2,
                struct_pb2, timestamp_pb2, http_pb2, annotations_pb2,
                sys.modules["google.api.launch_stage_pb2"], client_pb2,
                field_behavior_pb2, resource_pb2, status_pb2, operations_pb2]
    std = [dep(m) for m in std_mods]
    std_names = [f.name for f in std]

    def field(name, number, type_=F.TYPE_STRING, type_name=None, label=F.LABEL_OPTIONAL,
              oneof=None, proto3_optional=False, required=False, resource_ref=None):
        f = F(name=name, number=number, type=type_, label=label)
        # json_name as protoc would set it
        parts = name.split("_")
        f.json_name = parts[0] + "".join(p.capitalize() for p in parts[1:])
        if type_name:
            f.type_name = type_name
        if oneof is not None:
            f.oneof_index = oneof
        if proto3_optional:
            f.proto3_optional = True
        if required:
            f.options.Extensions[field_behavior_pb2.field_behavior].append(
                field_behavior_pb2.REQUIRED)
        if resource_ref:
            f.options.Extensions[resource_pb2.resource_reference].type = resource_ref
        return f

    def message(name, fields=(), nested=(), enums=(), oneofs=(), resource=None,
                map_entry=False):
        m = d.DescriptorProto(name=name)
        m.field.extend(fields)
        m.nested_type.extend(nested)
        m.enum_type.extend(enums)
        for o in oneofs:
            m.oneof_decl.add(name=o)
        if resource:
            r = m.options.Extensions[resource_pb2.resource]
            r.type = resource[0]
            r.pattern.extend(resource[1])
        if map_entry:
            m.options.map_entry = True
        return m

    def map_entry(name, value_type=F.TYPE_STRING, value_type_name=None):
        return message(name, [field("key", 1), field("value", 2, value_type, value_type_name)],
                       map_entry=True)

    def enum(name, values):
        e = d.EnumDescriptorProto(name=name)
        for i, v in enumerate(values):
            e.value.add(name=v, number=i)
        return e

    def method(name, inp, out, http=None, sig=(), cstream=False, sstream=False, lro=None,
               extra_bindings=()):
        m = d.MethodDescriptorProto(name=name, input_type=inp, output_type=out,
                                    client_streaming=cstream, server_streaming=sstream)
        if http:
            rule = m.options.Extensions[annotations_pb2.http]
            verb, path, body = http
            setattr(rule, verb, path)
            if body:
                rule.body = body
            for (v2, p2, b2) in extra_bindings:
                b = rule.additional_bindings.add()
                setattr(b, v2, p2)
                if b2:
                    b.body = b2
        for s in sig:
            m.options.Extensions[client_pb2.method_signature].append(s)
        if lro:
            info = m.options.Extensions[operations_pb2.operation_info]
            info.response_type, info.metadata_type = lro
        return m

    def service(name, methods, host=None, scopes=None):
        s = d.ServiceDescriptorProto(name=name)
        s.method.extend(methods)
        if host:
            s.options.Extensions[client_pb2.default_host] = host
        if scopes:
            s.options.Extensions[client_pb2.oauth_scopes] = scopes
        return s

    def file(name, package, deps=(), messages=(), enums=(), services=()):
        f = d.FileDescriptorProto(name=name, package=package, syntax="proto3")
        f.dependency.extend(deps)
        f.message_type.extend(messages)
        f.enum_type.extend(enums)
        f.service.extend(services)
        return f

    api_deps = ["google/api/annotations.proto", "google/api/client.proto",
                "google/api/field_behavior.proto", "google/api/resource.proto",
                "google/longrunning/operations.proto", "google/protobuf/timestamp.proto",
                "google/protobuf/empty.proto", "google/protobuf/field_mask.proto",
                "google/protobuf/any.proto", "google/protobuf/struct.proto",
                "google/protobuf/duration.proto"]

    cases = []

    def add(label, files, to_generate, options):
        cases.append({"label": label,
                      "files": [f.SerializeToString() for f in std + list(files)],
                      "to_generate": list(to_generate),
                      "options": options})

    # ---- API 1: a "library" API with about everything in one package -------
    P = "google.example.library.v1"
    pp = "." + P
    lib_types = file(
        "google/example/library/v1/resources.proto", P, api_deps,
        messages=[
            message("Book", [
                field("name", 1),
                field("class", 2),                       # reserved word
                field("from", 3, F.TYPE_INT32),          # reserved word
                field("tags", 4, label=F.LABEL_REPEATED),
                field("labels", 5, F.TYPE_MESSAGE, pp + ".Book.LabelsEntry",
                      label=F.LABEL_REPEATED),
                field("chapters", 6, F.TYPE_MESSAGE, pp + ".Book.ChaptersEntry",
                      label=F.LABEL_REPEATED),
                field("genre", 7, F.TYPE_ENUM, pp + ".Genre"),
                field("isbn", 8, oneof=0),
                field("legacy_id", 9, F.TYPE_INT64, oneof=0),
                field("rating", 10, F.TYPE_DOUBLE, oneof=1, proto3_optional=True),
                field("create_time", 11, F.TYPE_MESSAGE, ".google.protobuf.Timestamp"),
                field("sequel", 12, F.TYPE_MESSAGE, pp + ".Book"),      # recursive
                field("blob", 13, F.TYPE_BYTES),
                field("extra", 14, F.TYPE_MESSAGE, ".google.protobuf.Any"),
                field("props", 15, F.TYPE_MESSAGE, ".google.protobuf.Struct"),
                field("cover", 16, F.TYPE_MESSAGE, pp + ".Book.Chapter.Kind.Cover"),
            ], nested=[
                map_entry("LabelsEntry"),
                map_entry("ChaptersEntry", F.TYPE_MESSAGE, pp + ".Book.Chapter"),
                message("Chapter", [field("title", 1), field("pages", 2, F.TYPE_INT32),
                                    field("state", 3, F.TYPE_ENUM, pp + ".Book.Chapter.State")],
                        nested=[message("Kind", nested=[message("Cover", [field("hard", 1, F.TYPE_BOOL)])])],
                        enums=[enum("State", ["STATE_UNSPECIFIED", "DRAFT", "None"])]),
            ], oneofs=["identifier", "_rating"],
                resource=("library.example.com/Book",
                          ["shelves/{shelf}/books/{book}", "publishers/{publisher}/books/{book}"])),
            message("Shelf", [field("name", 1), field("theme", 2)],
                    resource=("library.example.com/Shelf", ["shelves/{shelf}"])),
        ],
        enums=[enum("Genre", ["GENRE_UNSPECIFIED", "FICTION", "SCIENCE"])],
    )
    lib_svc = file(
        "google/example/library/v1/library.proto", P,
        api_deps + ["google/example/library/v1/resources.proto"],
        messages=[
            message("GetBookRequest", [field("name", 1, required=True,
                                             resource_ref="library.example.com/Book")]),
            message("CreateBookRequest", [field("parent", 1, required=True,
                                                resource_ref="library.example.com/Shelf"),
                                          field("book", 2, F.TYPE_MESSAGE, pp + ".Book", required=True),
                                          field("request_id", 3)]),
            message("UpdateBookRequest", [field("book", 1, F.TYPE_MESSAGE, pp + ".Book"),
                                          field("update_mask", 2, F.TYPE_MESSAGE,
                                                ".google.protobuf.FieldMask")]),
            message("DeleteBookRequest", [field("name", 1)]),
            message("ListBooksRequest", [field("parent", 1), field("page_size", 2, F.TYPE_INT32),
                                         field("page_token", 3), field("filter", 4)]),
            message("ListBooksResponse", [field("books", 1, F.TYPE_MESSAGE, pp + ".Book",
                                                label=F.LABEL_REPEATED),
                                          field("next_page_token", 2)]),
            message("ArchiveShelfRequest", [field("name", 1), field("force", 2, F.TYPE_BOOL)]),
            message("ArchiveShelfMetadata", [field("progress", 1, F.TYPE_INT32)]),
            message("StreamBooksRequest", [field("parent", 1)]),
        ],
        services=[
            service("LibraryService", [
                method("GetBook", pp + ".GetBookRequest", pp + ".Book",
                       ("get", "/v1/{name=shelves/*/books/*}", None), sig=["name"],
                       extra_bindings=[("get", "/v1/{name=publishers/*/books/*}", None)]),
                method("CreateBook", pp + ".CreateBookRequest", pp + ".Book",
                       ("post", "/v1/{parent=shelves/*}/books", "book"), sig=["parent,book"]),
                method("UpdateBook", pp + ".UpdateBookRequest", pp + ".Book",
                       ("patch", "/v1/{book.name=shelves/*/books/*}", "book"),
                       sig=["book,update_mask"]),
                method("DeleteBook", pp + ".DeleteBookRequest", ".google.protobuf.Empty",
                       ("delete", "/v1/{name=shelves/*/books/*}", None), sig=["name"]),
                method("ListBooks", pp + ".ListBooksRequest", pp + ".ListBooksResponse",
                       ("get", "/v1/{parent=shelves/*}/books", None), sig=["parent"]),
                method("ArchiveShelf", pp + ".ArchiveShelfRequest", ".google.longrunning.Operation",
                       ("post", "/v1/{name=shelves/*}:archive", "*"),
                       lro=("Shelf", "ArchiveShelfMetadata")),
                method("StreamBooks", pp + ".StreamBooksRequest", pp + ".Book",
                       ("get", "/v1/{parent=shelves/*}/books:stream", None), sstream=True),
                method("UploadBooks", pp + ".Book", pp + ".ListBooksResponse", cstream=True),
                method("Chat", pp + ".Book", pp + ".Book", cstream=True, sstream=True),
            ], host="library.googleapis.com",
                scopes="https://www.googleapis.com/auth/cloud-platform,https://www.googleapis.com/auth/books"),
            service("Import", [    # a second, tiny service with an awkward name
                method("Import", pp + ".GetBookRequest", pp + ".Book",
                       ("post", "/v1/{name=shelves/*/books/*}:import", "*")),
            ], host="library.googleapis.com:443"),
        ],
    )
    lib_files = [lib_types, lib_svc]
    lib_gen = [f.name for f in lib_files]
    for label, o in [
        ("library/default", ""),
        ("library/grpc", "transport=grpc"),
        ("library/rest", "transport=rest"),
        ("library/rest-numeric", "transport=rest,rest-numeric-enums"),
        ("library/both-nosnippets-metadata", "transport=grpc+rest,autogen-snippets=false,metadata"),
        ("library/rest+grpc-order", "transport=rest+grpc,metadata"),
        ("library/old-naming-iam", "old-naming,add-iam-methods,warehouse-package-name=my-books"),
    ]:
        add(label, lib_files, lib_gen, o)

    # ---- service yaml variants (experimental features gate templates) ------
    def yaml_opts(fname, version, features, extra=""):
        path = os.path.join(scratch, fname)
        lines = ["type: google.api.Service", "config_version: 3",
                 "name: library.googleapis.com", "publishing:", "  library_settings:",
                 f"  - version: {version}", "    python_settings:",
                 "      experimental_features:"]
        lines += [f"        {k}: true" for k in features]
        with open(path, "w") as fh:
            fh.write("\n".join(lines) + "\n")
        return f"service-yaml={path}" + extra

    add("library/rest-async", lib_files, lib_gen,
        yaml_opts("async.yaml", P, ["rest_async_io_enabled"], ",transport=rest"))
    add("library/both-async", lib_files, lib_gen,
        yaml_opts("async2.yaml", P, ["rest_async_io_enabled"], ",transport=grpc+rest,metadata"))
    add("library/grpc-async-flag", lib_files, lib_gen,
        yaml_opts("async3.yaml", P, ["rest_async_io_enabled"], ",transport=grpc"))
    add("library/unversioned-disabled", lib_files, lib_gen,
        yaml_opts("unver.yaml", P, ["unversioned_package_disabled"], ""))
    add("library/yaml-other-version", lib_files, lib_gen,
        yaml_opts("other.yaml", "google.example.library.v2",
                  ["rest_async_io_enabled", "unversioned_package_disabled"], ",transport=rest"))

    # ---- API 2: sub-packages, several services, module-name collisions -----
    Q = "google.cloud.big_thing.v1beta1"
    qq = "." + Q
    # an external proto-plus dependency and an external protobuf dependency
    dep_plus = file("google/cloud/other_dep/v2/class.proto", "google.cloud.other_dep.v2",
                    messages=[message("Widget", [field("name", 1)])],
                    enums=[enum("Colour", ["COLOUR_UNSPECIFIED", "RED"])])
    dep_pb2 = file("google/type_x/money.proto", "google.type_x",
                   messages=[message("Money", [field("units", 1, F.TYPE_INT64)])])
    bt_common = file(
        "google/cloud/big_thing/v1beta1/import.proto", Q,       # module `import` is reserved
        ["google/cloud/other_dep/v2/class.proto", "google/type_x/money.proto"] + api_deps,
        messages=[message("Common", [
            field("widget", 1, F.TYPE_MESSAGE, ".google.cloud.other_dep.v2.Widget"),
            field("colour", 2, F.TYPE_ENUM, ".google.cloud.other_dep.v2.Colour"),
            field("price", 3, F.TYPE_MESSAGE, ".google.type_x.Money"),
            field("ttl", 4, F.TYPE_MESSAGE, ".google.protobuf.Duration"),
        ])])
    bt_things = file(
        "google/cloud/big_thing/v1beta1/things.proto", Q,
        ["google/cloud/big_thing/v1beta1/import.proto"] + api_deps,
        messages=[
            message("Thing", [field("name", 1),
                              # a field called like a module -> collision
                              field("things", 2, label=F.LABEL_REPEATED),
                              field("common", 3, F.TYPE_MESSAGE, qq + ".Common"),
                              field("admin", 4, F.TYPE_MESSAGE, qq + ".admin.Policy")],
                    resource=("bigthing.example.com/Thing", ["projects/{project}/things/{thing}", "*"])),
            message("GetThingRequest", [field("name", 1), field("import", 2),
                                        field("common", 3, F.TYPE_MESSAGE, qq + ".Common")]),
            message("ListThingsRequest", [field("parent", 1), field("page_size", 2, F.TYPE_INT32),
                                          field("page_token", 3)]),
            message("ListThingsResponse", [field("things", 1, F.TYPE_MESSAGE, qq + ".Thing",
                                                 label=F.LABEL_REPEATED),
                                           field("next_page_token", 2)]),
        ],
        services=[service("Things", [
            method("GetThing", qq + ".GetThingRequest", qq + ".Thing",
                   ("get", "/v1beta1/{name=projects/*/things/*}", None), sig=["name", "name,import"]),
            method("ListThings", qq + ".ListThingsRequest", qq + ".ListThingsResponse",
                   ("get", "/v1beta1/{parent=projects/*}/things", None)),
            method("GetWidget", qq + ".GetThingRequest", ".google.cloud.other_dep.v2.Widget",
                   ("post", "/v1beta1/{name=projects/*/things/*}:widget", "*")),
            method("GetMoney", qq + ".Common", ".google.type_x.Money"),
        ], host="bigthing.googleapis.com")])
    bt_things.dependency.append("google/cloud/big_thing/v1beta1/admin/policy.proto")
    bt_admin = file(
        "google/cloud/big_thing/v1beta1/admin/policy.proto", Q + ".admin",
        ["google/cloud/big_thing/v1beta1/import.proto"] + api_deps,
        messages=[message("Policy", [field("name", 1),
                                     field("common", 2, F.TYPE_MESSAGE, qq + ".Common"),
                                     field("policy", 3)]),
                  message("SetPolicyRequest", [field("policy", 1, F.TYPE_MESSAGE, qq + ".admin.Policy")])],
        services=[service("AdminService", [
            method("SetPolicy", qq + ".admin.SetPolicyRequest", qq + ".admin.Policy",
                   ("post", "/v1beta1/policy", "policy"), sig=["policy"]),
            method("WatchPolicy", qq + ".admin.SetPolicyRequest", qq + ".admin.Policy",
                   ("get", "/v1beta1/policy:watch", None), sstream=True),
        ], host="bigthing.googleapis.com")])
    bt_files = [dep_plus, dep_pb2, bt_common, bt_admin, bt_things]
    bt_gen = [bt_common.name, bt_admin.name, bt_things.name]
    for label, o in [
        # NB: with snippets on, sample generation raises KeyError for a service
        # that lives in a sub-package (in both trees) - kept as an error-parity case.
        ("bigthing/default-snippets", "proto-plus-deps=google.cloud.other_dep.v2"),
        ("bigthing/default", "autogen-snippets=false,proto-plus-deps=google.cloud.other_dep.v2"),
        ("bigthing/rest", "autogen-snippets=false,transport=rest,"
                          "proto-plus-deps=google.cloud.other_dep.v2+google.type_x"),
        ("bigthing/no-plus-deps", "autogen-snippets=false,transport=grpc+rest,metadata"),
        ("bigthing/grpc", "transport=grpc,autogen-snippets=false,rest-numeric-enums"),
    ]:
        add(label, bt_files, bt_gen, o)

    # ---- API 3: no version, no annotations at all, name overrides ----------
    R = "acme.widgets"
    rr = "." + R
    w = file("acme/widgets/any.proto", R, [],           # module `any` is a builtin name
             messages=[message("Req", [field("id", 1), field("yield", 2, F.TYPE_BOOL)]),
                       message("Resp", [field("ok", 1, F.TYPE_BOOL),
                                        field("any", 2, F.TYPE_MESSAGE, rr + ".Req")])],
             services=[service("Widgets", [
                 method("Do", rr + ".Req", rr + ".Resp"),
                 method("Watch", rr + ".Req", rr + ".Resp", sstream=True),
             ]), service("Empty", [])])
    for label, o in [
        ("widgets/default", ""),
        ("widgets/rest-only", "transport=rest"),
        ("widgets/named", "python-gapic-name=gizmo,python-gapic-namespace=Acme+Labs,transport=grpc+rest"),
        ("widgets/custom-transport", "transport=custom"),
    ]:
        add(label, [w], [w.name], o)

    # ---- API 4: messages only (no service), and an LRO-only API ------------
    S = "google.example.shapes.v2"
    shapes = file("google/example/shapes/v2/shapes.proto", S, api_deps,
                  messages=[message("Shape", [field("sides", 1, F.TYPE_INT32),
                                              field("kind", 2, F.TYPE_ENUM, "." + S + ".Kind")])],
                  enums=[enum("Kind", ["KIND_UNSPECIFIED", "ROUND"])])
    add("shapes/types-only", [shapes], [shapes.name], "")
    add("shapes/types-only-rest", [shapes], [shapes.name], "transport=rest,metadata")

    # ---- the ads template set also goes through the refactored Python ------
    add("library/ads-templates", lib_files, lib_gen, "python-gapic-templates=ads-templates,old-naming")

    return cases


# --------------------------------------------------------------------------
def main(argv) -> int:
    if len(argv) >= 2 and argv[1] == "--worker":
        return worker(argv[2], argv[3], argv[4])
    if len(argv) != 2:
        print(__doc__)
        return 2

    checkout = os.path.abspath(argv[1])
    tmp = tempfile.mkdtemp(prefix="twin-T01-")
    try:
        pristine = os.path.join(tmp, "pristine")
        os.mkdir(pristine)
        archive = subprocess.Popen(["git", "-C", checkout, "archive", "HEAD"],
                                   stdout=subprocess.PIPE)
        subprocess.check_call(["tar", "-x", "-C", pristine], stdin=archive.stdout)
        archive.stdout.close()
        if archive.wait() != 0:
            raise RuntimeError("git archive failed")

        cases = build_cases(tmp)
        cases_path = os.path.join(tmp, "cases.pkl")
        with open(cases_path, "wb") as fh:
            pickle.dump(cases, fh)

        outs = {}
        env = dict(os.environ, PYTHONDONTWRITEBYTECODE="1", PYTHONHASHSEED="0")
        env.pop("PYTHONPATH", None)
        # The two workers are independent processes; run them side by side.
        procs = {}
        for which, tree in (("pristine", pristine), ("changed", checkout)):
            out_path = os.path.join(tmp, which + ".pkl")
            procs[which] = (out_path, subprocess.Popen(
                [sys.executable, os.path.abspath(__file__), "--worker",
                 tree, cases_path, out_path], env=env, cwd=tmp))
        for which, (out_path, proc) in procs.items():
            if proc.wait() != 0:
                raise RuntimeError(f"worker for the {which} tree failed")
            with open(out_path, "rb") as fh:
                outs[which] = pickle.load(fh)

        a, b = outs["pristine"], outs["changed"]
        diffs = []
        nfiles = 0
        nerr = 0
        for label in sorted(set(a) | set(b)):
            ra, rb = a.get(label), b.get(label)
            if ra is None or rb is None:
                diffs.append(f"{label}: case missing in one run")
                continue
            if "error" in ra or "error" in rb:
                nerr += 1
                if ra != rb:
                    diffs.append(f"{label}: error differs: {ra.get('error')!r} vs {rb.get('error')!r}")
                continue
            if ra["order"] != rb["order"]:
                diffs.append(f"{label}: file list/order differs: "
                             f"only-pristine={sorted(set(ra['order']) - set(rb['order']))} "
                             f"only-changed={sorted(set(rb['order']) - set(ra['order']))}")
            if ra["features"] != rb["features"]:
                diffs.append(f"{label}: supported_features differs")
            for name in sorted(set(ra["files"]) & set(rb["files"])):
                nfiles += 1
                if ra["files"][name] != rb["files"][name]:
                    diffs.append(f"{label}: {name}")
        if diffs:
            print(f"DIFFERENT: {len(diffs)} difference(s)")
            for line in diffs:
                print("  " + line)
            return 1
        failing = sorted(l for l in a if "error" in a[l])
        print(f"IDENTICAL: {len(a)} cases, {nfiles} files compared byte for byte"
              + (f"; {nerr} case(s) raise the same error in both trees: {failing}" if nerr else ""))
        return 0
    finally:
        shutil.rmtree(tmp, ignore_errors=True)


if __name__ == "__main__":
    sys.exit(main(sys.argv))
